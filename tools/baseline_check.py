#!/venv/bin/python
"""Run the repository's pinned test-suite on a tree and compare with BASELINE.json.

usage: baseline_check.py [repo_dir]   (default /repo)
exit 0 iff every test in BASELINE.stable_pass passes on that tree.
"""
import json, os, subprocess, sys, tempfile
import xml.etree.ElementTree as ET

def main():
    repo = os.path.abspath(sys.argv[1] if len(sys.argv) > 1 else '/repo')
    base = json.load(open('/root/.vp/BASELINE.json'))
    want = set(base['stable_pass'])
    fd, xml = tempfile.mkstemp(suffix='.xml'); os.close(fd)
    env = dict(os.environ, PYTHONPATH=os.path.join(repo, 'src'), PYTHONDONTWRITEBYTECODE='1')
    env.pop('TALLY_VERIF', None)
    p = subprocess.run(['/venv/bin/python', '-m', 'pytest', '-q', '-p', 'no:cacheprovider', '--timeout=900',
                        '--continue-on-collection-errors', '--junitxml=' + xml], cwd=repo, env=env,
                       stdout=subprocess.PIPE, stderr=subprocess.STDOUT, text=True)
    passed = set()
    try:
        for tc in ET.parse(xml).getroot().iter('testcase'):
            if not any(c.tag in ('failure', 'error', 'skipped') for c in tc):
                passed.add(f"{tc.get('classname')}::{tc.get('name')}")
    finally:
        os.unlink(xml)
    missing = sorted(want - passed)
    print(p.stdout.strip().splitlines()[-1] if p.stdout.strip() else '(no output)')
    print(f"baseline tests passing: {len(want & passed)}/{len(want)}")
    for m in missing[:40]:
        print("  NOT PASSING:", m)
    sys.exit(0 if not missing else 1)

main()

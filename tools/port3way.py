#!/usr/bin/env python3
"""Try to port patches that no longer apply to /repo HEAD with `git apply --3way` in a scratch worktree (outside /repo and /verif).
usage: port3way.py <patch> [...]   -> for each: PORTED (patch rewritten; original kept as *.orig.diff) / CONFLICT / APPLIES
A seeded patch (seeded/<id>/patch.diff) also gets a 'ported' note in its meta.json."""
import json, os, shutil, subprocess, sys, tempfile


def sh(*a, **k):
    return subprocess.run(a, capture_output=True, text=True, **k)


wt = tempfile.mkdtemp(prefix='vt-port-'); os.rmdir(wt)
assert sh('git', '-C', '/repo', 'worktree', 'add', '--detach', wt, 'HEAD').returncode == 0
try:
    for patch in sys.argv[1:]:
        patch = os.path.abspath(patch)
        sh('git', '-C', wt, 'reset', '--hard', '-q'); sh('git', '-C', wt, 'clean', '-fdq')
        if sh('git', '-C', wt, 'apply', '--check', patch).returncode == 0:
            print('APPLIES', patch); continue
        r = sh('git', '-C', wt, 'apply', '--3way', patch)
        conflict = 'with conflicts' in (r.stdout + r.stderr) or sh('git', '-C', wt, 'diff', '--name-only', '--diff-filter=U').stdout.strip()
        if r.returncode != 0 and not conflict:
            print('FAILS', patch, (r.stderr or r.stdout).strip().splitlines()[-1:]); continue
        if conflict:
            print('CONFLICT', patch); continue
        d = sh('git', '-C', wt, 'diff', 'HEAD').stdout
        if not d.strip():
            print('EMPTY', patch); continue
        orig = patch[:-5] + '.orig.diff' if patch.endswith('.diff') else patch + '.orig'
        if not os.path.exists(orig):
            shutil.copy(patch, orig)
        open(patch, 'w', newline='').write(d)
        meta = os.path.join(os.path.dirname(patch), 'meta.json')
        if os.path.basename(patch) == 'patch.diff' and os.path.exists(meta):
            m = json.load(open(meta)); m['ported'] = 'patch.diff is the same change merged (git apply --3way) onto the repaired /repo HEAD; the original is patch.orig.diff'
            json.dump(m, open(meta, 'w'), indent=1)
        print('PORTED', patch)
finally:
    sh('git', '-C', '/repo', 'worktree', 'remove', '--force', wt); shutil.rmtree(wt, ignore_errors=True); sh('git', '-C', '/repo', 'worktree', 'prune')

#!/usr/bin/env python3
"""Confirm an independently written breaking change and store it under /verif/seeded/<Cnn>-<variant>/.

usage: keep_seeded.py <Cnn> <variant> [srcdir=/tmp/mut/<Cnn>/out]
Confirms in a scratch git worktree (outside /repo and /verif, removed afterwards):
  patch applies to /repo HEAD; baseline 701/701 with the patch; demo exit 0 clean; demo exit 1 patched.
"""
import json, os, shutil, subprocess, sys, tempfile
pid, var = sys.argv[1], sys.argv[2]
src = sys.argv[3] if len(sys.argv) > 3 else f'/tmp/mut/{pid}/out'
save_as = sys.argv[4] if len(sys.argv) > 4 else var
patch = os.path.join(src, f'{var}.patch.diff'); demo = os.path.join(src, f'{var}_demo.py'); meta = os.path.join(src, f'{var}_meta.json')
wt = tempfile.mkdtemp(prefix='vt-keep-'); os.rmdir(wt)
def sh(cmd, **kw): return subprocess.run(cmd, capture_output=True, text=True, **kw)
res = {}
try:
    r = sh(['git', '-C', '/repo', 'worktree', 'add', '--detach', wt, os.environ.get('KEEP_BASE', 'HEAD')]); assert r.returncode == 0, r.stderr
    head = sh(['git', '-C', '/repo', 'rev-parse', os.environ.get('KEEP_BASE', 'HEAD')]).stdout.strip()
    env = dict(os.environ, TALLY_SRC=os.path.join(wt, 'src'), PYTHONPATH=os.path.join(wt, 'src'), PYTHONDONTWRITEBYTECODE='1')
    r = sh(['/venv/bin/python', demo], env=env, cwd='/tmp', timeout=600); res['demo_clean_rc'] = r.returncode
    r = sh(['git', '-C', wt, 'apply', patch]); res['patch_applies'] = r.returncode == 0
    if r.returncode: print(r.stderr)
    r = sh(['/venv/bin/python', demo], env=env, cwd='/tmp', timeout=600); res['demo_patched_rc'] = r.returncode; res['demo_patched_tail'] = (r.stdout + r.stderr)[-400:]
    r = sh(['/verif/tools/baseline_check.py', wt]); res['baseline_rc'] = r.returncode; res['baseline_tail'] = r.stdout.strip().splitlines()[-1:]
    r = sh(['/venv/bin/python', '-m', 'tally', '--help'], env=env, cwd='/tmp'); res['cli_help_rc'] = r.returncode
finally:
    sh(['git', '-C', '/repo', 'worktree', 'remove', '--force', wt]); shutil.rmtree(wt, ignore_errors=True)
ok = res.get('patch_applies') and res.get('demo_clean_rc') == 0 and res.get('demo_patched_rc') == 1 and res.get('baseline_rc') == 0 and res.get('cli_help_rc') == 0
print(pid, var, 'CONFIRMED' if ok else 'REJECTED', json.dumps(res)[:600])
if ok:
    d = f'/verif/seeded/{pid}-{save_as}'; os.makedirs(d, exist_ok=True)
    shutil.copy(patch, os.path.join(d, 'patch.diff')); shutil.copy(demo, os.path.join(d, 'demo.py'))
    m = json.load(open(meta)) if os.path.exists(meta) else {}
    json.dump({'property': pid, 'variant': save_as, 'breaks': m.get('summary'), 'needs_to_manifest': m.get('needs_to_manifest'),
               'files': m.get('files'), 'author': 'independent sub-agent given only the property text',
               'base_commit': head,
               'confirmed_by_me': {'cmds': ['git worktree add <scratch> HEAD', 'demo.py (clean) -> exit 0', 'git apply patch.diff', 'demo.py (patched) -> exit 1',
                                            'tools/baseline_check.py <scratch> -> 701/701', 'python -m tally --help -> 0'], 'results': res},
               'caught_by': None}, open(os.path.join(d, 'meta.json'), 'w'), indent=1)
sys.exit(0 if ok else 1)

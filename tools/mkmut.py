#!/usr/bin/env python3
"""Make a mutant patch: mkmut.py <name> <file-relative-to-repo> <old> <new> [<old2> <new2> ...]  -> mutants/<name>.diff"""
import difflib, os, sys
name, rel = sys.argv[1], sys.argv[2]
pairs = sys.argv[3:]
src = open(os.path.join('/repo', rel), newline='').read()
nl = '\r\n' if '\r\n' in src else '\n'
new = src
for i in range(0, len(pairs), 2):
    old, rep = pairs[i].replace('\\n', nl), pairs[i + 1].replace('\\n', nl)
    if new.count(old) != 1:
        sys.exit(f'pattern occurs {new.count(old)} times: {old!r}')
    new = new.replace(old, rep)
d = ''.join(difflib.unified_diff(src.splitlines(True), new.splitlines(True), 'a/' + rel, 'b/' + rel))
out = os.path.join('/verif/mutants', name + '.diff')
mode = 'a' if os.environ.get('APPEND') else 'w'
open(out, mode, newline='').write(d)
print('wrote', out, len(d.splitlines()), 'lines')

#!/usr/bin/env python3
"""Re-express a patch against the current /repo HEAD by exact string replacements (on a copy of the file, never in /repo).
usage: port_edit.py <patch-to-rewrite> <file-relative-to-repo> <old> <new> [<old2> <new2> ...]     ('\\n' in the arguments = the file's line ending)
The original is kept as <patch>.orig.diff (once); a seeded patch gets a 'ported' note in its meta.json."""
import difflib, json, os, shutil, sys
patch, rel = os.path.abspath(sys.argv[1]), sys.argv[2]
pairs = sys.argv[3:]
src = open(os.path.join('/repo', rel), newline='', encoding='utf-8').read()
nl = '\r\n' if '\r\n' in src else '\n'
new = src
for i in range(0, len(pairs), 2):
    old, rep = pairs[i].replace('\\n', nl), pairs[i + 1].replace('\\n', nl)
    if new.count(old) != 1:
        sys.exit('pattern occurs %d times: %r' % (new.count(old), old[:80]))
    new = new.replace(old, rep)
d = ''.join(difflib.unified_diff(src.splitlines(True), new.splitlines(True), 'a/' + rel, 'b/' + rel))
orig = patch[:-5] + '.orig.diff'
if os.path.exists(patch) and not os.path.exists(orig):
    shutil.copy(patch, orig)
mode = 'a' if os.environ.get('APPEND') else 'w'
open(patch, mode, newline='').write(d)
meta = os.path.join(os.path.dirname(patch), 'meta.json')
if os.path.basename(patch) == 'patch.diff' and os.path.exists(meta):
    m = json.load(open(meta))
    m['ported'] = 'patch.diff is the same change re-expressed by hand against the repaired /repo HEAD (a later fix: commit changed the same lines); the original is patch.orig.diff'
    json.dump(m, open(meta, 'w'), indent=1)
print('rewrote', patch, len(d.splitlines()), 'lines')

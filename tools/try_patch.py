#!/usr/bin/env python3
"""Apply a patch to a scratch copy of /repo (outside /repo and /verif), run checks against it, delete the copy.

usage: try_patch.py <patch.diff> <Cnn> [<Cnn> ...]     (env VERIF_TIER / VERIF_SEED passed through)
prints one line per check:  <patch> <check> rc=<n> [keys...]
"""
import json, os, shutil, subprocess, sys, tempfile
patch = os.path.abspath(sys.argv[1]); checks = sys.argv[2:]
d = tempfile.mkdtemp(prefix='vt-mut-')
try:
    subprocess.run(['rsync', '-a', '--exclude', '.git', '/repo/', d + '/'], check=True)
    r = subprocess.run(['git', 'apply', '--unsafe-paths', '--directory', d, patch], capture_output=True, text=True, cwd='/')
    if r.returncode != 0:
        r = subprocess.run(['patch', '-p1', '-d', d, '-i', patch], capture_output=True, text=True)
        if r.returncode != 0:
            print('PATCH DOES NOT APPLY', patch, r.stdout[-300:], r.stderr[-300:]); sys.exit(3)
    for c in checks:
        env = dict(os.environ, VERIF_REPO=d, VERIF_NO_EVIDENCE='1')
        p = subprocess.run(['/verif/check', c], capture_output=True, text=True, env=env)
        keys = [l.strip() for l in p.stdout.splitlines() if l.startswith('VIOLATION') or l.startswith('INCONCLUSIVE') or (l.startswith('  ') and ':' in l and not l.startswith('  monitors'))]
        print(f'{os.path.basename(os.path.dirname(patch))}/{os.path.basename(patch)} {c} rc={p.returncode}', ' | '.join(k[:160] for k in keys[:4]))
        if os.environ.get('VT_VERBOSE'): print(p.stdout[-3000:], p.stderr[-2000:])
finally:
    shutil.rmtree(d, ignore_errors=True)

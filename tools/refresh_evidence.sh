#!/bin/sh
# Run every check's quick tier against /repo and rewrite evidence/<id>.json; prints one line per check. Exit 1 if any check is not silent.
cd "$(dirname "$0")/.." || exit 2
rc=0
for i in 01 02 03 04 05 06 07 08 09 10 11 12 13 14 15 16 17 18 19 20; do
  out=$(VERIF_TIER=${VERIF_TIER:-quick} ./check C$i 2>&1); code=$?
  echo "C$i exit=$code $(echo "$out" | grep -E '^\[C' | cut -c1-120)"
  [ $code -ne 0 ] && { rc=1; echo "$out" | grep -E 'VIOLATION|INCONCLUSIVE' | head -5; }
done
exit $rc

#!/usr/bin/env python3
"""Run every seeded change (seeded/*/patch.diff) and every own mutant (mutants/*.diff) against its property's check
(quick tier, scratch copy of /repo) and write seeded/MATRIX.md + update each meta.json 'caught_by'.
usage: matrix.py [--only <substr>] [--tier quick|thorough]"""
import glob, json, os, re, subprocess, sys
V = '/verif'
only = sys.argv[sys.argv.index('--only') + 1] if '--only' in sys.argv else ''
tier = sys.argv[sys.argv.index('--tier') + 1] if '--tier' in sys.argv else 'quick'
items = []
for d in sorted(glob.glob(V + '/seeded/*/patch.diff')):
    sid = os.path.basename(os.path.dirname(d)); items.append(('seeded', sid, d, sid.split('-')[0]))
for d in sorted(glob.glob(V + '/mutants/*.diff')):
    n = os.path.basename(d)[:-5]; items.append(('mutant', n, d, n.split('-')[0]))
neutral = {k: v for k, v in json.load(open(V + '/mutants/NEUTRALISED.json')).items() if not k.startswith('_')} if os.path.exists(V + '/mutants/NEUTRALISED.json') else {}
not_caught = {k: v for k, v in json.load(open(V + '/seeded/NOT_CAUGHT.json')).items() if not k.startswith('_')} if os.path.exists(V + '/seeded/NOT_CAUGHT.json') else {}
rows = []
from concurrent.futures import ThreadPoolExecutor
jobs = []
for kind, name, patch, pid in items:
    if only and only not in name: continue
    extra = json.load(open(os.path.dirname(patch) + '/meta.json')).get('also_check', []) if kind == 'seeded' else []
    for chk in [pid] + extra:
        jobs.append((kind, name, patch, pid, chk))
def one(j):
    kind, name, patch, pid, chk = j
    p = subprocess.run([V + '/tools/try_patch.py', patch, chk], capture_output=True, text=True, env=dict(os.environ, VERIF_TIER=tier))
    line = (p.stdout.strip().splitlines() or ['?'])[-1]
    m = re.search(r'rc=(\d+)\s*(.*)', line)
    rc, keys = (int(m.group(1)), m.group(2)) if m else (-1, line)
    print(kind, name, chk, 'rc=%d' % rc, keys[:100], flush=True)
    return (kind, name, chk, rc, keys[:140], patch, pid)
with ThreadPoolExecutor(int(os.environ.get('MATRIX_JOBS', '4'))) as ex:
    for kind, name, chk, rc, keys, patch, pid in ex.map(one, jobs):
        rows.append((kind, name, chk, rc, keys))
        if kind == 'seeded' and chk == pid:
            mp = os.path.dirname(patch) + '/meta.json'; meta = json.load(open(mp))
            meta['caught_by'] = {'check': chk, 'tier': tier, 'exit': rc, 'first_violation': keys[:200] if rc == 1 else None}
            json.dump(meta, open(mp, 'w'), indent=1)
if not only:
    with open(V + '/seeded/MATRIX.md', 'w') as f:
        f.write('# Which check catches which change (%s tier)\n\n| kind | change | check | exit | first violation |\n|---|---|---|---|---|\n' % tier)
        sib = {}
        for r in rows:
            if r[0] == 'seeded' and r[3] == 1:
                sib.setdefault(r[1], []).append(r[2])
        rows = [(r[0], r[1], r[2], r[3], ('(not by this check; caught by %s, see the next row(s) - `also_check` in its meta.json)' % ', '.join(sib[r[1]]))
                 if (r[0] == 'seeded' and r[3] == 0 and not r[4] and r[1] in sib and r[1] not in neutral and r[1] not in not_caught) else r[4]) for r in rows]
        for r in rows: f.write('| %s | %s | %s | %d | %s |\n' % (r[0], r[1], r[2], r[3], ('NEUTRALISED at HEAD: ' + neutral[r[1]]) if (r[1] in neutral and r[3] == 0) else ('NOT CAUGHT (documented): ' + not_caught[r[1]][:300]) if (r[1] in not_caught and r[3] == 0) else r[4].replace('|', '/')))

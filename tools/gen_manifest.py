#!/usr/bin/env python3
"""Regenerate MANIFEST.json from the table below (a property is claimed once vt/checks/cNN.py exists)."""
import json, os
V = os.path.dirname(os.path.dirname(os.path.abspath(__file__)))
T = {
 'C01': ('exploration', 'reference rule matcher + single-rule self-consistency + delete/permute/insert metamorphic monitors on MerchantEngine.match and normalize_merchant (.rules and legacy CSV paths)', '§3 C01'),
 'C02': ('exploration', 'tag-union reference monitor + permutation and tag-only-neutrality metamorphic monitors, both rule modes', '§3 C02'),
 'C03': ('exploration', 'sys.addaudithook + sys.monitoring CALL denylist + value/string monitor on every sub-expression + immutability snapshots over a hostile expression corpus', '§3 C03'),
 'C04': ('exploration', 'independent reference interpreter compared with evaluate_transaction on generated well-typed expressions + equivalence-law metamorphic monitors', '§3 C04'),
 'C05': ('exploration', 'statement-row model known by construction compared with parse_generic_csv output; malformed-row insertion metamorphic', '§3 C05'),
 'C06': ('exploration', 'exact-Fraction money model post-condition on analyze_transactions + permutation/partition metamorphic monitors', '§3 C06'),
 'C07': ('exploration', 'operation histories checked against a pristine-state oracle process; cache and immutability snapshots', '§3 C07'),
 'C08': ('exploration', 'poison-element metamorphic monitor: file with a failing element vs file without it, at every call site', '§3 C08'),
 'C09': ('exploration', 'specificity-ranking reference monitor over all rule permutations (n<=5 exhaustive)', '§3 C09'),
 'C10': ('exploration', 'views reference model on raw payments vs classify_by_sections; view add/remove/reorder metamorphic', '§3 C10'),
 'C11': ('exploration', 'fresh-process CLI runs of generated budgets compared with the composed reference models; one-setting-flip and source-fault metamorphics', '§3 C11'),
 'C12': ('exploration', 'read-back parsers per output format (html.parser+json, JSON, Markdown, text) compared with the analysed stats on hostile strings', '§3 C12'),
 'C13': ('exploration', 'differential execution: classification block of spending_report.js under node vs classification.py on an exhaustive tag/sign grid', '§3 C13'),
 'C14': ('exploration', 'differential monitor: legacy CSV rule path vs migrated .rules path on the same transactions', '§3 C14'),
 'C15': ('fault_enumeration', 'crash / torn-write / OSError injected at every file-system effect of each migration (audit-hook injector in the child), tree + classification oracle afterwards', '§3 C15'),
 'C16': ('exploration', 'three-way CLI differential: tally up vs explain vs discover on generated budgets', '§3 C16'),
 'C17': ('exploration', 'layout-preserving-edit metamorphic monitors + single-point corruption rejection monitors on the two loaders and the CLI', '§3 C17'),
 'C18': ('exploration', 'positional reference model for format strings (exhaustive to width 5) + tally inspect suggestion round-trip', '§3 C18'),
 'C19': ('exploration', 'closure monitor: every discover suggestion loaded by the real parser and matched against its own description; discover-append-discover loop', '§3 C19'),
 'C20': ('exploration', 'file-tree hash snapshots + child-side audit-hook effect log around CLI command sequences', '§3 C20'),
}
NOTE = ('Trusted base: CPython 3.12 (/venv), the re/csv/json/html.parser/datetime stdlib modules, node v20 (C13 only), and the '
        'harness under /verif/vt. Verdicts hold for the executions produced (seeded generators; counts in the evidence file), '
        'not for all inputs.')
checks, na = [], []
for pid in sorted(T):
    lvl, tech, ref = T[pid]
    if os.path.exists(os.path.join(V, 'vt', 'checks', pid.lower() + '.py')):
        checks.append({
            'property_id': pid,
            'quick_cmd': f'VERIF_TIER=quick ./check {pid}',
            'thorough_cmd': f'VERIF_TIER=thorough ./check {pid}',
            'evidence_file': f'/verif/evidence/{pid}.json',
            'replay_cmd_template': f'./check {pid} --replay {{path}}',
            'engine': 'vt',
            'level_claimed': {'category': lvl, 'text': ('Runtime monitoring of the real code under generated hostile workloads: ' + tech +
                              '. Held-on-observed only; bounded-exhaustive sub-spaces are marked exhaustive in the evidence.'), 'design_ref': 'DESIGN.md ' + ref},
            'level_note': NOTE,
            'technique': 'runtime monitoring: ' + tech,
        })
    else:
        na.append({'property_id': pid, 'reason': 'runtime-monitoring check designed (DESIGN.md ' + ref + ') but not built yet; not claimed until it runs silently on the unchanged tree'})
m = {
 'version': 1,
 'setup_cmd': '/venv/bin/python -B -c "import sys; sys.path.insert(0, \'/repo/src\'); import tally, yaml; print(\'setup ok\', tally.__file__)"',
 'hooks': {'guard': 'TALLY_VERIF', 'enable': 'not used: every monitor attaches from the harness (wrappers, sys.addaudithook, sys.monitoring, PYTHONPATH sitecustomize injector for child processes); /repo carries no instrumentation',
           'baseline_off_cmd': 'cd /repo && /venv/bin/python -m pytest -ra -q -p no:cacheprovider --timeout=900 --continue-on-collection-errors',
           'source_commits': [], 'add_only': True},
 'engines': [{'name': 'vt', 'path': '/verif/vt', 'serves_properties': [c['property_id'] for c in checks],
              'kind_free_text': 'stdlib-only Python runtime-monitoring harness (seeded generators, reference models, metamorphic and invariant monitors, audit/monitoring hooks, fault injector, CLI driver), sharded over subprocesses'}],
 'checks': checks,
 'not_applicable': na,
 'notes': 'Exit 0 = held on everything observed, 1 = VIOLATION line printed, 2 = inconclusive (a deciding monitor observed nothing). Known findings: /verif/known_findings.json. Self-validation corpus: /verif/seeded/.',
}
json.dump(m, open(os.path.join(V, 'MANIFEST.json'), 'w'), indent=1)
print('claimed', [c['property_id'] for c in checks], 'not claimed', len(na))

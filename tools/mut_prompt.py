#!/usr/bin/env python3
"""Print the prompt given to an independent sub-agent asked to break one property."""
import json, sys
pid = sys.argv[1]
for l in open('/verif/properties.jsonl'):
    d = json.loads(l)
    if d['id'] == pid:
        break
else:
    sys.exit('no such property')
print(f"""You are helping test a verification effort by acting as a careful saboteur. The project is davidfowl/tally, a local Python CLI rule engine that classifies bank-statement CSV transactions (source under src/tally, tests under tests/). You will work ONLY in your own scratch git worktree; never edit /repo itself and do not read anything under /verif.

Set up your worktree first:
    git -C /repo worktree add --detach /tmp/mut2/{pid}/wt HEAD
    mkdir -p /tmp/mut2/{pid}/out
Run Python as:  PYTHONPATH=/tmp/mut2/{pid}/wt/src /venv/bin/python ...   (so that `import tally` resolves to YOUR worktree; check tally.__file__).
No network is available. Do not install anything.

THE PROPERTY (a semantic guarantee users rely on):
  Title: {d['title']}
  Statement: {d['statement']}
  Holds for: {d['quantifier']['text']}

YOUR TASK: produce TWO independent, alternative source changes (variant A and variant B; each applies on its own to a clean checkout) to the code under src/tally that each BREAK this property, while
  (1) the package still imports and the CLI still runs, and
  (2) the existing test suite still passes exactly as before: run `/tmp/mut/baseline_check.py /tmp/mut2/{pid}/wt` - it must print `baseline tests passing: 701/701` and exit 0 (85 browser/CLI tests fail or error on the clean tree too; that is expected and ignored).
Make the changes REALISTIC - the kind of plausible bug a maintainer could introduce in a refactor, optimisation, or feature tweak (1-15 changed lines each) - and SUBTLE: they must need something specific to manifest (an unusual input, a particular combination of rules/settings, a multi-step sequence of operations, a particular ordering, a fault at a particular point, or two cooperating sites that each look fine alone). Do NOT make changes that ordinary everyday use would expose at once, and do not just delete the feature. The two variants should break the property through different mechanisms / different code locations. Prefer mechanisms a reviewer would be unlikely to think of first: caches and memoisation, evaluation or iteration order, shared mutable state, default-argument or aliasing mistakes, Unicode / locale / boundary values, error-handling paths, or an interaction between two features that each look fine alone.

For each variant X in (A, B) write into /tmp/mut2/{pid}/out/:
  - X.patch.diff : `git diff` of the worktree against HEAD for that variant only (must apply cleanly with `git apply` on a clean checkout of HEAD; source changes only, no test edits)
  - X_demo.py    : a small standalone program that takes the source root from the environment variable TALLY_SRC (default /repo/src), puts it first on sys.path, exercises the real tally code (library calls or `python -m tally ...` subprocesses with PYTHONPATH set to that root) and exits 0 when the property holds for the demonstrated case and exits 1 (printing what went wrong) when it is violated. It must PASS (exit 0) on the clean tree and FAIL (exit 1) with variant X applied. Verify both yourself.
  - X_meta.json  : {{"property": "{pid}", "variant": "X", "summary": "...what the change does...", "needs_to_manifest": "...the specific input/sequence/config needed...", "files": [...], "verified": {{"baseline_701_pass": true/false, "demo_pass_clean": true/false, "demo_fail_mutated": true/false}}}}
Between variants reset the worktree with `git -C /tmp/mut2/{pid}/wt checkout -- .`.

When finished, reset the worktree (git checkout -- .) but leave it and the out/ directory in place, and reply with a short summary of the two variants (what, where, what is needed to manifest) and the verification results. Be honest: if a variant fails a baseline test or you could not verify something, say so.""")

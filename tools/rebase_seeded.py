#!/usr/bin/env python3
"""Port a seeded patch to the current /repo HEAD by string replacements on a scratch copy and rewrite seeded/<id>/patch.diff.
usage: rebase_seeded.py <seeded-id> <file> <old> <new> [...]   (records the port in meta.json)"""
import difflib, json, os, sys
sid, rel = sys.argv[1], sys.argv[2]; pairs = sys.argv[3:]
src = open(os.path.join('/repo', rel), newline='').read(); nl = '\r\n' if '\r\n' in src else '\n'
new = src
for i in range(0, len(pairs), 2):
    old, rep = pairs[i].replace('\\n', nl), pairs[i+1].replace('\\n', nl)
    assert new.count(old) == 1, (new.count(old), old)
    new = new.replace(old, rep)
d = ''.join(difflib.unified_diff(src.splitlines(True), new.splitlines(True), 'a/' + rel, 'b/' + rel))
p = f'/verif/seeded/{sid}'
if os.path.exists(p + '/patch.diff') and not os.path.exists(p + '/patch.orig.diff'):
    os.rename(p + '/patch.diff', p + '/patch.orig.diff')
open(p + '/patch.diff', 'w', newline='').write(d)
m = json.load(open(p + '/meta.json')); m['ported'] = 'patch.diff is the same change re-expressed against the repaired /repo HEAD (the original, against the pinned commit, is patch.orig.diff)'
json.dump(m, open(p + '/meta.json', 'w'), indent=1); print('ported', sid, len(d.splitlines()))

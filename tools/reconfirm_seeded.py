#!/usr/bin/env python3
"""Re-confirm every seeded change against the CURRENT /repo HEAD (after the fix: commits).
For each seeded/<id>: scratch worktree (outside /repo and /verif, removed afterwards) -> demo exit 0 clean, patch applies,
demo exit 1 patched, baseline 701/701 patched (skipped with --fast).  Result is written to meta.json['at_head'].
usage: reconfirm_seeded.py [--fast] [--only substr]"""
import glob, json, os, shutil, subprocess, sys, tempfile
fast = '--fast' in sys.argv
only = sys.argv[sys.argv.index('--only') + 1] if '--only' in sys.argv else ''
def sh(cmd, **kw): return subprocess.run(cmd, capture_output=True, text=True, **kw)
head = sh(['git', '-C', '/repo', 'rev-parse', '--short', 'HEAD']).stdout.strip()
for d in sorted(glob.glob('/verif/seeded/*/')):
    sid = os.path.basename(d.rstrip('/'))
    if only and only not in sid: continue
    if not os.path.exists(d + 'patch.diff'): continue
    wt = tempfile.mkdtemp(prefix='vt-reconf-'); os.rmdir(wt)
    res = {'head': head}
    try:
        assert sh(['git', '-C', '/repo', 'worktree', 'add', '--detach', wt, 'HEAD']).returncode == 0
        env = dict(os.environ, TALLY_SRC=os.path.join(wt, 'src'), PYTHONPATH=os.path.join(wt, 'src'), PYTHONDONTWRITEBYTECODE='1')
        res['demo_clean_rc'] = sh(['/venv/bin/python', d + 'demo.py'], env=env, cwd='/tmp', timeout=900).returncode
        r = sh(['git', '-C', wt, 'apply', d + 'patch.diff']); res['patch_applies'] = r.returncode == 0
        if res['patch_applies']:
            res['demo_patched_rc'] = sh(['/venv/bin/python', d + 'demo.py'], env=env, cwd='/tmp', timeout=900).returncode
            if not fast:
                res['baseline_rc'] = sh(['/verif/tools/baseline_check.py', wt]).returncode
    finally:
        sh(['git', '-C', '/repo', 'worktree', 'remove', '--force', wt]); shutil.rmtree(wt, ignore_errors=True)
    ok = res.get('patch_applies') and res.get('demo_clean_rc') == 0 and res.get('demo_patched_rc') == 1 and (fast or res.get('baseline_rc') == 0)
    res['status'] = 'breaks-property-at-head' if ok else ('needs-port' if not res.get('patch_applies') else ('demo-fails-on-clean-head' if res.get('demo_clean_rc') != 0 else ('neutralised-at-head' if res.get('demo_patched_rc') == 0 else 'baseline-fails')))
    m = json.load(open(d + 'meta.json')); m['at_head'] = res; json.dump(m, open(d + 'meta.json', 'w'), indent=1)
    print(sid, res['status'], res, flush=True)

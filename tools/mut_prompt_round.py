#!/usr/bin/env python3
"""Write the prompts for a further round of independent breaking-change sub-agents.
usage: mut_prompt_round.py <round-dir e.g. /tmp/mut4>
Each prompt = the property text (tools/mut_prompt.py wording) + one-paragraph summaries of the changes earlier sub-agents proposed
for that property (taken from their own meta.json, i.e. nothing about the checks in /verif) + a request for different mechanisms."""
import glob, json, os, subprocess, sys
rd = sys.argv[1]
os.makedirs(rd, exist_ok=True)
EXTRA_R4 = ("Prefer mechanisms a reviewer would be unlikely to think of first AND that differ in KIND from the list below: for example an "
         "interaction between two settings or two commands, behaviour that depends on the number or order of inputs (first/last element, empty "
         "collection, exactly one element, duplicates), numeric boundaries (float rounding, -0.0, very large/small values, integer vs float), "
         "dates and calendars (month/year ends, leap days, datetime vs date), text encodings and line endings (BOM, CRLF, tabs, trailing "
         "blanks), option defaults, early returns / `continue` / `break` on a rare branch, exception types caught too broadly or too narrowly, "
         "state kept on an object that outlives one use, or output formats/verbosity levels that are rarely used.")
EXTRA_R6 = ("Prefer mechanisms that differ in KIND from everything listed below and that live on paths people rarely exercise: rarely used command-line "
         "options and their combinations (--settings, --output, --format with each verbosity level, --category, --no-embedded-html, --limit, "
         "TALLY_CONFIG), budgets spanning several years or several settings files, supplemental data sources, the interplay of views and rules, "
         "files produced on Windows or by spreadsheets (CRLF, UTF-8 BOM, trailing delimiters, quoted numbers, tabs), very small inputs (one row, "
         "one rule, empty file, header only) and very large ones, values at type boundaries (int vs float vs string, None vs empty, -0.0, NaN kept "
         "out by validation), Python language traps (mutable defaults, late-binding closures, `is` vs `==`, truthiness of 0 / '' / [], chained "
         "comparison, integer division, sort stability, dict ordering, generator exhaustion, shadowed names, except clauses that swallow too "
         "much), or a helper shared by two features that is changed for the sake of one.")
EXTRA = ("Prefer mechanisms that differ in KIND from everything listed below. Good hunting grounds: performance work (batching, early exits, "
         "pre-computation outside a loop, replacing a per-item computation by a per-group one), API tidying (reordered or renamed keyword "
         "arguments, changed default values, a helper extracted from two call sites that differed in one detail), sorting and ordering changes "
         "(sorted() with a new key, set vs list, dict insertion order), rounding and number formatting (round(), '%.2f', int()), output text "
         "that other code or the user parses, state that survives between two commands through files on disk (caches, backups, temporary "
         "files, markers), handling of paths (relative vs absolute, trailing separators, symlinks, spaces and non-ASCII in names), and "
         "interplay with features added recently (run `git -C <your worktree> log --oneline | head -40` to see what was fixed lately: a "
         "plausible bug is a partial revert or a new special case that forgets one of those fixes' conditions). If the property allows, "
         "put at least one of your two variants in a file other than expr_parser.py and merchant_engine.py.")
EXTRA_R7 = EXTRA
EXTRA = ("Prefer mechanisms that differ in KIND from everything listed below. Read the 'Holds for' clause literally and aim at the corner of that "
         "domain that is least likely to have been exercised by anyone: a combination of three conditions rather than two, the second or later "
         "occurrence of something (second file, second run, second match, second view), an input that is legal but that nobody would write by "
         "hand, or a code path that only one command or one output format reaches (the deprecated `type: amex` / `type: boa` readers, "
         "`--format markdown` and `summary`, `-v` / `-vv`, `tally diag`, `tally inspect`, `tally explain --view/--category/--tags`, "
         "`tally update`, `--no-embedded-html`, `--group-by`, year/title/currency settings, supplemental sources, `columns.description` "
         "templates, delimiter / has_header / negate_amount / skip settings).  Also good: a change that is correct for every input whose "
         "size is below some threshold (a cache that fills, a list longer than N, a file larger than a read buffer, more than 9 / 99 / 999 "
         "items so that text sorts differently from numbers), a change that only matters when two different entry points are used in the "
         "same process, and a 'harmless' change to what a helper RETURNS for a rare argument (None vs '' vs [], a tuple that gains a field, a "
         "generator instead of a list).  Run `git -C <your worktree> log --oneline | head -45` to see what was fixed lately and make sure "
         "your change is not simply the reverse of one of those commits.  If the property allows, put your two variants in two different files.")
EXTRA_R8 = EXTRA
EXTRA = ("Prefer mechanisms that differ in KIND from everything listed below. This time think like a reviewer who has to find the ONE line of a "
         "large, reasonable-looking pull request that is wrong: bugs of omission (a new branch that forgets a step its sibling branch performs; "
         "a second call site of a helper that is not updated with the first), the wrong one of two similar variables reused (raw vs cleaned text, "
         "signed vs absolute amount, per-transaction vs per-merchant value, index vs count), `x or default` where 0 / '' / [] are legitimate "
         "values, shallow copies of nested data, str methods with subtly different reach (strip vs rstrip vs removesuffix, split with and "
         "without maxsplit, partition vs rpartition, title vs capitalize, isdigit vs isdecimal), `in` on a string vs on a list, slices that are "
         "off by one at the ends, comparisons of floats for equality, `sorted` with a key that ties, `max`/`min` on an empty or single-element "
         "collection, `zip` that silently truncates, dict.update order, `any`/`all` over generators consumed twice, except clauses reordered, "
         "and messages or keys that another function later parses or looks up.  Spread out: prefer the files analyzer.py, report.py, "
         "config_loader.py, format_parser.py, section_engine.py, classification.py, merchant_utils.py, parsers.py and commands/*.py over "
         "expr_parser.py and merchant_engine.py unless the property lives there.  Run `git -C <your worktree> log --oneline | head -50` and "
         "make sure your change is not simply the reverse of one of those commits.  Put your two variants in two different files if the "
         "property allows.")
EXTRA_R9 = EXTRA
EXTRA = ("Prefer mechanisms that differ in KIND from everything listed below. This time look for TWO-SITE bugs - a caller and a callee (or a writer "
         "and a later reader: of a file, a dict key, a printed line, a JSON field, a settings key) that stop agreeing about a unit, a sign, a letter "
         "case, None versus empty, a list versus a set, a date versus a datetime, an index base, an encoding or a path base after only ONE of them "
         "is 'improved' - and for conditions under which a rarely taken branch is taken for the first time: the second data source, the second "
         "year, the thirteenth month, a merchant with exactly one payment, a view with no members, a rules file with only variables, a statement "
         "with only credits, a budget whose every transaction is excluded from spending, an amount of exactly 0.00 or exactly the threshold.  "
         "Modules that have seen few proposals so far are good places: commands/explain.py, commands/discover.py, commands/diag.py, "
         "commands/inspect.py, commands/run.py, report.py, analyzer.py (the export_* and print_* functions, build_merchant_json, "
         "classify_by_sections), config_loader.py, section_engine.py, format_parser.py, classification.py, parsers.py, merchant_utils.py.  Run "
         "`git -C <your worktree> log --oneline | head -55` and make sure your change is not simply the reverse of one of those commits.  Put "
         "your two variants in two different files if the property allows.")
EXTRA_R11 = EXTRA
EXTRA = ("Prefer mechanisms that differ in KIND from everything listed below. This time imitate a well-meaning MODERNISATION or CLEAN-UP pull request: a "
         "hand-written loop replaced by a library call that is almost equivalent (csv dialect options, re flags, str.casefold vs lower vs upper, "
         "str.split() vs split(' '), splitlines vs split('\\n'), datetime.strptime vs fromisoformat, float() vs Decimal, json.dumps defaults such as "
         "ensure_ascii/sort_keys, os.path vs pathlib semantics, glob vs listdir order, shutil.copy vs copy2 vs move, open() modes / newline= / "
         "encoding= / errors=), a dataclass or dict whose field gains a default, a comprehension that replaces a loop with a `continue`/`break`, a "
         "memoisation (functools.lru_cache, a module-level dict) whose key forgets one ingredient, a condition simplified with De Morgan that is off "
         "for one combination, a 'defensive' early return / try-except / `.get(k, default)` that hides a case which used to be handled, a warning "
         "that replaces an error or the reverse, a value now computed once and reused although an input changes in between, and text that is "
         "normalised (stripped, case-folded, NFC-normalised, de-quoted) on one path but not on the sibling path.  Also consider the environment: "
         "TALLY_CONFIG and other environment variables, the current directory, stdout being a pipe rather than a terminal, NO_COLOR, the locale, an "
         "output directory that already exists or does not, read-only or missing files.  Spread out over the code base (commands/*.py, cli.py, "
         "config_loader.py, analyzer.py, report.py, spending_report.js, section_engine.py, format_parser.py, classification.py, parsers.py, "
         "merchant_utils.py, modifier_parser.py) rather than expr_parser.py and merchant_engine.py unless the property lives "
         "there.  Run `git -C <your worktree> log --oneline | head -60` and make sure your change is not simply the reverse of one of those commits.  "
         "Put your two variants in two different files if the property allows.")
EXTRA_R12 = EXTRA
EXTRA = ("Prefer mechanisms that differ in KIND from everything listed below. This time go for FEATURE INTERACTIONS and the edges of scale, platform and time: two "
         "features that each work but were never combined (field transforms x legacy [modifiers], most_specific x tag-only rules x priorities, supplemental "
         "sources x views, description templates x regex delimiters, --category/--tags/--view filters x output formats, several settings files x TALLY_CONFIG, "
         "year/title/currency settings x every output format); sizes (an empty file, a header-only file, one row, ten thousand rows, a very long line, hundreds "
         "of rules, hundreds of views, deeply nested parentheses, numbers like 1e15 or 0.001, amounts with many decimals); platform differences (Windows path "
         "separators and drive letters in settings, case-insensitive lookups, trailing slashes, paths with spaces or non-ASCII letters, os.sep vs '/'); time "
         "(today's date, the TZ environment variable, year and month boundaries, 29 February, dates far in the past or future, two-digit years); process "
         "environment (HOME unset, COLUMNS / TERM, a read-only output folder, stdout closed early by `| head`, exit codes and the stdout/stderr split that "
         "scripts rely on); and the report's own JavaScript and HTML (spending_report.js computed properties, sorting, filtering, search, chart data, number "
         "formatting, the data embedded by report.py) where the property touches the report.  Spread out over the code base (commands/*.py, cli.py, "
         "config_loader.py, analyzer.py, report.py, spending_report.js, section_engine.py, format_parser.py, classification.py, parsers.py, merchant_utils.py, "
         "modifier_parser.py) rather than expr_parser.py and merchant_engine.py unless the property lives there.  Run `git -C <your worktree> log --oneline | "
         "head -60` and make sure your change is not simply the reverse of one of those commits.  Put your two variants in two different files if the property allows.")
EXTRA_R13 = EXTRA
EXTRA = ("Prefer mechanisms that differ in KIND from everything listed below. This time think about HISTORIES and REPETITION rather than single inputs: the second, "
         "third or hundredth call of a function in one process (module-level state, default arguments, class attributes, functools caches, compiled patterns, "
         "iterators consumed once, lists extended in place); the same command run twice on one budget (files left behind by the first run: reports, backups, "
         "temporary files, schema markers); two budgets or two settings files handled in one process; a long statement after a short one; a rule file loaded "
         "after another rule file; an object handed in by the caller that is modified or kept (transactions, rows, format specs, config dicts, argparse "
         "namespaces); generators or zip() that silently stop early; dict or set iteration order that depends on insertion history; sort() that is stable only "
         "by accident; floating-point sums whose result depends on the order of addition; and `tally` sub-commands that few people run (diag, inspect, "
         "reference, workflow, update, explain with several queries at once, discover with --limit / --format csv).  Also look for off-by-one and boundary "
         "slips in counting and slicing ([:n] vs [:n+1], range ends, >= vs >, first/last element treated specially, empty and single-element collections).  "
         "Spread out over the code base (commands/*.py, cli.py, config_loader.py, analyzer.py, report.py, spending_report.js, section_engine.py, "
         "format_parser.py, classification.py, parsers.py, merchant_utils.py, modifier_parser.py) rather than expr_parser.py and merchant_engine.py unless the "
         "property lives there.  Run `git -C <your worktree> log --oneline | head -60` and make sure your change is not simply the reverse of one of those "
         "commits.  Put your two variants in two different files if the property allows.")
if len(sys.argv) > 2 and sys.argv[2] == 'r13':
    EXTRA = EXTRA_R13
if len(sys.argv) > 2 and sys.argv[2] == 'r12':
    EXTRA = EXTRA_R12
if len(sys.argv) > 2 and sys.argv[2] == 'r11':
    EXTRA = EXTRA_R11
if len(sys.argv) > 2 and sys.argv[2] == 'r9':
    EXTRA = EXTRA_R9
if len(sys.argv) > 2 and sys.argv[2] == 'r8':
    EXTRA = EXTRA_R8
if len(sys.argv) > 2 and sys.argv[2] == 'r7':
    EXTRA = EXTRA_R7
if len(sys.argv) > 2 and sys.argv[2] == 'r6':
    EXTRA = EXTRA_R6
if len(sys.argv) > 2 and sys.argv[2] == 'r4':
    EXTRA = EXTRA_R4
for l in open('/verif/properties.jsonl'):
    d = json.loads(l)
    pid = d['id']
    base = subprocess.run(['python3', '/verif/tools/mut_prompt.py', pid], capture_output=True, text=True).stdout
    base = base.replace('/tmp/mut2/', rd.rstrip('/') + '/')
    prior = []
    for m in sorted(glob.glob(f'/verif/seeded/{pid}-*/meta.json')):
        b = (json.load(open(m)).get('breaks') or '').strip().replace('\n', ' ')
        if b:
            prior.append('  - ' + b[:420])
    marker = '\n\nFor each variant X in (A, B) write into'
    i = base.index(marker)
    text = base[:i] + ' ' + EXTRA + '\n\nALREADY PROPOSED by other people for this property (do NOT repeat these mechanisms or close relatives of them; find genuinely different ones, in other functions or files where possible):\n' + '\n'.join(prior) + base[i:]
    open(os.path.join(rd, f'prompt_{pid}.txt'), 'w').write(text)
    print(pid, len(prior), len(text))

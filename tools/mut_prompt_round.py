#!/usr/bin/env python3
"""Write the prompts for a further round of independent breaking-change sub-agents.
usage: mut_prompt_round.py <round-dir e.g. /tmp/mut4>
Each prompt = the property text (tools/mut_prompt.py wording) + one-paragraph summaries of the changes earlier sub-agents proposed
for that property (taken from their own meta.json, i.e. nothing about the checks in /verif) + a request for different mechanisms."""
import glob, json, os, subprocess, sys
rd = sys.argv[1]
os.makedirs(rd, exist_ok=True)
EXTRA = ("Prefer mechanisms a reviewer would be unlikely to think of first AND that differ in KIND from the list below: for example an "
         "interaction between two settings or two commands, behaviour that depends on the number or order of inputs (first/last element, empty "
         "collection, exactly one element, duplicates), numeric boundaries (float rounding, -0.0, very large/small values, integer vs float), "
         "dates and calendars (month/year ends, leap days, datetime vs date), text encodings and line endings (BOM, CRLF, tabs, trailing "
         "blanks), option defaults, early returns / `continue` / `break` on a rare branch, exception types caught too broadly or too narrowly, "
         "state kept on an object that outlives one use, or output formats/verbosity levels that are rarely used.")
for l in open('/verif/properties.jsonl'):
    d = json.loads(l)
    pid = d['id']
    base = subprocess.run(['python3', '/verif/tools/mut_prompt.py', pid], capture_output=True, text=True).stdout
    base = base.replace('/tmp/mut2/', rd.rstrip('/') + '/')
    prior = []
    for m in sorted(glob.glob(f'/verif/seeded/{pid}-*/meta.json')):
        b = (json.load(open(m)).get('breaks') or '').strip().replace('\n', ' ')
        if b:
            prior.append('  - ' + b[:420])
    marker = '\n\nFor each variant X in (A, B) write into'
    i = base.index(marker)
    text = base[:i] + ' ' + EXTRA + '\n\nALREADY PROPOSED by other people for this property (do NOT repeat these mechanisms or close relatives of them; find genuinely different ones, in other functions or files where possible):\n' + '\n'.join(prior) + base[i:]
    open(os.path.join(rd, f'prompt_{pid}.txt'), 'w').write(text)
    print(pid, len(prior), len(text))

"""C11 - tally up honours every setting: report = totals(classify(parse(sources))).

Fresh-process CLI runs of generated budget directories compared with the COMPOSITION of the reference models:
rows per source (C05 row model under that source's own settings) -> classification (reference matcher with the configured
rules file, rule mode, transforms and supplemental rows) -> totals (exact money model) -> view membership (views model).
Metamorphic: flipping one setting of one source changes nothing that belongs to another source.  Faults: a missing /
unreadable source is named in the output, exit status stays 0, the other sources' figures are intact.
"""
import json
import math
import os
import shutil
import tempfile
from collections import Counter, defaultdict

from vt import core, budget as B, rules as R
from vt.checks import c06, c10

SPEC = {
    'level': 'exploration',
    'shards': {'quick': 8, 'thorough': 16},
    'rule': ('budget directories with 1-3 transaction sources (independent format strings, delimiters, header flags, decimal separators, sign '
             'modes, custom captures/templates), optional supplemental source queried by rules, .rules / legacy CSV / no rules, first_match / '
             'most_specific / default, optional views file, currency format; per budget: JSON run, HTML run, one single-setting flip, one source '
             'fault. Non-trivial = budget with >=2 sources whose settings differ, or a supplemental source, or views; distinct by digest'),
    'exhaustive': {'quick': False, 'thorough': False},
    'required_counters': ['cli_runs', 'budgets_compared_with_model', 'transactions_compared', 'total_figure_checks', 'view_membership_checks',
                          'setting_flip_checks', 'source_fault_checks', 'budgets_with_same_named_sources'],
    'assumptions': ['deprecated type: amex|boa sources are not generated', 'each CLI run is a fresh interpreter'],
}


def per_source(htx):
    # category/subcategory are merchant-level attributes merged across sources by merchant name: not a per-source figure
    d = defaultdict(Counter)
    for t in htx:
        d[t[0]][(t[1],) + t[4:]] += 1
    return d


def run_up(root, cfg, fmt=None, quiet=False, cwd=None, hashseed=None):
    args = ['up', cfg]
    if fmt:
        args += ['--format', fmt, '-v']
    if quiet:
        args.append('-q')
    # (string hashing is randomised per process: nothing in a report may depend on it, so the runs use different seeds)
    return B.tally(cwd or root, *args, env_extra={'PYTHONHASHSEED': str(hashseed)} if hashseed is not None else None)


def judge(rec, rnd, tmp, k):
    b = B.gen_budget(rnd)
    if rnd.random() < .12:
        # any folder can be named as the config folder (tally up <dir>, TALLY_CONFIG); the settings then name their files relative to ITS parent
        b['cfg_name'] = rnd.choice(['cfg-2025', 'my config', 'Config', 'settings.d'])
        rec.count('budgets_with_another_config_folder_name')
    same_names = len(b['sources']) >= 2 and rnd.random() < .25
    if same_names:
        # source names are labels, not keys: two statement files of one account may carry the same name and both still count
        j = rnd.randrange(1, len(b['sources']))
        b['sources'][j]['name'] = b['sources'][j]['settings']['name'] = b['sources'][0]['name']
        rec.count('budgets_with_same_named_sources')
    root = os.path.join(tmp, 'b%d' % k)
    os.makedirs(root)
    cfg = B.write_budget(b, root)
    base = os.path.dirname(cfg)
    case = {'kind': 'budget', 'settings': B.settings_dict(b), 'files': {s['settings']['file']: s['text'] for s in b['sources']},
            'rules': R.render(b['rf']) if b['rules_kind'] == 'rules' else (R.render_csv(b['csv_rules']) if b['rules_kind'] == 'csv' else None),
            'views': c10.render_views(*b['views']) if b['views'] else None}
    rec.case()
    try:
        exp = B.expected(b)
    except R.OutOfDomain:
        rec.count('out_of_domain_budgets')
        return
    if not exp:
        return
    # every other budget is run FROM another folder that holds files of the same relative names (another year's budget): a command given a config
    # folder reads that budget's files only
    cwd0 = None
    if k % 2 == 0:
        cwd0 = root + '-elsewhere'
        cfgn = b.get('cfg_name') or 'config'
        os.makedirs(os.path.join(cwd0, cfgn), exist_ok=True)
        with open(os.path.join(cwd0, cfgn, 'views.rules'), 'w') as f:
            f.write('[Decoy View]\nfilter: true\n')
        with open(os.path.join(cwd0, cfgn, 'merchants.rules'), 'w') as f:
            f.write('[Decoy Rule]\nmatch: true\ncategory: Decoy\nsubcategory: Decoy\n')
        with open(os.path.join(cwd0, cfgn, 'merchant_categories.csv'), 'w') as f:
            f.write('Pattern,Merchant,Category,Subcategory\n.*,Decoy,Decoy,Decoy\n')
        rec.count('budgets_run_from_a_folder_with_same_named_files')
    # ---- JSON run
    pj = run_up(root, cfg, 'json', cwd=cwd0, hashseed=k % 8)
    rec.count('cli_runs')
    if pj.returncode != 0:
        rec.violation('tally-up-fails', f'exit {pj.returncode}: {(pj.stderr or pj.stdout)[-300:]}', case)
        return
    try:
        js = B.json_from_stdout(pj.stdout)
    except Exception as e:
        rec.violation('json-output-unparsable', f'{type(e).__name__}: {e}: {pj.stdout[-200:]!r}', case)
        return
    for s in b['sources']:
        line = '%s: %d transactions' % (s['name'], len(s['exp']))
        if line not in pj.stdout:
            got = [l.strip() for l in pj.stdout.splitlines() if l.strip().startswith(s['name'] + ':')]
            rec.violation('per-source-count-differs', f'expected progress line {line!r}, output has {got} (format {s["settings"].get("format")!r}, '
                          f'settings { {k: v for k, v in s["settings"].items() if k not in ("file", "format", "name")} })', case)
            return
    if b['supplemental'] and ('orders: ' in pj.stdout and 'transactions' in [l for l in pj.stdout.splitlines() if l.strip().startswith('orders:')][0:1].__repr__()):
        rec.violation('supplemental-source-counted-as-transactions', 'the supplemental source is listed with a transaction count', case)
    # ---- HTML run
    ph = run_up(root, cfg, cwd=cwd0, hashseed=(k + 3) % 8)
    if cwd0:
        shutil.rmtree(cwd0, ignore_errors=True)
    rec.count('cli_runs')
    html = os.path.join(base, 'output', 'spending_summary.html')
    if ph.returncode != 0 or not os.path.exists(html):
        rec.violation('tally-up-html-fails', f'exit {ph.returncode}: {(ph.stderr or ph.stdout)[-300:]}', case)
        return
    try:
        data = B.html_data(html)
    except Exception as e:
        rec.violation('html-data-unreadable', f'{type(e).__name__}: {e}', case)
        return
    htx = B.html_transactions(data)
    rec.count('budgets_compared_with_model')
    rec.count('transactions_compared', len(exp))
    # ---- transactions: (source, desc, amount, month, tags) multiset; merchant/category for known ones
    got = Counter((t[0], t[4], t[5], t[6], t[7]) for t in htx)
    want = Counter((e['source'], e['desc'], round(e['amount'], 6), e['month'], e['tags']) for e in exp)
    if got != want:
        miss, extra = list((want - got).elements())[:2], list((got - want).elements())[:2]
        key = 'report-transactions-differ'
        if any(x[:2] == y[:2] and x[2] != y[2] for x in miss for y in extra):
            key += ':amount'
        elif any(x[:4] == y[:4] for x in miss for y in extra):
            key += ':tags'
        elif len(htx) != len(exp):
            key += ':count'
        rec.violation(key, f'{len(htx)} transactions in the report, {len(exp)} expected; missing {miss}; unexpected {extra}; rules={b["rules_kind"]} '
                      f'mode={b["rule_mode"]}', case)
        return
    # merchant names: a known transaction must carry its rule's merchant; an Unknown one gets a name derived from its description,
    # which may coincide with a rule merchant (the report merges them by name), so categories are judged per unambiguous name only
    names_of = defaultdict(Counter)
    for t in htx:
        names_of[(t[0], t[4], t[5], t[6])][t[1]] += 1
    want_names = defaultdict(Counter)
    for e in exp:
        if e['triple']:
            want_names[(e['source'], e['desc'], round(e['amount'], 6), e['month'])][e['triple'][0]] += 1
    for key, wn in want_names.items():
        if wn - names_of[key]:
            rec.violation('report-merchant-assignment-differs', f'transaction {key}: expected merchant(s) {dict(wn)}, report has {dict(names_of[key])}; '
                          f'rules={b["rules_kind"]} mode={b["rule_mode"]}', case)
            return
    obs_name = {}
    for t in htx:
        obs_name[(t[0], t[4], t[5], t[6])] = t[1]
    by_name = defaultdict(list)
    for e in exp:
        by_name[e['triple'][0] if e['triple'] else obs_name[(e['source'], e['desc'], round(e['amount'], 6), e['month'])]].append(e)
    for t in htx:
        es = by_name.get(t[1], [])
        kinds = {(e['triple'][1], e['triple'][2]) if e['triple'] else ('Unknown', 'Unknown') for e in es}
        if len(kinds) == 1 and (t[2], t[3]) != next(iter(kinds)):
            rec.violation('report-category-differs', f'merchant {t[1]!r}: report {t[2:4]}, expected {kinds}', case)
            return
    # ---- JSON merchants totals (grouping taken from the report's own merchant names; rows that share source, description, amount and month but were
    #      given different merchants - same charge on two days, a weekday/day rule - cannot be told apart by that key and are left to the checks above)
    name_sets = defaultdict(set)
    for t in htx:
        name_sets[(t[0], t[4], t[5], t[6])].add(t[1])
    groups = None
    if any(len(v) > 1 for v in name_sets.values()):
        rec.count('json_merchant_grouping_ambiguous_not_judged')
    else:
        name_of = {k: next(iter(v)) for k, v in name_sets.items()}
        groups = defaultdict(list)
        for e in exp:
            groups[name_of[(e['source'], e['desc'], round(e['amount'], 6), e['month'])]].append(e)
        jm = {m['name']: m for m in js['merchants']}
        if set(jm) != set(groups):
            rec.violation('json-merchant-set-differs', f'{sorted(jm)} vs {sorted(groups)}', case)
            return
        for n, es in groups.items():
            tot = sum(e['amount'] for e in es)
            if not math.isclose(jm[n]['total'], round(tot, 2), abs_tol=0.011) or jm[n]['count'] != len(es):
                rec.violation('json-merchant-total-differs', f'{n}: JSON {jm[n]["total"]}/{jm[n]["count"]} vs expected {tot}/{len(es)}', case)
                return
            rd = jm[n].get('raw_descriptions') or {}
            if Counter(rd) != Counter(e['desc'] for e in es):
                rec.violation('json-raw-descriptions-differ', f'{n}: {rd} vs {Counter(e["desc"] for e in es)}', case)
                return
    # ---- totals (exact money model over the expected transactions)
    lst = [{'amount': e['raw_amount'], 'tags': list(e['tags']), 'merchant': 'm', 'category': 'c', 'subcategory': 's', 'date': e['date']} for e in exp]
    bk = c06.model(lst)[0]
    rec.count('total_figure_checks')
    tol = 1e-6 * (1 + sum(abs(e['raw_amount']) for e in exp))
    for name, hk in (('income', 'incomeTotal'), ('spending', 'spendingTotal'), ('credits', 'creditsTotal'), ('transfer_in', 'transfersIn'),
                     ('transfer_out', 'transfersOut'), ('investment', 'investmentTotal')):
        if abs(data[hk] - float(bk[name])) > tol:
            rec.violation('report-total-differs:' + name, f'{hk}={data[hk]} vs money model {float(bk[name])}', case)
            return
    if abs(data['cashFlow'] - float(bk['income'] - bk['spending'] + bk['credits'])) > tol:
        rec.violation('report-total-differs:cash_flow', f'cashFlow={data["cashFlow"]}', case)
    bm = defaultdict(float)
    for e in exp:
        bm[e['month']] += e['amount']
    if {k: round(v, 2) for k, v in bm.items()} != {k: v['total'] for k, v in js['by_month'].items()}:
        rec.violation('json-by-month-differs', f'{js["by_month"]} vs { {k: round(v, 2) for k, v in bm.items()} }', case)
    # ---- views
    if b['views'] and groups is None:
        rec.count('views_not_judged_grouping_ambiguous')
    if b['views'] and groups is not None:
        gl, views = b['views']
        secs = {s['title']: {m['displayName'] for m in s['merchants'].values()} for s in data.get('sections', {}).values()}
        mts = {}
        for n, es in groups.items():
            first_cat = next((t[2:4] for t in htx if t[1] == n), ('', ''))
            mts[n] = [{'date': e['date'], 'amount': e['raw_amount'], 'tags': sorted({tg for x in es for tg in x['tags']}), 'category': first_cat[0],
                       'subcategory': first_cat[1], 'merchant': n} for e in es]
        excluded = {n for n, ts in mts.items() if {x.lower() for x in ts[0]['tags']} & {'income', 'transfer', 'investment'}}
        inc = [t for n, ts in mts.items() if n not in excluded for t in ts]
        period = {'month': len({(t['date'].year, t['date'].month) for t in inc}) or 1, 'year': len({t['date'].year for t in inc}) or 1}
        months_ex = {(t['date'].year, t['date'].month) for n in excluded for t in mts[n]}
        period_ok = months_ex <= {(t['date'].year, t['date'].month) for t in inc}
        for v in views:
            uses_period = 'period(' in v['filter'] or 'lim' in v['filter']
            for n, ts in mts.items():
                if n in excluded:
                    exp_in = False
                else:
                    if (uses_period and not period_ok) or '"week"' in v['filter'].lower():
                        continue
                    try:
                        # merchant-level tags: the union (what the views model is given)
                        exp_in = c10.ref_membership(gl, v, ts, period, 'mon')
                    except c10.Near:
                        continue
                rec.count('view_membership_checks')
                if exp_in != (n in secs.get(v['name'], set())):
                    rec.violation('report-view-membership-differs', f'view {v["name"]} ({v["filter"]!r}): merchant {n} listed={n in secs.get(v["name"], set())}, '
                                  f'views model says {exp_in}', case)
                    return
    # ---- the same views as `tally explain --view V [--category C]` lists them: the members `tally up` put into V (narrowed to C), judged over the WHOLE budget
    if b['views'] and rnd.random() < .7:
        secs = {s_['title']: {m['displayName'] for m in s_['merchants'].values()} for s_ in data.get('sections', {}).values()}
        jm = {m['name']: m for m in js['merchants']}
        per = [x for x in b['views'][1] if 'period(' in x['filter'] or 'lim' in x['filter']]      # filters that depend on the length of the WHOLE analysis period
        v = rnd.choice(per) if per and rnd.random() < .7 else rnd.choice(b['views'][1])
        cats = sorted({m['category'] for m in js['merchants'] if m['category']})
        cat = rnd.choice(cats) if cats and rnd.random() < .7 else None
        pe = B.tally(root, 'explain', '--view', v['name'], *(['--category', cat] if cat else []), cfg, '--format', 'json')
        rec.count('cli_runs')
        try:
            ej = json.loads(pe.stdout[pe.stdout.index('{'):])
            listed = {m['name'] for m in ej['merchants']}
        except Exception:
            listed = None
        want = {n for n in secs.get(v['name'], set()) if cat is None or (jm.get(n) or {}).get('category', '').lower() == cat.lower()}
        rec.count('explain_view_listing_checks')
        if listed is None:
            if want:
                rec.violation('explain-view-listing-fails', f'explain --view {v["name"]} --category {cat}: exit {pe.returncode} {pe.stderr[-200:]!r} {pe.stdout[:100]!r}', case)
        elif listed != want:
            rec.violation('explain-view-listing-differs-from-up', f'explain --view {v["name"]}' + (f' --category {cat}' if cat else '') + f' lists {sorted(listed)}; tally up puts '
                          f'{sorted(want)} into that view' + (' (of that category)' if cat else '') + f'; filter {v["filter"]!r}', case)
    if len(b['sources']) >= 2 or b['supplemental'] or b['views']:
        rec.interesting(core.digest(case))
    # ---- one-setting flip on one source
    if len(b['sources']) >= 2 and not same_names:
        i = rnd.randrange(len(b['sources']))
        s = b['sources'][i]['settings']
        flip = rnd.choice(['sign', 'header', 'decimal', 'delimiter', 'negate'])
        orig = dict(s)
        if flip == 'sign':
            s['format'] = s['format'].replace('{amount}', '{-amount}') if '{amount}' in s['format'] else s['format'].replace('{-amount}', '{amount}').replace('{+amount}', '{amount}')
        elif flip == 'header':
            s['has_header'] = not s.get('has_header', True)
        elif flip == 'decimal':
            s['decimal_separator'] = '.' if s.get('decimal_separator') == ',' else ','
        elif flip == 'delimiter':
            s['delimiter'] = ';' if s.get('delimiter') != ';' else '|'
        else:
            s['negate_amount'] = not s.get('negate_amount', False)
        B.write_budget(b, root)
        pf = run_up(root, cfg, quiet=True)
        rec.count('cli_runs')
        b['sources'][i]['settings'].clear()
        b['sources'][i]['settings'].update(orig)
        if pf.returncode == 0 and os.path.exists(html):
            try:
                h2 = per_source(B.html_transactions(B.html_data(html)))
                h1 = per_source(htx)
                rec.count('setting_flip_checks')
                for j, sj in enumerate(b['sources']):
                    if j != i and h1.get(sj['name']) != h2.get(sj['name']):
                        # classification of another source may legitimately depend on nothing in source i (supplemental sources are never flipped)
                        rec.violation('setting-of-one-source-affects-another:' + flip, f'flipping {flip} of {b["sources"][i]["name"]} changed the transactions of {sj["name"]}: '
                                      f'{list((h1[sj["name"]] - h2.get(sj["name"], Counter())).elements())[:2]} -> {list((h2.get(sj["name"], Counter()) - h1[sj["name"]]).elements())[:2]}', case)
                        break
            except Exception:
                pass
        B.write_budget(b, root)
    # ---- source fault
    if len(b['sources']) >= 2 and not same_names and sum(len(s['exp']) for s in b['sources']) > 0:
        i = rnd.randrange(len(b['sources']))
        others = [s for j, s in enumerate(b['sources']) if j != i]
        if sum(len(s['exp']) for s in others) == 0:
            return
        path = os.path.join(base, b['sources'][i]['settings']['file'])
        fault = rnd.choice(['missing', 'missing', 'directory', 'invalid-utf8', 'bad-regex-delimiter', 'oversized-field'])
        if fault == 'bad-regex-delimiter':
            # a delimiter pattern that does not compile: the failure is of another exception type (re.error) than an unreadable file
            saved = dict(b['sources'][i]['settings'])
            b['sources'][i]['settings']['delimiter'] = rnd.choice(['regex:(', 'regex:[a-', 'regex:(?P<x>\\d+)(?P<x>\\d+)'])
            B.write_budget(b, root)
            b['sources'][i]['settings'].clear()
            b['sources'][i]['settings'].update(saved)
        else:
            os.unlink(path)
        if fault == 'directory':
            os.mkdir(path)
        elif fault == 'invalid-utf8':
            with open(path, 'wb') as f:
                f.write(b'Date,Desc,Amt\n\xff\xfe\xfa broken \x80\x81\n')
        elif fault == 'oversized-field':
            # an opening quote that is never closed followed by more text than the csv module accepts in one field (csv.Error)
            with open(path, 'w', encoding='utf-8') as f:
                f.write('Date,Desc,Amt\n2025-01-05,"never closed ' + 'x' * 140000 + '\n2025-01-06,OK,5.00\n')
        quiet = rnd.random() < .5
        decoy = None
        if fault == 'missing' and rnd.random() < .6:
            # the command is started from ANOTHER folder that happens to hold a file under the same relative name (the user stands in last
            # year's budget): a source that is missing from THIS budget is missing, it is not looked up relative to where the user stands
            decoy = root + '-decoy'
            rel = b['sources'][i]['settings']['file']
            os.makedirs(os.path.dirname(os.path.join(decoy, rel)), exist_ok=True)
            with open(os.path.join(decoy, rel), 'w', encoding='utf-8') as f:
                f.write(b['sources'][i]['text'])
            rec.count('missing_source_with_decoy_in_cwd')
        pq = run_up(root, cfg, quiet=quiet, cwd=decoy)
        if decoy:
            shutil.rmtree(decoy, ignore_errors=True)
        rec.count('cli_runs')
        rec.count('source_fault_checks')
        rec.count('source_fault_quiet' if quiet else 'source_fault_verbose')
        name = b['sources'][i]['name']
        out = pq.stdout + pq.stderr
        if pq.returncode != 0:
            rec.violation('source-fault-aborts-run:' + fault, f'{fault} source {name}: exit {pq.returncode}: {out[-300:]}', case)
        else:
            mentioned = [l for l in out.splitlines() if name in l and ('not found' in l.lower() or 'error' in l.lower() or ': 0 transactions' in l)]
            if not mentioned and not quiet:
                rec.violation('source-fault-not-reported:' + fault, f'{fault} source {name} is not mentioned in the output', case)
            try:
                h3 = per_source(B.html_transactions(B.html_data(html)))
                h1 = per_source(htx)
                for sj in others:
                    if h1.get(sj['name']) != h3.get(sj['name']):
                        rec.violation('source-fault-disturbs-other-source:' + fault, f'{fault} {name}: transactions of {sj["name"]} changed', case)
                        break
                if h3.get(name):
                    rec.violation('faulty-source-still-contributes:' + fault, f'{name}: {sum(h3[name].values())} transactions', case)
            except Exception as e:
                rec.violation('source-fault-report-unreadable:' + fault, f'{type(e).__name__}: {e}', case)
            # ... and the machine-readable formats under --quiet: what is on stdout IS the document (a script pipes it into a JSON parser), whatever
            # there is to say about the source that could not be read
            fmt = rnd.choice(['json', 'markdown'])
            pf2 = B.tally(root, 'up', cfg, '--format', fmt, '-q')
            rec.count('cli_runs')
            rec.count('quiet_document_checks')
            if pf2.returncode == 0:
                try:
                    if fmt == 'json':
                        json.loads(pf2.stdout)
                    elif not pf2.stdout.lstrip().startswith('#'):
                        raise ValueError('does not start with a heading')
                except ValueError as e:
                    rec.violation('quiet-output-is-not-the-document:' + fmt, f'{fault} source {name}: `up --format {fmt} -q` prints {pf2.stdout[:120]!r} ({e})', case)
    shutil.rmtree(root, ignore_errors=True)


def judge_explain_view_period(rec, rnd, tmp, k):
    """Views are grouped over the whole budget whichever way the listing is asked for: a view whose filter depends on period() lists, under
    `explain --view V --category C` / `--tags T`, exactly the members `tally up` gives V that are of category C / carry tag T."""
    root = os.path.join(tmp, 'pv%d' % k)
    os.makedirs(os.path.join(root, 'config'))
    os.makedirs(os.path.join(root, 'data'))
    nmonths = rnd.choice([8, 10, 12])
    short = rnd.randint(2, 4)                 # the merchants of category Seasonal are active in `short` months only
    frac = rnd.choice([0.5, 0.6, 0.75])
    rows = []
    for m in range(1, nmonths + 1):
        rows.append('2025-%02d-05,CITY POWER,80.00' % m)
        rows.append('2025-%02d-09,CORNER CAFE,%d.50' % (m, 4 + m))
        if m <= short:
            rows.append('2025-%02d-11,SKI PASS,60.00' % m)
            rows.append('2025-%02d-12,SNOW CAFE,9.00' % m)
    rnd.shuffle(rows)
    with open(os.path.join(root, 'data', 'card.csv'), 'w') as f:
        f.write('Date,Description,Amount\n' + '\n'.join(rows) + '\n')
    with open(os.path.join(root, 'config', 'settings.yaml'), 'w') as f:
        f.write('year: 2025\nmerchants_file: config/merchants.rules\nviews_file: config/views.rules\ndata_sources:\n  - name: Card\n    file: data/card.csv\n'
                '    format: "{date:%Y-%m-%d},{description},{amount}"\n')
    with open(os.path.join(root, 'config', 'merchants.rules'), 'w') as f:
        f.write('[City Power]\nmatch: contains("CITY POWER")\ncategory: Bills\nsubcategory: Power\n\n[Corner Cafe]\nmatch: contains("CORNER CAFE")\ncategory: Food\nsubcategory: Cafe\n'
                'tags: treat\n\n[Ski Pass]\nmatch: contains("SKI PASS")\ncategory: Seasonal\nsubcategory: Sport\ntags: winter\n\n[Snow Cafe]\nmatch: contains("SNOW CAFE")\n'
                'category: Seasonal\nsubcategory: Cafe\ntags: winter, treat\n')
    vf = rnd.choice(['months >= period("month") * %s' % frac, 'months >= need', 'months / period("month") >= %s' % frac])
    vname = rnd.choice(['views.rules', 'views.rules', 'views-2025.rules', 'my views.rules'])
    with open(os.path.join(root, 'config', vname), 'w') as f:
        f.write('need = period("month") * %s\n\n[Regular]\nfilter: %s\n\n[Everything]\nfilter: true\n' % (frac, vf))
    if vname != 'views.rules':
        # the settings name THIS file; a views.rules left over from `tally init` lies beside it and is not the one in use
        sp_ = os.path.join(root, 'config', 'settings.yaml')
        txt_ = open(sp_).read().replace('views_file: config/views.rules', 'views_file: "config/%s"' % vname)
        with open(sp_, 'w') as f:
            f.write(txt_)
        if rnd.random() < .7:
            with open(os.path.join(root, 'config', 'views.rules'), 'w') as f:
                f.write('[Regular]\nfilter: total > 1000000\n\n[Other]\nfilter: true\n')
        rec.count('explain_view_budgets_with_another_views_file')
    cfg = os.path.join(root, 'config')
    case = {'kind': 'explain-view-period', 'months': nmonths, 'short': short, 'filter': vf}
    rec.case()
    try:
        pu = B.tally(root, 'up', cfg, '--format', 'json', '-v', '-q')
        html = os.path.join(root, 'output', 'spending_summary.html')
        B.tally(root, 'up', cfg, '-q')
        data = B.html_data(html)
        regular = {m['displayName'] for s_ in data.get('sections', {}).values() if s_['title'] == 'Regular' for m in s_['merchants'].values()}
        rec.count('cli_runs', 2)
        want_all = {'City Power', 'Corner Cafe'} | ({'Ski Pass', 'Snow Cafe'} if short >= nmonths * frac else set())
        if regular != want_all:
            rec.violation('report-view-membership-differs', f'{nmonths} months, Seasonal merchants active in {short}: view Regular ({vf!r}) holds {sorted(regular)}, expected {sorted(want_all)}', case)
            return
        cat_of = {'City Power': 'Bills', 'Corner Cafe': 'Food', 'Ski Pass': 'Seasonal', 'Snow Cafe': 'Seasonal'}
        tag_of = {'City Power': set(), 'Corner Cafe': {'treat'}, 'Ski Pass': {'winter'}, 'Snow Cafe': {'winter', 'treat'}}
        for extra, want in ([(['--category', c], {n for n in regular if cat_of[n].lower() == c.lower()}) for c in ('Seasonal', 'Food', 'seasonal')] +
                            [(['--tags', tg], {n for n in regular if tg in tag_of[n]}) for tg in ('winter', 'treat')] + [([], regular)]):
            pe = B.tally(root, 'explain', '--view', 'Regular', *extra, cfg, '--format', 'json')
            rec.count('cli_runs')
            rec.count('explain_view_listing_checks')
            if 'No merchants found' in pe.stdout or '"merchants": []' in pe.stdout.replace('\n', '').replace('  ', ''):
                listed = set()
            else:
                try:
                    listed = {m['name'] for m in json.loads(pe.stdout[pe.stdout.index('{'):])['merchants']}
                except Exception:
                    rec.violation('explain-view-listing-fails', f'explain --view Regular {extra}: exit {pe.returncode} {pe.stderr[-200:]!r} {pe.stdout[:100]!r}', case)
                    return
            if listed != want:
                rec.violation('explain-view-listing-differs-from-up', f'{nmonths} months, Seasonal merchants active in {short}; view Regular: {vf!r}: explain --view Regular '
                              f'{" ".join(extra)} lists {sorted(listed)}; tally up puts {sorted(want)} there', case)
                return
    finally:
        shutil.rmtree(root, ignore_errors=True)


def judge_transforms_without_rules(rec, tmp):
    """A rules file that holds field transforms (and variables) but no [rule] yet: the transforms are still applied to every row - the report is the one the
    same file gives once a rule that matches nothing is added; likewise for unpadded ISO dates, which `%Y-%m-%d` reads like padded ones."""
    rows = [('2025-01-03', 'APLPAY STARBUCKS', 4.5), ('2025-01-09', 'STARBUCKS', 4.5), ('2025-2-7', 'APLPAY BLUE BOTTLE', 7.0), ('2025-03-9', 'BLUE BOTTLE', 7.0),
            ('2025-11-2', 'SQ *BLUE BOTTLE', 7.0)]
    transforms = 'field.description = regex_replace(field.description, "^(APLPAY|SQ \\*)\\s*", "")\nis_small = amount < 5\n'
    outs = {}
    for name, extra in (('transforms-only', ''), ('plus-unmatched-rule', '\n[Never]\nmatch: contains("zz-never-zz")\ncategory: Never\n')):
        root = os.path.join(tmp, 'tr-' + name)
        os.makedirs(os.path.join(root, 'config'))
        os.makedirs(os.path.join(root, 'data'))
        with open(os.path.join(root, 'config', 'settings.yaml'), 'w') as f:
            f.write('year: 2025\nmerchants_file: config/merchants.rules\ndata_sources:\n  - name: Card\n    file: data/card.csv\n    format: "{date:%Y-%m-%d},{description},{amount}"\n')
        with open(os.path.join(root, 'config', 'merchants.rules'), 'w') as f:
            f.write(transforms + extra)
        with open(os.path.join(root, 'data', 'card.csv'), 'w') as f:
            f.write('Date,Description,Amount\n' + ''.join('%s,%s,%.2f\n' % r for r in rows))
        p = run_up(root, os.path.join(root, 'config'), 'json')
        rec.count('cli_runs')
        try:
            js = B.json_from_stdout(p.stdout)
            outs[name] = (sorted((m['name'], round(m['total'], 2), m['count']) for m in js['merchants']), sorted(js.get('by_month', {})))
        except Exception:
            outs[name] = 'no report (exit %d): %s' % (p.returncode, (p.stderr or p.stdout)[-150:])
        shutil.rmtree(root, ignore_errors=True)
    rec.case()
    rec.count('transforms_without_rules_checks')
    case = {'kind': 'transforms-without-rules'}
    a, b2 = outs['transforms-only'], outs['plus-unmatched-rule']
    if a != b2:
        rec.violation('transforms-not-applied-without-rules', f'rules file with transforms only: {a}; with an additional rule that matches nothing: {b2}', case)
    elif isinstance(a, tuple) and (sum(c for _, _, c in a[0]) != len(rows) or a[1] != ['2025-01', '2025-02', '2025-03', '2025-11']):
        rec.violation('report-transactions-differ:rows-lost', f'{len(rows)} well-formed rows (dates 2025-2-7, 2025-03-9, 2025-11-2 among them, format %Y-%m-%d): the report has '
                      f'{a[0]} in months {a[1]}', case)


def judge_one_file_two_sources(rec, tmp):
    """A bank export with separate Debit and Credit columns is listed as TWO sources that read the same file with different format strings (the documented way
    to read such files): every source is read, so debits and credits both arrive - also when the second entry spells the path differently."""
    rows = [('2025-01-03', 'RENT', '1500.00', ''), ('2025-01-05', 'PAYROLL ACME', '', '3000.00'), ('2025-02-03', 'RENT', '1500.00', ''), ('2025-02-07', 'REFUND SHOP', '', '25.50'),
            ('2025-02-09', 'GROCER', '92.15', '')]
    for spell in ('data/bank.csv', './data/bank.csv', 'data/../data/bank.csv'):
        root = os.path.join(tmp, 'two-src')
        shutil.rmtree(root, ignore_errors=True)
        os.makedirs(os.path.join(root, 'config'))
        os.makedirs(os.path.join(root, 'data'))
        with open(os.path.join(root, 'config', 'settings.yaml'), 'w') as f:
            f.write('year: 2025\nmerchants_file: config/merchants.rules\ndata_sources:\n'
                    '  - name: Bank debits\n    file: data/bank.csv\n    format: "{date:%Y-%m-%d},{description},{amount},{_}"\n'
                    '  - name: Bank credits\n    file: ' + spell + '\n    format: "{date:%Y-%m-%d},{description},{_},{-amount}"\n')
        with open(os.path.join(root, 'config', 'merchants.rules'), 'w') as f:
            f.write('[Rent]\nmatch: contains("RENT")\ncategory: Housing\n\n[Pay]\nmatch: contains("PAYROLL")\ncategory: Income\ntags: income\n')
        with open(os.path.join(root, 'data', 'bank.csv'), 'w') as f:
            f.write('Date,Description,Debit,Credit\n' + ''.join(','.join(r) + '\n' for r in rows))
        p = run_up(root, os.path.join(root, 'config'), 'json')
        rec.count('cli_runs')
        rec.case()
        rec.count('one_file_read_by_two_sources_checks')
        case = {'kind': 'one-file-two-sources'}
        try:
            js = B.json_from_stdout(p.stdout)
            got = sorted((m['name'], m['count'], round(m['total'], 2)) for m in js['merchants'])
        except Exception:
            got = 'no report (exit %d): %s' % (p.returncode, (p.stderr or p.stdout)[-150:])
        want_n = len(rows)
        if not isinstance(got, list) or sum(c for _, c, _ in got) != want_n or not any(t < 0 for _, _, t in got):
            rec.violation('report-transactions-differ:source-not-read', f'one export read by two sources (debit column / credit column, second path spelled {spell!r}): '
                          f'{want_n} transactions expected, 2 of them credits; the report has {got}', case)
            shutil.rmtree(root, ignore_errors=True)
            return
        shutil.rmtree(root, ignore_errors=True)


def judge_named_rules_file_missing(rec, tmp):
    """`merchants_file` names a file that is not there (renamed, a typo, last year's settings): tally says so and classifies with NO rules - it does not quietly
    take a rules file the settings never named that happens to lie in the config folder."""
    outs = {}
    for leftover in ('none', 'merchants.rules', 'merchant_categories.csv'):
        root = os.path.join(tmp, 'named-missing')
        shutil.rmtree(root, ignore_errors=True)
        os.makedirs(os.path.join(root, 'config'))
        os.makedirs(os.path.join(root, 'data'))
        with open(os.path.join(root, 'config', 'settings.yaml'), 'w') as f:
            f.write('year: 2025\nmerchants_file: config/rules-2024.rules\ndata_sources:\n  - name: Card\n    file: data/card.csv\n    format: "{date:%Y-%m-%d},{description},{amount}"\n')
        if leftover == 'merchants.rules':
            with open(os.path.join(root, 'config', leftover), 'w') as f:
                f.write('[Pay]\nmatch: contains("ACME")\ncategory: Income\ntags: income\n')
        elif leftover != 'none':
            with open(os.path.join(root, 'config', leftover), 'w') as f:
                f.write('Pattern,Merchant,Category,Subcategory,Tags\nACME,Pay,Income,Salary,income\n')
        with open(os.path.join(root, 'data', 'card.csv'), 'w') as f:
            f.write('Date,Description,Amount\n2025-01-03,ACME PAYROLL,-120.00\n2025-01-05,GROCER,31.98\n')
        p = run_up(root, os.path.join(root, 'config'), 'json')
        rec.count('cli_runs')
        try:
            js = B.json_from_stdout(p.stdout)
            outs[leftover] = (sorted((m['name'], m['category']) for m in js['merchants']), js['summary'].get('income_total'))
        except Exception:
            outs[leftover] = 'no report (exit %d): %s' % (p.returncode, (p.stderr or p.stdout)[-150:])
        shutil.rmtree(root, ignore_errors=True)
    rec.case()
    rec.count('named_rules_file_missing_checks')
    if outs['merchants.rules'] != outs['none'] or outs['merchant_categories.csv'] != outs['none']:
        rec.violation('unnamed-rules-file-used', f'merchants_file: config/rules-2024.rules does not exist. Report with an empty config folder: {outs["none"]}; with a left-over '
                      f'config/merchants.rules: {outs["merchants.rules"]}; with a left-over legacy CSV: {outs["merchant_categories.csv"]}', {'kind': 'named-rules-missing'})


def judge_rerun_same_output(rec, rnd, tmp, k):
    """`tally up` run again into the same output folder after a statement or the rules changed: what is on disk afterwards is the report of the
    budget as it is NOW (page and, with --no-embedded-html, the files beside it), also when the new data has the same size as the old."""
    root = os.path.join(tmp, 'rr%d' % k)
    os.makedirs(os.path.join(root, 'config'))
    os.makedirs(os.path.join(root, 'data'))
    a1, a2 = rnd.choice([('12.50', '15.20'), ('40.00', '99.99'), ('7.25', '3.10')])
    c1, c2 = rnd.choice([('Food', 'Fuel'), ('Bills', 'Books')])

    def write(x, y, ca, cb):
        with open(os.path.join(root, 'data', 'card.csv'), 'w') as f:
            f.write('Date,Description,Amount\n2025-01-05,CORNER CAFE,%s\n2025-02-09,BLUE STATION,%s\n2025-02-11,CORNER CAFE,5.00\n' % (x, y))
        with open(os.path.join(root, 'config', 'merchants.rules'), 'w') as f:
            f.write('[Corner Cafe]\nmatch: contains("CORNER CAFE")\ncategory: %s\n\n[Blue Station]\nmatch: contains("BLUE STATION")\ncategory: %s\n' % (ca, cb))
    with open(os.path.join(root, 'config', 'settings.yaml'), 'w') as f:
        f.write('year: 2025\nmerchants_file: config/merchants.rules\ndata_sources:\n  - name: Card\n    file: data/card.csv\n    format: "{date:%Y-%m-%d},{description},{amount}"\n')
    cfg = os.path.join(root, 'config')
    mode = rnd.choice(['--no-embedded-html', '--no-embedded-html', None])
    what = rnd.choice(['amounts', 'categories'])
    case = {'kind': 'rerun-same-output', 'mode': mode, 'changed': what}
    rec.case()

    def observed():
        out = os.path.join(root, 'output')
        if mode:
            body = open(os.path.join(out, 'spending_data.js'), encoding='utf-8').read().strip()
            data = json.loads(body[len('window.spendingData ='):].rstrip(';'))
        else:
            data = B.html_data(os.path.join(out, 'spending_summary.html'))
        return sorted((t[1], t[2], t[5]) for t in B.html_transactions(data))
    try:
        write(a1, a2, c1, c2)
        p1 = B.tally(root, 'up', cfg, '-q', *([mode] if mode else []))
        first = observed()
        if what == 'amounts':
            write(a2, a1, c1, c2)
            want = sorted([('Corner Cafe', c1, float(a2)), ('Blue Station', c2, float(a1)), ('Corner Cafe', c1, 5.0)])
        else:
            write(a1, a2, c2, c1)
            want = sorted([('Corner Cafe', c2, float(a1)), ('Blue Station', c1, float(a2)), ('Corner Cafe', c2, 5.0)])
        p2 = B.tally(root, 'up', cfg, '-q', *([mode] if mode else []))
        rec.count('cli_runs', 2)
        rec.count('reruns_into_the_same_output_folder')
        second = observed()
        if second != want:
            rec.violation('stale-report-after-rerun' + (':external-files' if mode else ''), f'{what} exchanged between two runs of tally up {mode or ""}: the report on disk holds '
                          f'{second}, the budget now is {want} (first run: {first})', case)
    except Exception as e:
        rec.violation('rerun-same-output-fails', f'{type(e).__name__}: {e}', case)
    finally:
        shutil.rmtree(root, ignore_errors=True)


def run(rec, shard, nshards, t):
    core.import_tally()
    rnd = core.rng_for('C11', shard)
    tmp = tempfile.mkdtemp(prefix='vt-c11-')
    try:
        for k in range(max(1, (64 if t == 'quick' else 2500) // nshards)):
            judge(rec, rnd, tmp, k)
        for k in range(max(1, (8 if t == 'quick' else 160) // nshards)):
            judge_explain_view_period(rec, rnd, tmp, k)
            judge_rerun_same_output(rec, rnd, tmp, k)
        if shard == 0:
            judge_transforms_without_rules(rec, tmp)
            judge_one_file_two_sources(rec, tmp)
            judge_named_rules_file_missing(rec, tmp)
            b = B.gen_budget(rnd)
            rec.sample({'settings': B.settings_dict(b), 'first_file': b['sources'][0]['text'][:300]})
    finally:
        shutil.rmtree(tmp, ignore_errors=True)


def replay(rec, case):
    core.import_tally()
    rnd = core.rng_for('C11', 'replay')
    tmp = tempfile.mkdtemp(prefix='vt-c11-')
    try:
        if case.get('kind') == 'named-rules-missing':
            judge_named_rules_file_missing(rec, tmp)
            return
        if case.get('kind') == 'one-file-two-sources':
            judge_one_file_two_sources(rec, tmp)
            return
        if case.get('kind') == 'transforms-without-rules':
            judge_transforms_without_rules(rec, tmp)
            return
        if case.get('kind') == 'rerun-same-output':
            for k in range(12):
                judge_rerun_same_output(rec, rnd, tmp, k)
            return
        if case.get('kind') == 'explain-view-period':
            for k in range(12):
                judge_explain_view_period(rec, rnd, tmp, k)
            return
        for k in range(40):
            judge(rec, rnd, tmp, k)
    finally:
        shutil.rmtree(tmp, ignore_errors=True)

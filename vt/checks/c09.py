"""C09 - most_specific mode picks the most specific matching rule, whatever the order.

Reference ranking (priority, #pattern-function calls, #distinct constraint kinds, total pattern text length) computed
from the AST; matching set from the reference interpreter; compared with MerchantEngine(match_mode='most_specific')
and with the config path (get_all_rules(match_mode) -> normalize_merchant) under ALL permutations of the rules
(n <= 4 quick, n <= 5 thorough; sampled above).  Staged dominance pairs make exactly one ranking level decide.
"""
import itertools
import os
import shutil
import tempfile

from vt import core, rules as R, matchobs as O, world

SPEC = {
    'level': 'exploration',
    'shards': {'quick': 8, 'thorough': 16},
    'rule': ('rule sets of 2-6 rules whose conditions are conjunctions of 1-3 pattern functions (contains/startswith/regex/normalized/'
             'anyof over keyword-free literals) and 0-3 constraint kinds (amount, month, year, day, date, source, field.*), with explicit '
             'priorities, exact ties, rules with/without subcategory and tag-only rules; every permutation for n<=4 (quick) / n<=5 '
             '(thorough), 24-60 sampled permutations above; x 15 pool transactions. Non-trivial = (rule set, txn) with >=2 matching '
             'categorizing rules of different rank or an exact tie; distinct by digest'),
    'exhaustive': {'quick': True, 'thorough': True},
    'required_counters': ['ranking_checks', 'permutation_orders', 'unique_top_invariance_checks', 'tie_checks', 'dominance_pairs',
                          'config_path_checks', 'rule_mode_fallback_checks'],
    'assumptions': ['pattern literals contain no constraint keyword, quote or backslash and calls are written canonically, so the AST '
                    'reading and a textual reading of "kinds of constraints" / "pattern text length" coincide',
                    'weekday is not used (the statement lists amount, date, source or field constraints)'],
}

WORDS = ['NETFLIX', 'UBER', 'EATS', 'STAR', 'BUCKS', 'AMZN', 'MKTP', 'COSTCO', 'WHOLE', 'FOODS', 'GAS', '42', 'SQ', 'NET', 'COM', 'TRIP', 'A']
CONSTRAINTS = {
    'amount': ['amount > 0', 'amount >= -1000', 'amount < 1e9', 'txn.amount != 7.77'],
    'month': ['month >= 1', 'month <= 12', 'month != 13'],
    'year': ['year > 1900', 'year != 1'],
    'day': ['day >= 0', 'day <= 31'],
    'date': ['date == txn.date', 'date >= txn.date'],
    'source': ['source != nosrc', 'source == source'],
    'field': ['field.memo != nofield', 'field.code == field.code'],
}
PREAMBLE = [('nosrc', '"no-such-src"'), ('nofield', '"no-such-field-value"')]


def cond(rnd, npat=None, kinds=None, words=None):
    npat = rnd.randint(1, 3) if npat is None else npat
    kinds = rnd.sample(sorted(CONSTRAINTS), rnd.choice([0, 0, 1, 1, 2, 3])) if kinds is None else kinds
    parts = []
    for i in range(npat):
        w = rnd.choice(WORDS) if words is None else words[i % len(words)]
        fn = rnd.choice(['contains', 'contains', 'startswith', 'regex', 'normalized', 'anyof'])
        if fn == 'anyof':
            parts.append('anyof("%s", "%s")' % (w, rnd.choice(WORDS)))
        elif fn == 'startswith':
            parts.append('contains("%s")' % w if rnd.random() < .7 else 'startswith("%s")' % w)
        else:
            parts.append('%s("%s")' % (fn, w))
    for k in kinds:
        parts.append(rnd.choice(CONSTRAINTS[k]))
    rnd.shuffle(parts)
    return ' and '.join(parts)


def gen_set(rnd, n):
    rules = []
    for i in range(n):
        cat, sub = rnd.choice(R.CATS)
        r = R.Rule(name='S%d' % i, match=cond(rnd), category='Cat%d' % i, subcategory=('Sub%d' % i) if rnd.random() < .55 else '')
        if rnd.random() < .25:
            r.priority = rnd.choice([0, 49, 50, 51, 90, -10, -60])
        if rnd.random() < .3:
            r.tags = [rnd.choice(['a', 'B', 'c d'])]
        if rnd.random() < .12:
            r.category, r.subcategory, r.tags = '', '', ['tagonly%d' % i]
        rules.append(r)
    if n >= 2 and rnd.random() < .35:          # an exact tie: same rank, different outcome
        j, k = rnd.sample(range(n), 2)
        rules[k].match, rules[k].priority = rules[j].match, rules[j].priority
    if n >= 2 and rnd.random() < .25:          # the SAME match text under two priorities (a general rule and its "priority: 90" override)
        j, k = sorted(rnd.sample(range(n), 2))
        rules[k].match = rules[j].match
        rules[j].priority, rules[k].priority = rnd.choice([(None, 90), (10, None), (None, 51), (49, 50)])
    if n >= 2 and rnd.random() < .2:           # same rank through different text of the same length
        j, k = rnd.sample(range(n), 2)
        w1, w2 = rnd.choice(['UBER', 'EATS', 'STAR']), rnd.choice(['AMZN', 'MKTP', 'STAR'])
        rules[j].match, rules[k].match = 'contains("%s")' % w1, 'contains("%s")' % w2
        rules[j].priority = rules[k].priority = None
    rf = R.RuleFile(variables=list(PREAMBLE), rules=rules)
    if n >= 2 and rnd.random() < .3:
        # a dynamic tag built from the rule's own let: binding, on a rule that is not the last one of the file
        j = rnd.randrange(n - 1)
        rules[j].lets = list(rules[j].lets) + [('ref', rnd.choice(['"tag-%d"' % j, 'lowercase(substring(description, 0, 4))']))]
        rules[j].tags = list(rules[j].tags) + ['{ref}']
        if rnd.random() < .5:
            rules[-1].lets = list(rules[-1].lets) + [('ref', '"last-rule"')]
    if n >= 2 and rnd.random() < .2:
        # a top-level variable that is a bare generator over supplemental rows, read by several rules: each of them sees all of it, whatever the order
        rf.variables = list(rf.variables) + [('matched', rnd.choice(['(r for r in rows if r.qty >= 0)', '(r.amt for r in orders)']))]
        for r in rnd.sample(rules, rnd.randint(2, n)):
            r.match = '(%s) and %s' % (r.match, rnd.choice(['len([m for m in matched]) >= 1', 'sum(1 for m in matched) > 0', 'any(matched)']))
    if n >= 2 and rnd.random() < .15:
        # only DESCRIPTION patterns in the match texts; the amount condition sits in a top-level variable (same description, different amounts!)
        w = rnd.choice(['UBER', 'NETFLIX', 'COSTCO', 'STAR'])
        rf.variables = list(rf.variables) + [('is_bulk', 'amount > %s' % rnd.choice(['50', '100', '150']))]
        for i, r in enumerate(rules):
            r.match, r.lets, r.priority = cond(rnd, kinds=[], words=[w, w[:2], w[:3]]), [], None
        rules[0].match = 'contains("%s") and contains("%s") and is_bulk' % (w, w[:2])
        rules[-1].match = 'contains("%s")' % w[:3]
    if n >= 2 and rnd.random() < .25:
        # a rule re-binds a GLOBAL variable with let: - the new value is that rule's alone, whatever the order of the rules
        rf.variables = list(rf.variables) + [('lim', rnd.choice(['500', '99.99', '1e9']))]
        j, k = rnd.sample(range(n), 2)
        w = rnd.choice(WORDS)
        rules[j].lets = [('lim', rnd.choice(['-1e9', '10', '0.5']))]
        rules[j].match = 'contains("%s") and amount > lim' % w
        rules[k].match = 'contains("%s") and amount > lim and month >= 0' % w
        rules[j].priority = rules[k].priority = None
    if n >= 2 and rnd.random() < .15:
        # two rules whose conditions differ only in the number of blanks INSIDE a quoted pattern (one bank prints one blank, another three)
        j, k = rnd.sample(range(n), 2)
        rules[j].match, rules[k].match = rnd.choice([('contains("uber   eats")', 'contains("uber eats")'), ('contains("WHOLE  FOODS")', 'contains("WHOLE FOODS")')])
        rules[j].priority = rules[k].priority = None
    if n >= 2 and rnd.random() < .2:
        # two blocks under the same [Name] (a merchant's general rule and its special case): they are two rules, ranked each on its own
        j, k = rnd.sample(range(n), 2)
        rules[k].name = rules[j].name
    return rf


def dominance_pair(rnd, basic=False, demoted=None):
    """Two rules that both match everything in the pool that contains the word; exactly one level decides."""
    w = rnd.choice(['UBER', 'NETFLIX', 'COSTCO', 'STAR'])
    if demoted is not None:
        # (fixed: an explicit priority that demotes the otherwise more specific rule - 0, 1 and negative values, in both file orders)
        prio, lo_first = demoted
        hi = R.Rule('HI', 'contains("%s")' % w[:2], 'Hi', 'HiSub')
        lo = R.Rule('LO', 'contains("%s") and contains("%s") and regex("%s") and amount > -1e12 and month >= 0 and year >= 0' % (w, w, w), 'Lo', 'LoSub', priority=prio)
        return R.RuleFile(variables=list(PREAMBLE), rules=[lo, hi] if lo_first else [hi, lo]), 'priority-demoted', w
    level = rnd.choice(['priority', 'patterns', 'kinds', 'length'] + ([] if basic else ['kinds-vs-long-text', 'patterns-vs-many-kinds', 'length-non-ascii', 'single-kind', 'single-kind', 'length-mixed-quotes', 'hash-in-pattern']))
    if level == 'hash-in-pattern':
        # a "#" inside a quoted pattern is pattern text (STORE #12, APT #4): what follows it on the line still counts
        hi = R.Rule('HI', rnd.choice(['contains("%s #12") and amount > -1e12', 'contains("%s #12") and contains("%s")' % ('%s', w[:2]), 'contains("%s #12 STORE")']) % w, 'Hi', 'HiSub')
        lo = R.Rule('LO', 'contains("%s #12")' % w, 'Lo', 'LoSub')
        rules = [hi, lo]
        rnd.shuffle(rules)
        return R.RuleFile(variables=list(PREAMBLE), rules=rules), level, w
    if level == 'length-mixed-quotes':
        # pattern text counts whichever quotes it is written in, also when one condition uses both kinds
        a, b = w[:2], w[2:] + ' STORE 42'
        hi = R.Rule('HI', rnd.choice(['contains("%s") and contains(\'%s\')', 'contains(\'%s\') and contains("%s")']) % ((a, b) if rnd.random() < .5 else (b, a)), 'Hi', 'HiSub')
        lo = R.Rule('LO', 'contains("%s") and contains("%s")' % (w, 'STO'), 'Lo', 'LoSub')
        rules = [hi, lo]
        rnd.shuffle(rules)
        return R.RuleFile(variables=list(PREAMBLE), rules=rules), level, w
    if level == 'single-kind':
        # ONE constraint of one kind (each of amount, month, year, day, date, source, field in turn) outranks a longer pattern without any
        kind = rnd.choice(sorted(CONSTRAINTS))
        hi = R.Rule('HI', 'contains("%s") and %s' % (w[:2], rnd.choice(CONSTRAINTS[kind])), 'Hi', 'HiSub')
        lo = R.Rule('LO', 'contains("%s STORE 42")' % w, 'Lo', 'LoSub')
        rules = [hi, lo]
        rnd.shuffle(rules)
        return R.RuleFile(variables=list(PREAMBLE), rules=rules), level + ':' + kind, w
    if level == 'kinds-vs-long-text':
        # one more constraint kind outranks ANY amount of pattern text (100, 101, 250 ... characters of it)
        filler = '|'.join(rnd.choice(WORDS) + rnd.choice(WORDS) for _ in range(rnd.choice([12, 13, 14, 20, 40])))
        extra = rnd.choice([0, 1])
        hi = R.Rule('HI', 'contains("%s") and amount > -1e12' % w[:1] + (' and month >= 0' if extra else ''), 'Hi', 'HiSub')
        lo = R.Rule('LO', 'regex("%s|%s")' % (w, filler) + (' and year >= 0' if extra else ''), 'Lo', 'LoSub')
        rules = [hi, lo]
        rnd.shuffle(rules)
        return R.RuleFile(variables=list(PREAMBLE), rules=rules), level, w
    if level == 'patterns-vs-many-kinds':
        hi = R.Rule('HI', 'contains("%s") and contains("%s")' % (w[:1], w[:2]), 'Hi', 'HiSub')
        lo = R.Rule('LO', 'regex("%s( %s)?") and amount > -1e12 and month >= 0 and year >= 0 and day >= 0 and date == txn.date and source == source '
                    'and field.memo == field.memo' % (w, 'STORE 42 ' * 12), 'Lo', 'LoSub')
        rules = [hi, lo]
        rnd.shuffle(rules)
        return R.RuleFile(variables=list(PREAMBLE), rules=rules), level, w
    if level == 'length-non-ascii':
        # pattern text length is the length of the text as written (letters whose lower/upper-case form has another length included)
        k = rnd.choice([1, 2, 3])
        short = '\u0130' * k + ' ' + w                      # k + 1 + len(w) characters
        longer = w + ' STORE 42 '[:k + 2]                   # len(w) + k + 2 characters: exactly one more
        hi = R.Rule('HI', 'contains("%s")' % longer, 'Hi', 'HiSub')
        lo = R.Rule('LO', 'contains("%s")' % short, 'Lo', 'LoSub')
        rules = [hi, lo]
        rnd.shuffle(rules)
        return R.RuleFile(variables=list(PREAMBLE), rules=rules), level + ':' + str(k), w
    if level == 'priority' and rnd.random() < .4:
        # an explicit `priority: 0` (or a negative one) DEMOTES a rule below every rule that states none (50)
        hi = R.Rule('HI', 'contains("%s")' % w[:2], 'Hi', 'HiSub')
        lo = R.Rule('LO', 'contains("%s") and contains("%s") and regex("%s") and amount > -1e12 and month >= 0 and year >= 0' % (w, w, w), 'Lo', 'LoSub', priority=rnd.choice([0, -5, -100, -1, 1]))
        rules = [hi, lo]
        rnd.shuffle(rules)
        return R.RuleFile(variables=list(PREAMBLE), rules=rules), 'priority-demoted', w
    if level == 'priority':
        hi = R.Rule('HI', 'contains("%s")' % w[:2], 'Hi', 'HiSub', priority=60)
        lo = R.Rule('LO', 'contains("%s") and contains("%s") and regex("%s") and amount > -1e12 and month >= 0 and year >= 0' % (w, w, w), 'Lo', 'LoSub')
    elif level == 'patterns':
        hi = R.Rule('HI', 'contains("%s") and contains("%s")' % (w[:2], w[:1]), 'Hi', 'HiSub')
        lo = R.Rule('LO', 'contains("%s") and amount > -1e12 and month >= 0 and year >= 0 and day >= 0' % w, 'Lo', 'LoSub')
    elif level == 'kinds':
        hi = R.Rule('HI', 'contains("%s") and amount > -1e12 and month >= 0' % w[:1], 'Hi', 'HiSub')
        lo = R.Rule('LO', 'contains("%s") and amount > -1e12' % w, 'Lo', 'LoSub')
    else:
        hi = R.Rule('HI', 'contains("%s")' % w, 'Hi', 'HiSub')
        lo = R.Rule('LO', 'contains("%s")' % w[:-1], 'Lo', 'LoSub')
    rules = [hi, lo]
    rnd.shuffle(rules)
    return R.RuleFile(variables=list(PREAMBLE), rules=rules), level, w


def judge_set(rec, rf, txns, rows, tmp, rnd, max_full, nsample):
    n = len(rf.rules)
    case0 = {'kind': 'set', 'rf': rf.to_json(), 'rows': rows}
    orders = list(itertools.permutations(range(n))) if n <= max_full else \
        [tuple(range(n))] + [tuple(rnd.sample(range(n), n)) for _ in range(nsample)]
    engs = []
    for o in orders:
        prf = rf.with_rules([rf.rules[i] for i in o])
        try:
            engs.append((o, prf, O.load_engine(R.render(prf), 'most_specific')))
        except Exception as e:
            rec.violation('valid-file-rejected', f'{type(e).__name__}: {e}', dict(case0, txns=[]))
            return
        rec.count('permutation_orders')
    for txn in txns:
        rec.case()
        case = dict(case0, txns=[O.jtxn(txn)])
        results = []
        try:
            for o, prf, eng in engs:
                ref = R.ref_match(prf, txn, rows, 'most_specific')
                obs = O.engine_result(eng, ref['txn'], rows)
                rec.count('ranking_checks')
                want_cat = ref['triple'][1] if ref['triple'] else None
                want_sub = ref['triple'][2] if ref['triple'] else None
                got_cat = obs['raw'][1] if obs['triple'] else None
                got_sub = obs['raw'][2] if obs['triple'] else None
                if got_cat != want_cat:
                    keys = {prf.rules[i].name: R.specificity_ref(prf.rules[i]) for i in ref['matching'] if prf.rules[i].category}
                    rec.violation('category-not-from-highest-ranked' + (':tie' if ref['tie'] else ''),
                                  f'order {[r.name for r in prf.rules]}: category {got_cat!r} (rule {obs["winner_name"]}), highest-ranked matching '
                                  f'categorizing rule gives {want_cat!r}; ranks {keys} for {txn.get("description")!r}', case)
                    break
                if got_sub != want_sub:
                    rec.violation('subcategory-not-from-highest-ranked-rule-that-sets-one' + (':tie' if ref.get('sub_tie') else ''),
                                  f'order {[r.name for r in prf.rules]}: subcategory {got_sub!r} (rule {obs["sub_name"]}), expected {want_sub!r}', case)
                    break
                if obs['tags'] != ref['tags']:
                    rec.violation('tags-not-union-in-most-specific', f'{sorted(obs["tags"])} vs {sorted(ref["tags"])}', case)
                    break
                results.append((ref, got_cat, got_sub))
                if ref['tie'] or ref.get('sub_tie'):
                    rec.count('tie_checks')
            else:
                ref0 = results[0][0]
                cats = [i for i in ref0['matching'] if engs[0][1].rules[i].category]
                if len(cats) >= 2:
                    ranks = {R.specificity_ref(engs[0][1].rules[i]) for i in cats}
                    if len(ranks) >= 2 or ref0['tie']:
                        rec.interesting([core.digest(rf.to_json()), core.digest(O.jtxn(txn))])
                if not any(r[0]['tie'] for r in results):
                    rec.count('unique_top_invariance_checks')
                    if len({r[1] for r in results}) > 1:
                        rec.violation('category-depends-on-rule-order', f'unique top rank but categories {sorted({str(r[1]) for r in results})}', case)
                if not any(r[0].get('sub_tie') for r in results) and len({r[2] for r in results}) > 1:
                    rec.violation('subcategory-depends-on-rule-order', f'{sorted({str(r[2]) for r in results})}', case)
        except R.OutOfDomain:
            rec.count('out_of_domain')
        except O.ImplError as e:
            rec.violation('impl-raises:' + type(e.exc).__name__, str(e)[:300], case)

    # config path (get_all_rules caches one engine per process, so load and use one file at a time)
    for j, (o, prf, _) in enumerate(engs[:2]):
        p = O.write(os.path.join(tmp, 'm%d.rules' % j), R.render(prf))
        if j == 1:
            # the same unchanged file was read in the default mode a moment ago (another command, a comparison run): the mode asked for now decides
            from tally import merchant_utils as _mu, merchant_engine as _me
            try:
                from pathlib import Path as _P
                _me.load_merchants_file(_P(p))
                _mu.get_transforms(p)
            except Exception:
                pass
            rec.count('loads_in_other_mode_first')
        prules, ptrans = O.production_load(p, 'most_specific', clear=(j != 1))
        for txn in txns:
            case = dict(case0, txns=[O.jtxn(txn)])
            try:
                ref = R.ref_match(prf, txn, rows, 'most_specific')
                op = O.production_result(prules, ptrans, txn, rows)
            except R.OutOfDomain:
                continue
            except O.ImplError as e:
                rec.violation('impl-raises:' + type(e.exc).__name__, str(e)[:300], case)
                continue
            rec.count('config_path_checks')
            want = (ref['triple'][1], ref['triple'][2]) if ref['triple'] else None
            got = (op['triple'][1], op['triple'][2]) if op['triple'] else None
            if got != want:
                rec.violation('config-path-most-specific-differs', f'get_all_rules(match_mode)->normalize_merchant: {got} expected {want}', case)


def judge_dominance(rec, rnd, tmp, demoted=None):
    rf, level, w = dominance_pair(rnd, demoted=demoted)
    if rnd.random() < .3:
        # function names are case-insensitive, for matching and for ranking alike
        for r in rf.rules:
            for fn in ('contains', 'regex', 'startswith', 'normalized', 'anyof'):
                r.match = r.match.replace(fn + '(', rnd.choice([fn.capitalize(), fn.upper()]) + '(')
        rec.count('dominance_pairs_with_capitalised_function_names')
    eng = O.load_engine(R.render(rf), 'most_specific')
    txn = world.txn(rnd, desc='%s STORE 42 %s' % (w, w))
    if level.startswith('length-non-ascii'):
        txn['description'] = '\u0130' * int(level[-1]) + ' ' + txn['description']
        level = level[:-2]
    if level == 'hash-in-pattern':
        txn['description'] = '%s #12 STORE 42 %s' % (w, w)
    if level.startswith('single-kind'):
        txn['source'] = txn.get('source') or 'Amex'
        txn['amount'] = abs(txn['amount']) or 5.0          # every listed constraint is true of the probe transaction
    txn['date'] = txn.get('date') or world.DATES[0]
    if not txn.get('field'):
        txn['field'] = {'memo': 'm', 'code': 'c'}
    rec.case()
    rec.count('dominance_pairs')
    rec.count('dominance:' + level)
    try:
        obs = O.engine_result(eng, txn, {})
    except O.ImplError as e:
        rec.violation('impl-raises:' + type(e.exc).__name__, str(e)[:300], {'kind': 'set', 'rf': rf.to_json(), 'rows': {}, 'txns': [O.jtxn(txn)]})
        return
    if obs['raw'][1:] != ('Hi', 'HiSub'):
        rec.violation('ranking-level-ignored:' + level, f'level {level}: expected Hi/HiSub, got {obs["raw"]} with rules '
                      f'{[(r.name, r.match, r.priority) for r in rf.rules]}', {'kind': 'set', 'rf': rf.to_json(), 'rows': {}, 'txns': [O.jtxn(txn)]})
    rec.interesting(['dom', level, w, rf.rules[0].name])


def judge_variable_sequence(rec, rnd):
    """One engine, several transactions: a top-level variable that has no value for SOME transactions (a statement without that column) makes the
    rule that reads it unusable for those only; for the next transaction that has the column the more specific rule wins again."""
    w = rnd.choice(['UBER', 'NETFLIX', 'COSTCO', 'STAR'])
    var = rnd.choice([('ref', 'extract(field.memo, "REF:(\\\\d+)")', 'len(ref) >= 0'), ('who', 'field.code', 'who != "zz"'), ('memo_up', 'uppercase(field.memo)', 'memo_up != "ZZ"')])
    rf = R.RuleFile(variables=list(PREAMBLE) + [(var[0], var[1])],
                    rules=[R.Rule('HI', 'contains("%s") and %s and amount > -1e12' % (w, var[2]), 'Hi', 'HiSub', tags=['hi']), R.Rule('LO', 'contains("%s")' % w, 'Lo', 'LoSub')])
    rnd.shuffle(rf.rules)
    mode = rnd.choice(['most_specific', 'most_specific', 'first_match'])
    eng = O.load_engine(R.render(rf), mode)
    seq = []
    for k in range(rnd.randint(2, 5)):
        t = world.txn(rnd, desc='%s STORE %d' % (w, k))
        t['date'] = t.get('date') or world.DATES[0]
        t['field'] = None if (k == 0 or rnd.random() < .4) else {'memo': 'REF:%d' % k, 'code': 'c%d' % k}
        seq.append(t)
    if all(t['field'] is None for t in seq):
        seq[-1]['field'] = {'memo': 'REF:9', 'code': 'c'}
    rec.count('variable_sequences')
    case = {'kind': 'varseq'}
    for k, t in enumerate(seq):
        rec.case()
        try:
            obs = O.engine_result(eng, t, {})
        except O.ImplError as e:
            rec.violation('impl-raises:' + type(e.exc).__name__, str(e)[:300], case)
            return
        if t['field'] is None:
            want = ('Lo', 'LoSub')
        elif mode == 'most_specific':
            want = ('Hi', 'HiSub')
        else:
            want = ('Hi', 'HiSub') if rf.rules[0].name == 'HI' else ('Lo', 'LoSub')
        rec.count('variable_sequence_checks')
        if obs['raw'][1:] != want:
            rec.violation('ranking-depends-on-earlier-transactions', f'{mode}, one engine, variable `{var[0]} = {var[1]}`: transaction #{k} (custom fields: {t["field"]}) after '
                          f'{[bool(x["field"]) for x in seq[:k]]} got {obs["raw"]}, expected {want}', case)
            return


def judge_migrating_run(rec, tmp, rnd, force=False):
    """`rule_mode: most_specific` and rules still in the legacy CSV: the run that migrates them (`tally up --migrate`) already classifies with the migrated
    rules file - in the configured mode, exactly like every later run."""
    import json as _json
    from vt import budget as B
    root = os.path.join(tmp, 'mig')
    shutil.rmtree(root, ignore_errors=True)
    os.makedirs(os.path.join(root, 'config'))
    os.makedirs(os.path.join(root, 'data'))
    w = rnd.choice(['COSTCO', 'UBER', 'STAR'])
    rows = [('%s' % w, 'General %s' % w.title(), 'Shopping', 'Wholesale'), ('%s GAS[amount>5]' % w, '%s Gas' % w.title(), 'Transport', 'Fuel')]
    if rnd.random() < .5:
        rows.reverse()
    mode = rnd.choice(['most_specific', 'most_specific', 'first_match'])
    if force:
        rows.sort(key=lambda r: len(r[0]))      # the general row first, most_specific configured: the two modes give different answers
        mode = 'most_specific'
    with open(os.path.join(root, 'config', 'settings.yaml'), 'w') as f:
        f.write('year: 2025\nrule_mode: %s\ndata_sources:\n  - name: Card\n    file: data/card.csv\n    format: "{date:%%Y-%%m-%%d},{description},{amount}"\n' % mode)
    with open(os.path.join(root, 'config', 'merchant_categories.csv'), 'w') as f:
        f.write('Pattern,Merchant,Category,Subcategory\n' + ''.join(','.join(r) + '\n' for r in rows))
    with open(os.path.join(root, 'data', 'card.csv'), 'w') as f:
        f.write('Date,Description,Amount\n2025-01-03,%s GAS #0123,40.20\n' % w)
    out = []
    for extra in (['--migrate', '-v'], ['-v'], ['-q'], []):
        p = B.tally(root, 'up', os.path.join(root, 'config'), '--format', 'json', *extra)
        rec.count('cli_runs')
        try:
            js = B.json_from_stdout(p.stdout)
            out.append(sorted((m['name'], m['category'], m['subcategory']) for m in js['merchants']))
        except Exception:
            out.append('no report (exit %d)' % p.returncode)
    rec.case()
    rec.count('migrating_run_checks')
    specific = ('%s Gas' % w.title(), 'Transport', 'Fuel')
    want = [specific] if mode == 'most_specific' else [tuple(rows[0][1:])]
    case = {'kind': 'migrating-run'}
    if out[0] != out[1]:
        rec.violation('migrating-run-classifies-differently-from-the-next-run', f'rule_mode {mode}, CSV rows {rows}: `up --migrate` reports {out[0]}, the next `up` reports {out[1]}', case)
    elif out[2] != out[1] or out[3] != out[1]:
        rec.violation('rule-mode-depends-on-verbosity', f'rule_mode {mode}, rules {rows} (migrated): `up -v` reports {out[1]}, `up -q` {out[2]}, plain `up` {out[3]}', case)
    elif out[1] != want:
        rec.violation('configured-rule-mode-not-applied-after-migration', f'rule_mode {mode}, CSV rows {rows}: reports {out[1]}, expected {want}', case)
    shutil.rmtree(root, ignore_errors=True)


def judge_rule_mode_setting(rec, tmp, rnd):
    """load_config: rule_mode is validated and handed to the engine; an invalid value falls back to first_match with a warning."""
    from tally.config_loader import load_config
    from tally import merchant_utils as mu
    rf, level, w = dominance_pair(rnd, basic=True)
    if rf.rules[0].name == 'HI':
        rf.rules.reverse()          # LO first: first_match picks LO, most_specific picks HI
    for mode, expect in (('most_specific', 'Hi'), ('first_match', 'Lo'), ('bogus', 'Lo'), (None, 'Lo')):
        b = tempfile.mkdtemp(prefix='vt-c09-b-', dir=tmp)
        os.makedirs(os.path.join(b, 'config'))
        O.write(os.path.join(b, 'config', 'merchants.rules'), R.render(rf))
        O.write(os.path.join(b, 'config', 'settings.yaml'),
                'year: 2025\nmerchants_file: config/merchants.rules\n' + ('rule_mode: %s\n' % mode if mode else '') +
                'data_sources:\n  - name: A\n    file: data/a.csv\n    format: "{date:%Y-%m-%d},{description},{amount}"\n')
        cfg = load_config(os.path.join(b, 'config'))
        rec.count('rule_mode_fallback_checks')
        rules, transforms = O.production_load(cfg['_merchants_file'], cfg['rule_mode'])
        txn = {'description': '%s STORE' % w, 'amount': 5.0, 'date': world.DATES[0], 'field': None, 'source': 'A'}
        op = O.production_result(rules, transforms, txn, {})
        got = op['triple'][1] if op['triple'] else None
        case = {'kind': 'mode', 'mode': mode}
        if got != expect:
            rec.violation('rule_mode-setting-not-honoured', f'rule_mode={mode!r}: category {got!r}, expected {expect!r}', case)
        warned = any('rule_mode' in (x.get('message') or '') for x in cfg.get('_warnings', []))
        if mode == 'bogus' and not warned:
            rec.violation('invalid-rule_mode-without-warning', 'no warning for rule_mode: bogus', case)
        if mode != 'bogus' and warned:
            rec.violation('valid-rule_mode-warned', f'warning for rule_mode={mode!r}', case)
        shutil.rmtree(b, ignore_errors=True)


def run(rec, shard, nshards, t):
    core.import_tally()
    rnd = core.rng_for('C09', shard)
    tmp = tempfile.mkdtemp(prefix='vt-c09-')
    try:
        nsets = (300 if t == 'quick' else 8000) // nshards
        max_full = 4 if t == 'quick' else 5
        for i in range(nsets):
            n = rnd.choice([2, 3, 3, 4, 4] if t == 'quick' else [2, 3, 4, 4, 5, 5, 6])
            rf = gen_set(rnd, n)
            txns = [x for x in world.pool(rnd, 15)]
            judge_set(rec, rf, txns, world.ROWS, tmp, rnd, max_full, 24 if t == 'quick' else 60)
            if i < 1 and shard == 0:
                rec.sample({'rules_file': R.render(rf), 'ranks': {r.name: list(R.specificity_ref(r)) for r in rf.rules}})
        for _ in range((200 if t == 'quick' else 4000) // nshards):
            judge_dominance(rec, rnd, tmp)
            judge_variable_sequence(rec, rnd)
            if rnd.random() < .06:
                judge_migrating_run(rec, tmp, rnd)
        for _ in range(2 if t == 'quick' else 10):
            judge_rule_mode_setting(rec, tmp, rnd)
        if shard == 0:
            judge_migrating_run(rec, tmp, rnd, force=True)
            for prio in (0, 1, -1, -100, 49):
                for lo_first in (True, False):
                    judge_dominance(rec, rnd, tmp, demoted=(prio, lo_first))
    finally:
        shutil.rmtree(tmp, ignore_errors=True)


def replay(rec, case):
    core.import_tally()
    rnd = core.rng_for('C09', 'replay')
    tmp = tempfile.mkdtemp(prefix='vt-c09-')
    try:
        if case['kind'] == 'mode':
            for _ in range(5):
                judge_rule_mode_setting(rec, tmp, rnd)
        elif case['kind'] == 'migrating-run':
            for _ in range(6):
                judge_migrating_run(rec, tmp, rnd)
        elif case['kind'] == 'varseq':
            for _ in range(60):
                judge_variable_sequence(rec, rnd)
        else:
            judge_set(rec, R.RuleFile.from_json(case['rf']), [O.untxn(x) for x in case['txns']], case['rows'], tmp, rnd, 5, 60)
    finally:
        shutil.rmtree(tmp, ignore_errors=True)

"""C16 - explain and discover describe the same classification that up applies.

Three-way differential between fresh CLI subprocesses on the same budget directory:
  U  `tally up <cfg> --format json -v`
  E  `tally explain <merchant> <cfg> --format json`               (per merchant of U)
  D  `tally discover <cfg> --format json -n 0`                      (vs the Unknown merchants of U)
  P  `tally explain "<description>" <cfg> --amount a --format json` vs U on a sibling budget that contains (description, a)
"""
import json
import math
import os
import shutil
import tempfile
from collections import Counter

import yaml

from vt import core, budget as B, rules as R

SPEC = {
    'level': 'exploration',
    'shards': {'quick': 8, 'thorough': 16},
    'rule': ('budgets from the budget generator (1-3 sources, .rules or legacy CSV rules, both rule modes, transforms, optional supplemental '
             'source queried by a rule, tag-only rules also as the first match, merchant: different from the rule name, variables, let/field, '
             'conditions that are not function calls); per budget: up, discover, explain for up to 4 merchants, 3 description probes. '
             'Non-trivial = budget with a supplemental source, a tag-only rule that matches before a categorizing one, or a merchant: property; '
             'distinct by digest'),
    'exhaustive': {'quick': False, 'thorough': False},
    'required_counters': ['cli_runs', 'explain_merchant_checks', 'discover_checks', 'description_probe_checks', 'legacy_csv_description_probes', 'discover_text_header_checks',
                          'budgets_with_merchant_fed_by_several_rules'],
    'assumptions': ['description probes use rule files free of date / source / field conditions (explain cannot be given those)',
                    'discover totals are compared per Unknown description with the signed sum tally up reports; the gross-vs-net difference for descriptions '
                    'with refunds is a recorded finding'],
}

PROBE_CONDS = ['contains("%s")', 'regex("%s")', 'not contains("%s")', '"%s" in description', 'is_probe', 'startswith("%s") or amount > 500', 'is_large',
               'contains("%s") and is_large',
               'contains("%s") and amount > 10', 'normalized("%s")', 'len(description) > 5 and contains("%s")', 'amount > 100', 'description == "%s STORE"',
               # refunds and credits: the sign of --amount is part of the question
               'contains("%s") and amount < 0', 'amount < 0', 'amount >= -5 and amount < 0', 'abs(amount) > 100 and amount < 0']
PROBE_WORDS = ['NETFLIX', 'UBER', 'COSTCO', 'PROBE', 'STORE', 'ZZZ']


def probe_rulefile(rnd):
    """Date/source/field-free rule file with the features explain_description has to cope with."""
    rules = []
    for i in range(rnd.randint(2, 6)):
        w = rnd.choice(PROBE_WORDS)
        c = rnd.choice(PROBE_CONDS)
        c = c % w if '%s' in c else c
        tag_only = rnd.random() < .25
        cat, sub = ('', '') if tag_only else rnd.choice(R.CATS)
        r = R.Rule('P%d %s' % (i, rnd.choice(['Shop', 'Net', 'Co'])), c, cat, sub, tags=[rnd.choice(['t1', 'big', 'x'])] if (tag_only or rnd.random() < .3) else [])
        if not tag_only and rnd.random() < .35:
            r.merchant = 'Merchant %s %d' % (w.title(), i)
        if rnd.random() < .2:
            r.priority = rnd.choice([10, 60, 90])
        if rnd.random() < .15:
            r.lets = [('k', 'amount * 2')]
            r.match = '(%s) and k > 20' % r.match
        rules.append(r)
    # variables that need a date / a source / a custom field cannot be evaluated for a bare description (explain has none of these to offer); no rule
    # uses them - but the variables around them, which only need description and amount, must still work
    variables = [('is_probe', 'contains("PROBE")'), ('is_large', 'amount > 100')]
    for extra in rnd.sample([('after_move', 'date >= "2025-06-01"'), ('from_amex', 'source == "Amex"'), ('has_memo', 'field.memo != ""'), ('q4', 'month >= 10')],
                            rnd.randint(0, 3)):
        variables.insert(rnd.randint(0, len(variables)), extra)
    if rnd.random() < .4:
        # a variable that explain cannot evaluate is defined FIRST, and a rule at the top reads the ones defined after it
        variables.insert(0, rnd.choice([('has_code', 'field.code == "x"'), ('early', 'date < "2025-03-01"'), ('weekend', 'weekday >= 5')]))
        rules.insert(0, R.Rule('Reads Vars', rnd.choice(['is_probe and is_large', 'is_large', 'is_probe']), 'VarCat', 'VarSub'))
    rf = R.RuleFile(variables=variables, rules=rules)
    if rnd.random() < .3:
        rf.transforms = [('field.description', rnd.choice(['regex_replace(field.description, "^SQ \\\\*", "")', 'uppercase(field.description)',
                                                            'strip_prefix(field.description, "APLPAY ")']))]
    return rf


def up_json(root, cfg, migrate=False):
    p = B.tally(root, 'up', cfg, '--format', 'json', '-v', *(['--migrate'] if migrate else []))
    return p, (B.json_from_stdout(p.stdout) if p.returncode == 0 else None)


def mech_for_probe(rf, desc, amount, mode):
    """Which documented limitation of explain_description could explain a difference (narrow mechanism key)."""
    txn = {'description': desc, 'amount': amount, 'field': None, 'source': 'Probe', 'location': None}
    try:
        ref = R.ref_match(rf, txn, {}, mode)
    except R.OutOfDomain:
        return None
    w = ref['winner']
    first = ref['matching'][0] if ref['matching'] else None
    if first is not None and not rf.rules[first].category:
        return 'tag-only-first-match'
    if w is not None and rf.rules[w].merchant and rf.rules[w].merchant != rf.rules[w].name:
        return 'merchant-property-ignored'
    if mode == 'most_specific' and w is not None and ref['matching'] and w != [i for i in ref['matching'] if rf.rules[i].category][0]:
        return 'mode-or-let-ignored'
    if any(r.lets for r in rf.rules) or any('is_probe' in r.match for r in rf.rules):
        return 'mode-or-let-ignored'
    import re
    if any(not re.match(r'^(contains|normalized|anyof|startswith|fuzzy|regex|extract|split|substring|trim|exists)\s*\(', r.match) for r in rf.rules):
        return 'non-function-condition-as-regex'
    return None


def judge(rec, rnd, tmp, k):
    b = B.gen_budget(rnd, rules=rnd.choice(['rules', 'rules', 'csv']))
    if rnd.random() < .12:
        # any folder can be named as the config folder (tally up <dir>, TALLY_CONFIG); the settings then name their files relative to ITS parent
        b['cfg_name'] = rnd.choice(['cfg-2025', 'my config', 'Config', 'settings.d'])
        rec.count('budgets_with_another_config_folder_name')
    if b['rules_kind'] == 'rules' and rnd.random() < .5:
        # one merchant name fed by several rules with different categories (an amount-conditioned rule plus a plain one is the usual shape):
        # what up and explain report for that merchant depends on the order in which they feed the transactions to the analysis
        cats = [r for r in b['rf'].rules if r.category]
        for r in rnd.sample(cats, min(len(cats), rnd.randint(2, 3))):
            r.merchant = 'Shared Merchant'
        if rnd.random() < .7:
            w = rnd.choice(['S0', 'S0', 'S1', 'NETFLIX', 'COSTCO'])
            pos = rnd.randint(0, len(b['rf'].rules))
            b['rf'].rules.insert(pos, R.Rule('Shared plain', 'contains("%s")' % w, 'Shopping', 'Wholesale', merchant='Shared Merchant'))
            b['rf'].rules.insert(pos, R.Rule('Shared small', 'contains("%s") and amount < %s' % (w, rnd.choice(['20', '100', '1000'])), 'Transport', 'Fuel',
                                             merchant='Shared Merchant'))
        rec.count('budgets_with_merchant_fed_by_several_rules')
    if b['rules_kind'] == 'rules' and rnd.random() < .5:
        # merchants whose names differ only in letter case are different merchants (explain looks names up exactly first)
        w = rnd.choice(['S0', 'S1', 'NETFLIX', 'COSTCO', 'UBER'])
        pos = rnd.randint(0, len(b['rf'].rules))
        b['rf'].rules.insert(pos, R.Rule('Case plain', 'contains("%s")' % w, 'Shopping', 'Lower', merchant='Acme store'))
        b['rf'].rules.insert(pos, R.Rule('Case small', 'contains("%s") and amount < %s' % (w, rnd.choice(['20', '100', '1000'])), 'Transport', 'Upper',
                                         merchant='ACME STORE'))
        rec.count('budgets_with_case_twin_merchants')
    root = os.path.join(tmp, 'b%d' % k)
    os.makedirs(root)
    cfg = B.write_budget(b, root)
    case = {'kind': 'budget', 'settings': B.settings_dict(b), 'rules': R.render(b['rf']) if b['rules_kind'] == 'rules' else R.render_csv(b['csv_rules'])}
    rec.case()
    # a legacy-CSV budget may be migrated by this very run (up --migrate): what it reports is what explain / discover say right afterwards
    migrating = b['rules_kind'] == 'csv' and rnd.random() < .5
    if migrating:
        b['rule_mode'] = rnd.choice(['most_specific', 'most_specific', 'first_match'])
        # a general row listed before a more specific one: the configured rule mode decides which of them wins after the migration
        w = rnd.choice(['S0', 'S1', 'NETFLIX', 'COSTCO'])
        b['csv_rules'] = [R.CsvRule(w, [], 'General %s' % w, 'Transport', 'Ride', []),
                          R.CsvRule(w + '.*', [('amount', '>', '0')], 'Specific %s' % w, 'Food', 'Delivery', ['spec'])] + list(b['csv_rules'])
        cfg = B.write_budget(b, root)
        rec.count('budgets_migrated_by_the_up_run')
    pu, U = up_json(root, cfg, migrate=migrating)
    rec.count('cli_runs')
    if U is None:
        shutil.rmtree(root, ignore_errors=True)
        return
    supp = b['supplemental'] is not None
    uses_supp = supp and b['rules_kind'] == 'rules' and any('orders' in (r.match + ' '.join(e for _, e in r.lets)) for r in b['rf'].rules)
    if supp or (b['rules_kind'] == 'rules' and any(r.merchant for r in b['rf'].rules)):
        rec.interesting(core.digest(case))
    # ---- explain per merchant
    picked = rnd.sample(U['merchants'], min(4, len(U['merchants'])))
    picked += [m for m in U['merchants'] if m['name'] in ('Shared Merchant', 'Acme store', 'ACME STORE') and m not in picked]
    for m in picked:
        pe = B.tally(root, 'explain', m['name'], cfg, '--format', 'json')
        rec.count('cli_runs')
        rec.count('explain_merchant_checks')
        try:
            E = json.loads(pe.stdout[pe.stdout.index('{'):]) if pe.returncode == 0 else None
        except Exception:
            E = None
        c2 = dict(case, merchant=m['name'])
        if E is None or E.get('name') != m['name']:
            rec.violation('explain-merchant-not-found' + (':supplemental' if supp else ''), f'explain {m["name"]!r}: exit {pe.returncode}, output {pe.stdout[:200]!r} {pe.stderr[-200:]!r}', c2)
            continue
        diffs = [(f, E.get(f), m.get(f)) for f in ('category', 'subcategory', 'tags', 'total', 'count') if E.get(f) != m.get(f)]
        if (E.get('pattern') or {}).get('matched') != (m.get('pattern') or {}).get('matched'):
            diffs.append(('pattern', (E.get('pattern') or {}).get('matched'), (m.get('pattern') or {}).get('matched')))
        if diffs:
            key = 'explain-merchant-differs'
            if supp:
                key = 'supplemental-data-not-passed' if uses_supp else 'supplemental-parsed-as-transactions'
            rec.violation(key, f'explain {m["name"]!r} vs up: {diffs}', c2)
    # ---- `explain "<statement text>"` for text that is IN the data (no merchant is named like it): the listing shows, per merchant, the category
    #      `up` gave THOSE transactions (a merchant fed by several rules has transactions in several categories)
    try:
        exp_rows0 = B.expected(b)
    except R.OutOfDomain:
        exp_rows0 = None
    if exp_rows0:
        names = [m['name'].lower() for m in U['merchants']]
        by_desc = {}
        for e in exp_rows0:
            by_desc.setdefault(e['desc'], set()).add(e['triple'])
        cats_of = {}
        for e in exp_rows0:
            if e['triple']:
                cats_of.setdefault(e['triple'][0], set()).add(e['triple'][1:])
        cands = [d for d, ts in by_desc.items() if len(ts) == 1 and None not in ts and len(cats_of.get(next(iter(ts))[0], ())) >= 2
                 and len(d) >= 6 and not any(d.lower() in n for n in names) and not any(d.lower() in d2.lower() for d2 in by_desc if d2 != d)]
        if cands:
            d = rnd.choice(sorted(cands))
            trip = next(iter(by_desc[d]))
            pq = B.tally(root, 'explain', d, cfg)
            rec.count('cli_runs')
            import re as _re
            rows_ = _re.findall(r'^  (.+?)\s{2,}([^>\n]*?) > ?([^\n(]*?)\s+\((\d+) txns?', pq.stdout, _re.M)
            if "Transactions matching" in pq.stdout and rows_:
                rec.count('explain_statement_text_listing_checks')
                mine = [(c_.strip(), s_.strip()) for m_, c_, s_, n_ in rows_ if m_.strip() == trip[0]]
                if mine and (trip[1], trip[2]) not in mine:
                    rec.violation('explain-statement-text-listing-differs', f'explain {d!r}: the listing shows {trip[0]!r} under {mine}; tally up put these transactions under '
                                  f'{(trip[1], trip[2])} (the merchant has transactions in {sorted(cats_of[trip[0]])})', case)
    # ---- discover vs Unknown of up
    pd = B.tally(root, 'discover', cfg, '--format', 'json', '-n', '0')
    rec.count('cli_runs')
    rec.count('discover_checks')
    unknown_u = Counter()
    tot_u, all_pos = 0.0, True
    for m in U['merchants']:
        if m['category'] == 'Unknown':
            for d, n in (m.get('raw_descriptions') or {}).items():
                unknown_u[d] += n
            tot_u += m['total']
    # `up` reports category per MERCHANT; an Unknown transaction whose derived name equals a rule's merchant name is merged with it, so the
    # merchant-level category is ambiguous there.  Then the composed reference model (validated against `up` by C11) says which are Unknown.
    try:
        exp_rows = B.expected(b)
    except R.OutOfDomain:
        exp_rows = None
    if exp_rows is not None:
        unknown_model = Counter(e['desc'] for e in exp_rows if e['triple'] is None)
        if unknown_model != unknown_u:
            known_descs = {e['desc'] for e in exp_rows if e['triple'] is not None}
            merged = any(set(m.get('raw_descriptions') or {}) & known_descs and set(m.get('raw_descriptions') or {}) & set(unknown_model) for m in U['merchants'])
            if merged:
                rec.count('up_merchant_merge_ambiguous_used_model')
                unknown_u = unknown_model
            else:
                rec.count('model_and_up_disagree_not_judged')
                shutil.rmtree(root, ignore_errors=True)
                return
    if 'No unknown transactions found' in pd.stdout:
        D = []
    else:
        try:
            D = json.loads(pd.stdout[pd.stdout.index('['):])
        except Exception:
            D = None
    if D is None:
        if unknown_u or pd.returncode != 0:
            rec.violation('discover-fails', f'exit {pd.returncode}: {(pd.stderr or pd.stdout)[-200:]!r}', case)
    else:
        unknown_d = Counter({x['raw_description']: x['count'] for x in D})
        if unknown_d != unknown_u:
            extra, miss = dict(unknown_d - unknown_u), dict(unknown_u - unknown_d)
            key = 'discover-unknown-list-differs'
            if supp and extra and all(any(d == r['item'] for r in b['supplemental']['rows']) for d in extra):
                key = 'supplemental-parsed-as-transactions'
            elif supp and uses_supp:
                key = 'supplemental-data-not-passed'
            rec.violation(key, f'discover lists {dict(unknown_d)} ; up leaves Unknown {dict(unknown_u)} (only in discover: {extra}; only in up: {miss})', case)
        else:
            judge_discover_totals(rec, D, exp_rows, case)
            # the example transactions shown for a description are transactions OF that description
            if exp_rows is not None:
                amts = {}
                for e in exp_rows:
                    if e['triple'] is None:
                        amts.setdefault(e['desc'], []).append(round(abs(e['raw_amount']), 2))
                for x in D:
                    ex = x.get('examples') or []
                    rec.count('discover_example_checks')
                    bad = [y for y in ex if round(abs(y.get('amount', 0)), 2) not in amts.get(x['raw_description'], [])]
                    if bad or len(ex) > x['count']:
                        rec.violation('discover-examples-are-not-of-the-description', f'unknown description {x["raw_description"]!r} (count {x["count"]}, amounts '
                                      f'{amts.get(x["raw_description"])}): examples listed {[(y.get("date"), y.get("amount")) for y in ex]}', case)
                        break
    shutil.rmtree(root, ignore_errors=True)


CSV_PROBES = [('GROSSMARKT', 'Gro\u00dfmarkt Berlin'), ('FINANCE', '\ufb01nance Co 12'), ('STRASSE', 'Hauptstra\u00dfe 5 Caf\u00e9'), ('CAF\u00c9', 'caf\u00e9 luna'),
              ('UBER\\s*EATS', 'uber   eats 42'), ('NETFLIX', 'netflix.com'), ('M\u00dcLLER', 'm\u00fcller drogerie'), ('^SQ \\*', 'sq *coffee'), ('ZZZ', 'nothing here'),
              # regular expressions that LOOK like rule expressions (parentheses, and / or, comparisons): in a CSV file they are regular expressions all the same
              ('(AMAZON|AMZN)', 'amzn mktp 12'), ('BARNES and NOBLE', 'BARNES and NOBLE #7'), ('(COSTCO)', 'costco gas 9'), ('amount>5', 'amount>5 shop')]


def judge_probe_csv(rec, rnd, tmp, k):
    """explain "<description>" on a legacy merchant_categories.csv budget versus up on a sibling budget that contains the description."""
    picks = rnd.sample(CSV_PROBES, 4)
    if rnd.random() < .5:
        picks[0] = rnd.choice(CSV_PROBES[-4:])
    rows = 'Pattern,Merchant,Category,Subcategory,Tags\n' + ''.join('%s,M%d %s,Cat%d,Sub%d,%s\n' % (p, i, 'Shop', i, i, rnd.choice(['', 'a', 'a|b'])) for i, (p, _) in enumerate(picks))
    if rnd.random() < .4:
        # a tag-only row (no category) for the SAME pattern ahead of the categorizing rows: it adds its tag, it decides nothing
        lines_ = rows.split('\n')
        lines_.insert(1, '%s,Tagger,,,flagged' % picks[rnd.randrange(len(picks))][0])
        rows = '\n'.join(lines_)
        rec.count('legacy_csv_probes_with_a_tag_only_row_first')
    desc = rnd.choice(picks + picks[:1] + [rnd.choice(CSV_PROBES)])[1]
    amount = rnd.choice([5.0, 15.0, 150.0])
    root = os.path.join(tmp, 'pc%d' % k)
    settings = {'year': 2025, 'data_sources': [{'name': 'Main', 'file': 'data/main.csv', 'format': '{date:%Y-%m-%d},{description},{amount}'}]}
    for sub in ('a', 'b'):
        os.makedirs(os.path.join(root, sub, 'config'))
        os.makedirs(os.path.join(root, sub, 'data'))
        with open(os.path.join(root, sub, 'config', 'settings.yaml'), 'w') as f:
            yaml.safe_dump(settings, f, sort_keys=False)
        with open(os.path.join(root, sub, 'config', 'merchant_categories.csv'), 'w', encoding='utf-8') as f:
            f.write(rows)
        with open(os.path.join(root, sub, 'data', 'main.csv'), 'w', encoding='utf-8') as f:
            f.write('Date,Description,Amount\n2025-01-05,EXISTING VENDOR ONE,12.00\n' + ('2025-01-15,"%s",%.2f\n' % (desc, amount) if sub == 'b' else ''))
    case = {'kind': 'probe-csv', 'rules': rows, 'desc': desc, 'amount': amount}
    rec.case()
    pu, U = up_json(os.path.join(root, 'b'), os.path.join(root, 'b', 'config'))
    pe = B.tally(os.path.join(root, 'a'), 'explain', desc, os.path.join(root, 'a', 'config'), '--amount', str(amount), '--format', 'json')
    rec.count('cli_runs', 2)
    try:
        if U is None:
            return
        mu = [m for m in U['merchants'] if desc in (m.get('raw_descriptions') or {})]
        if len(mu) != 1:
            return
        mu = mu[0]
        rec.count('description_probe_checks')
        rec.count('legacy_csv_description_probes')
        try:
            T = json.loads(pe.stdout[pe.stdout.index('{'):])
        except Exception:
            T = None
        if T is None:
            if mu['category'] != 'Unknown':
                rec.violation('explain-description-csv:no-answer', f'explain {desc!r} gave no JSON (exit {pe.returncode}, {pe.stderr[-150:]!r}); up assigns '
                              f'{(mu["name"], mu["category"], mu["subcategory"])}', case)
            return
        want = (mu['name'], mu['category'], mu['subcategory'])
        got = (T.get('merchant'), T.get('category'), T.get('subcategory'))
        if got != want:
            rec.violation('explain-description-csv:differs', f'legacy CSV rules: explain {desc!r} --amount {amount}: {got}; up assigns {want}', case)
        if mu['category'] != 'Unknown':
            rec.interesting(['probe-csv', core.digest(case)])
    finally:
        shutil.rmtree(root, ignore_errors=True)


def judge_discover_text(rec, rnd, tmp, k):
    """discover's default (text) output on a budget with more distinct Unknown descriptions than its --limit: the header still states the
    count and total of ALL transactions tally up leaves Unknown."""
    import re
    n = rnd.choice([3, 19, 20, 21, 26, 45])
    rows, total = [], 0.0
    for i in range(n):
        for _ in range(rnd.choice([1, 1, 2])):
            a = rnd.choice([5.0, 12.5, 99.99, 250.0, 0.5])
            rows.append('2025-%02d-%02d,VENDOR NUMBER %d X,%.2f' % (rnd.randint(1, 12), rnd.randint(1, 28), i, a))
            total += a
    rows.append('2025-01-05,NETFLIX.COM,9.99')
    root = os.path.join(tmp, 'dt%d' % k)
    os.makedirs(os.path.join(root, 'config'))
    os.makedirs(os.path.join(root, 'data'))
    with open(os.path.join(root, 'config', 'settings.yaml'), 'w') as f:
        f.write('year: 2025\nmerchants_file: config/merchants.rules\ndata_sources:\n  - name: Main\n    file: data/main.csv\n    format: "{date:%Y-%m-%d},{description},{amount}"\n')
    with open(os.path.join(root, 'config', 'merchants.rules'), 'w') as f:
        f.write('[Netflix]\nmatch: contains("NETFLIX")\ncategory: Subs\n')
    with open(os.path.join(root, 'data', 'main.csv'), 'w') as f:
        f.write('Date,Description,Amount\n' + '\n'.join(rows) + '\n')
    lim = rnd.choice([None, None, 5, 0])
    args = ['discover', os.path.join(root, 'config')] + (['--limit', str(lim)] if lim is not None else [])
    p = B.tally(root, *args)
    rec.count('cli_runs')
    rec.case()
    case = {'kind': 'discover-text', 'distinct_unknown': n, 'limit': lim}
    m = re.search(r'Total unknown: (\d+) transactions, \$([\d.,]+)', p.stdout)
    try:
        if not m:
            rec.violation('discover-text-header-missing', f'exit {p.returncode}: {p.stdout[:200]!r}', case)
            return
        rec.count('discover_text_header_checks')
        got_n, got_t = int(m.group(1)), float(m.group(2).replace(',', ''))
        if got_n != len(rows) - 1 or abs(got_t - total) > 0.011:
            rec.violation('discover-text-total-differs', f'{n} distinct unknown descriptions, --limit {lim}: header says {got_n} transactions, ${got_t}; '
                          f'tally up leaves {len(rows) - 1} transactions totalling {total:.2f} Unknown', case)
        rec.interesting(['dt', n, lim])
        # "--limit 0" means ALL: the JSON listing then holds every one of the n descriptions, with every transaction
        pj = B.tally(root, 'discover', os.path.join(root, 'config'), '--format', 'json', rnd.choice(['--limit', '-n']), '0')
        rec.count('cli_runs')
        try:
            D = json.loads(pj.stdout[pj.stdout.index('['):])
        except Exception:
            D = None
        rec.count('discover_unlimited_listing_checks')
        if D is None or len(D) != n or sum(x['count'] for x in D) != len(rows) - 1:
            rec.violation('discover-unlimited-listing-incomplete', f'{n} distinct unknown descriptions, {len(rows) - 1} transactions; discover --limit 0 --format json lists '
                          f'{None if D is None else len(D)} descriptions / {None if D is None else sum(x["count"] for x in D)} transactions', case)
    finally:
        shutil.rmtree(root, ignore_errors=True)


def judge_discover_totals(rec, D, exp_rows, case):
    """Per Unknown description: discover's total against the total `tally up` reports for those transactions (their signed sum)."""
    if not exp_rows or not D:
        return
    by_desc = {}
    for e in exp_rows:
        if e['triple'] is None:
            by_desc.setdefault(e['desc'], []).append(e['raw_amount'])
    for x in D:
        amts = by_desc.get(x['raw_description'])
        if not amts:
            continue
        rec.count('discover_per_description_total_checks')
        net, gross = sum(amts), sum(abs(a) for a in amts)
        if math.isclose(x['total_spend'], net, abs_tol=0.011):
            continue
        if (min(amts) < 0) and math.isclose(x['total_spend'], gross, abs_tol=0.011):
            # recorded finding: discover adds up absolute values, up nets charges and refunds
            rec.violation('discover-total-is-gross-not-net', f'unknown description {x["raw_description"]!r} with amounts {amts}: discover total {x["total_spend"]}, '
                          f'tally up reports {round(net, 2)} for the same transactions', {'kind': 'gross-net-witness'})
        else:
            rec.violation('discover-total-differs', f'unknown description {x["raw_description"]!r} with amounts {amts}: discover total {x["total_spend"]}, tally up {round(net, 2)}', case)
        return


def gross_net_witness(rec, tmp):
    """Witness of the recorded finding discover-total-is-gross-not-net: one unknown shop, a purchase and a refund."""
    root = os.path.join(tmp, 'gn')
    shutil.rmtree(root, ignore_errors=True)
    os.makedirs(os.path.join(root, 'config'))
    os.makedirs(os.path.join(root, 'data'))
    with open(os.path.join(root, 'config', 'settings.yaml'), 'w') as f:
        f.write('year: 2025\nmerchants_file: config/merchants.rules\ndata_sources:\n  - name: Main\n    file: data/main.csv\n    format: "{date:%Y-%m-%d},{description},{amount}"\n')
    with open(os.path.join(root, 'config', 'merchants.rules'), 'w') as f:
        f.write('[Netflix]\nmatch: contains("NETFLIX")\ncategory: Subs\n')
    with open(os.path.join(root, 'data', 'main.csv'), 'w') as f:
        f.write('Date,Description,Amount\n2025-01-05,CORNER SHOP 12,80.00\n2025-01-09,CORNER SHOP 12,-30.00\n2025-01-11,NETFLIX.COM,9.99\n')
    pu, U = up_json(root, os.path.join(root, 'config'))
    pd = B.tally(root, 'discover', os.path.join(root, 'config'), '--format', 'json', '-n', '0')
    rec.count('cli_runs', 2)
    try:
        D = json.loads(pd.stdout[pd.stdout.index('['):])
        up_total = [m['total'] for m in U['merchants'] if m['category'] == 'Unknown'][0]
        if not math.isclose(D[0]['total_spend'], up_total, abs_tol=0.011):
            rec.violation('discover-total-is-gross-not-net', f"unknown description 'CORNER SHOP 12' with amounts [80.0, -30.0]: discover total {D[0]['total_spend']}, "
                          f'tally up reports {up_total}', {'kind': 'gross-net-witness'})
    except Exception:
        pass
    shutil.rmtree(root, ignore_errors=True)


def judge_symlinked_config(rec, rnd, tmp, k):
    """Two years share one config folder through a symbolic link (2025/config -> ../2024/config), each year has its own data/: every command
    given 2025/config reads 2025's statements, so discover's Unknown list is the one `up` leaves for 2025."""
    root = os.path.join(tmp, 'sl%d' % k)
    for d in ('2024/config', '2024/data', '2025/data'):
        os.makedirs(os.path.join(root, d))
    with open(os.path.join(root, '2024', 'config', 'settings.yaml'), 'w') as f:
        f.write('year: 2025\nmerchants_file: config/merchants.rules\ndata_sources:\n  - name: Card\n    file: data/card.csv\n    format: "{date:%Y-%m-%d},{description},{amount}"\n')
    with open(os.path.join(root, '2024', 'config', 'merchants.rules'), 'w') as f:
        f.write('[Netflix]\nmatch: contains("NETFLIX")\ncategory: Subs\n')
    with open(os.path.join(root, '2024', 'data', 'card.csv'), 'w') as f:
        f.write('Date,Description,Amount\n' + ''.join('2024-0%d-11,OLD TOWN BAKERY,8.25\n' % m for m in (1, 2, 3)))
    new = [('ZZZ HARDWARE STORE', 2), ('PEAK CLIMBING GYM', 1), ('NETFLIX.COM', 1)]
    with open(os.path.join(root, '2025', 'data', 'card.csv'), 'w') as f:
        f.write('Date,Description,Amount\n' + ''.join('2025-01-%02d,%s,%d.40\n' % (i + 1, d, 30 + i) for i, (d, n) in enumerate(new) for _ in range(n)))
    os.symlink(os.path.join('..', '2024', 'config'), os.path.join(root, '2025', 'config'))
    cwd = os.path.join(root, '2025')
    how = rnd.choice(['relative', 'absolute'])
    cfg = 'config' if how == 'relative' else os.path.join(root, '2025', 'config')
    pu = B.tally(cwd, 'up', cfg, '--format', 'json', '-v')
    pd = B.tally(cwd, 'discover', cfg, '--format', 'json', '-n', '0')
    rec.count('cli_runs', 2)
    rec.case()
    case = {'kind': 'symlinked-config', 'how': how}
    try:
        U = B.json_from_stdout(pu.stdout)
        D = json.loads(pd.stdout[pd.stdout.index('['):]) if 'No unknown transactions found' not in pd.stdout else []
        up_unknown = Counter()
        for m in U['merchants']:
            if m['category'] == 'Unknown':
                for d, n in (m.get('raw_descriptions') or {}).items():
                    up_unknown[d] += n
        disc = Counter({x['raw_description']: x['count'] for x in D})
        rec.count('symlinked_config_checks')
        if disc != up_unknown:
            rec.violation('discover-unknown-list-differs:symlinked-config', f'config folder reached through a symbolic link ({how} path): discover lists {dict(disc)}, '
                          f'up leaves Unknown {dict(up_unknown)}', case)
        if up_unknown != Counter({'ZZZ HARDWARE STORE': 2, 'PEAK CLIMBING GYM': 1}):
            rec.violation('up-reads-another-years-data:symlinked-config', f'up leaves Unknown {dict(up_unknown)}', case)
    except Exception as e:
        rec.violation('symlinked-config-run-fails', f'{type(e).__name__}: {e}: up exit {pu.returncode} {pu.stderr[-150:]!r}; discover exit {pd.returncode} {pd.stderr[-150:]!r}', case)
    finally:
        shutil.rmtree(root, ignore_errors=True)


def judge_broken_source(rec, rnd, tmp, k):
    """One of several statement files cannot be read (another encoding, a regular-expression delimiter that does not compile, a description template
    naming a column the format does not capture): up reports it and goes on with the others; discover lists what up leaves Unknown - once."""
    root = os.path.join(tmp, 'bs%d' % k)
    os.makedirs(os.path.join(root, 'config'))
    os.makedirs(os.path.join(root, 'data'))
    fault = rnd.choice(['encoding', 'bad-delimiter', 'template'])
    order = rnd.choice(['good-first', 'good-first', 'broken-first', 'between'])
    good = {'name': 'Card', 'file': 'data/card.csv', 'format': '{date:%Y-%m-%d},{description},{amount}'}
    good2 = {'name': 'Card2', 'file': 'data/card2.csv', 'format': '{date:%Y-%m-%d},{description},{amount}'}
    bad = {'name': 'Bank', 'file': 'data/bank.csv', 'format': '{date:%Y-%m-%d},{description},{amount}'}
    with open(os.path.join(root, 'data', 'card.csv'), 'w') as f:
        f.write('Date,Description,Amount\n2025-01-03,ZZZ HARDWARE STORE,30.40\n2025-01-04,ZZZ HARDWARE STORE,12.00\n2025-01-09,PEAK CLIMBING GYM,55.00\n2025-01-11,NETFLIX.COM,15.99\n')
    with open(os.path.join(root, 'data', 'card2.csv'), 'w') as f:
        f.write('Date,Description,Amount\n2025-02-03,OLD TOWN BAKERY,8.25\n')
    if fault == 'encoding':
        with open(os.path.join(root, 'data', 'bank.csv'), 'wb') as f:
            f.write('Date,Description,Amount\n2025-01-05,CAF\xc9 M\xdcNCHEN,9.50\n2025-01-06,B\xc4CKEREI,4.20\n'.encode('cp1252'))
    else:
        with open(os.path.join(root, 'data', 'bank.csv'), 'w') as f:
            f.write('Date,Description,Amount\n2025-01-05,CORNER SHOP,9.50\n')
        if fault == 'bad-delimiter':
            bad['delimiter'] = 'regex:([a-z'
        else:
            bad['format'] = '{date:%Y-%m-%d},{memo},{amount}'
            bad['columns'] = {'description': '{memo} {nosuchcolumn}'}
    srcs = {'good-first': [good, bad], 'broken-first': [bad, good], 'between': [good, bad, good2]}[order]
    with open(os.path.join(root, 'config', 'settings.yaml'), 'w') as f:
        yaml.safe_dump({'year': 2025, 'merchants_file': 'config/merchants.rules', 'data_sources': srcs}, f, sort_keys=False)
    with open(os.path.join(root, 'config', 'merchants.rules'), 'w') as f:
        f.write('[Netflix]\nmatch: contains("NETFLIX")\ncategory: Subs\n')
    cfg = os.path.join(root, 'config')
    case = {'kind': 'broken-source', 'fault': fault, 'order': order}
    rec.case()
    pu = B.tally(root, 'up', cfg, '--format', 'json', '-v')
    pd = B.tally(root, 'discover', cfg, '--format', 'json', '-n', '0')
    rec.count('cli_runs', 2)
    try:
        try:
            U = B.json_from_stdout(pu.stdout)
        except Exception:
            rec.count('broken_source_up_gives_no_report_not_judged')          # what up owes the user here is C11's subject
            return
        up_unknown, up_total = Counter(), 0.0
        for m in U['merchants']:
            if m['category'] == 'Unknown':
                up_total += m['total']
                for d, n in (m.get('raw_descriptions') or {}).items():
                    up_unknown[d] += n
        rec.count('broken_source_checks')
        if 'No unknown transactions found' in pd.stdout:
            D = []
        else:
            try:
                D = json.loads(pd.stdout[pd.stdout.index('['):])
            except Exception:
                rec.violation('discover-fails-where-up-reports:broken-source', f'{fault} / {order}: up lists {dict(up_unknown)} as Unknown; discover: exit {pd.returncode} '
                              f'{pd.stderr[-200:]!r} {pd.stdout[:100]!r}', case)
                return
        disc = Counter({x['raw_description']: x['count'] for x in D})
        if disc != up_unknown:
            rec.violation('discover-unknown-list-differs:broken-source', f'a source that cannot be read ({fault}, {order}): discover lists {dict(disc)}, up leaves Unknown '
                          f'{dict(up_unknown)}', case)
        elif abs(sum(x['total_spend'] for x in D) - up_total) > 0.005:
            rec.violation('discover-total-differs:broken-source', f'{fault} / {order}: discover totals {sum(x["total_spend"] for x in D):.2f}, up {up_total:.2f}', case)
    finally:
        shutil.rmtree(root, ignore_errors=True)


def judge_probe(rec, rnd, tmp, k, fixed=None):
    rf = probe_rulefile(rnd)
    mode = rnd.choice(['first_match', 'first_match', 'most_specific'])
    root = os.path.join(tmp, 'p%d' % k)
    for sub in ('a', 'b'):
        os.makedirs(os.path.join(root, sub, 'config'))
        os.makedirs(os.path.join(root, sub, 'data'))
    base_rows = 'Date,Description,Amount\n2025-01-05,EXISTING VENDOR ONE,12.00\n2025-01-06,ANOTHER EXISTING THING,30.00\n2025-01-07,ZZTOP WHSE #0012 WA,%s\n' % \
        rnd.choice(['340.20', '7.00', '1250.00'])
    desc = rnd.choice(['PROBE %s STORE', '%s STORE', 'SQ *%s PROBE', 'aplpay %s', 'ZQ %s 77', 'QQQ NOTHING %s']) % rnd.choice(PROBE_WORDS + ['xx'])
    if rf.transforms and rnd.random() < .6:
        # a description the file's transform rewrites at its beginning and that (probably) no rule matches: the merchant name derived for it is
        # derived from the same text by every command
        desc = rnd.choice(['SQ *', 'APLPAY ', 'aplpay ', 'sq *']) + rnd.choice(['QQQ NOTHING xx', 'blue bottle coffee', 'ZZTOP']) + rnd.choice(['', ' 77'])
        rec.count('description_probes_rewritten_by_a_transform')
    amount = rnd.choice([5.0, 15.0, 150.0, 600.0, -30.0, -1.25, -600.0])
    forced_earlier = None
    if fixed:
        rf, mode, desc, amount = fixed[:4]
        forced_earlier = fixed[4] if len(fixed) > 4 else None
    settings = {'year': 2025, 'merchants_file': 'config/merchants.rules', 'rule_mode': mode,
                'data_sources': [{'name': 'Main', 'file': 'data/main.csv', 'format': '{date:%Y-%m-%d},{description},{amount}'}]}
    for sub in ('a', 'b'):
        with open(os.path.join(root, sub, 'config', 'settings.yaml'), 'w') as f:
            yaml.safe_dump(settings, f, sort_keys=False)
        with open(os.path.join(root, sub, 'config', 'merchants.rules'), 'w') as f:
            f.write(R.render(rf))
        with open(os.path.join(root, sub, 'data', 'main.csv'), 'w') as f:
            f.write(base_rows + ('2025-01-15,"%s",%.2f\n' % (desc, amount) if sub == 'b' else ''))
    case = {'kind': 'probe', 'rules': R.render(rf), 'mode': mode, 'desc': desc, 'amount': amount}
    rec.case()
    pu, U = up_json(os.path.join(root, 'b'), os.path.join(root, 'b', 'config'))
    earlier = []
    if rnd.random() < .4:
        # several things asked in ONE invocation: an earlier query that finds existing transactions by a piece of their statement text; the answer for
        # the description asked next is the same as when it is asked alone
        earlier = [rnd.choice(['#0012', 'WHSE #0012', 'EXISTING THING', 'ZZ NEVER SEEN ANYWHERE 99', 'ZZ NEVER SEEN ANYWHERE 99'])]      # (the last: a text no rule matches and no statement holds)
        rec.count('description_probes_after_an_earlier_query')
    if forced_earlier is not None:
        earlier = forced_earlier
    pe = B.tally(os.path.join(root, 'a'), 'explain', *earlier, desc, os.path.join(root, 'a', 'config'), '--amount', str(amount), '--format', 'json')
    rec.count('cli_runs', 2)
    if U is None:
        shutil.rmtree(root, ignore_errors=True)
        return
    rec.count('description_probe_checks')
    mu = [m for m in U['merchants'] if desc in (m.get('raw_descriptions') or {})]
    if len(mu) != 1:
        shutil.rmtree(root, ignore_errors=True)
        return
    mu = mu[0]
    T = None
    try:
        # (with an earlier query the output holds that query's answer first: take the document that answers THIS description)
        dec, pos, out = json.JSONDecoder(), 0, pe.stdout
        while True:
            pos = out.index('{', pos)
            try:
                doc, end = dec.raw_decode(out, pos)
            except ValueError:
                pos += 1
                continue
            if isinstance(doc, dict) and doc.get('original') == desc:
                T = doc
                break
            pos = end
    except ValueError:
        pass
    mech = mech_for_probe(rf, desc, amount, mode)
    if T is None:
        # explain prints "No merchant matching ... Did you mean" to stderr for unknown descriptions close to a merchant name
        if mu['category'] != 'Unknown':
            rec.violation('explain-description:' + (mech or 'no-answer'), f'explain {desc!r} --amount {amount} gave no JSON (exit {pe.returncode}, {pe.stderr[-150:]!r}); up assigns '
                          f'{(mu["name"], mu["category"], mu["subcategory"])}', case)
        shutil.rmtree(root, ignore_errors=True)
        return
    want = (mu['name'], mu['category'], mu['subcategory'], (mu.get('pattern') or {}).get('matched') if mu['category'] != 'Unknown' else None)
    got = (T.get('merchant'), T.get('category'), T.get('subcategory'), (T.get('matched_rule') or {}).get('pattern'))
    if 'is_unknown' in T and bool(T['is_unknown']) != (mu['category'] == 'Unknown'):
        rec.violation('explain-description:unknown-flag-differs', f'explain {" ".join(repr(x) for x in earlier + [desc])} --amount {amount}: the answer for {desc!r} says is_unknown={T["is_unknown"]} '
                      f'beside {got}; up assigns {want}', case)
    if got != want:
        rec.violation('explain-description:' + (mech or 'differs'), f'explain {desc!r} --amount {amount}: {got}; up assigns {want} (mode {mode})', case)
    if mech:
        rec.interesting(['probe', core.digest(case)])
    shutil.rmtree(root, ignore_errors=True)


FIXED_PROBES = [
    # the most specific rule names a merchant and no subcategory; a general rule has one (most_specific resolves each of the three on its own)
    ([('Uber', 'contains("UBER")', 'Transport', 'Rides', {}), ('Uber Big', 'contains("UBER") and amount > 100', 'Food', '', {'merchant': 'Merchant Uber 1'})], 'most_specific', 'aplpay UBER', 600.0),
    ([('Uber Big', 'contains("UBER") and amount > 100', 'Food', '', {'merchant': 'Merchant Uber 1'}), ('Uber', 'contains("UBER")', 'Transport', 'Rides', {})], 'first_match', 'UBER STORE', 150.0),
    ([('Uber', 'contains("UBER")', 'Transport', 'Rides', {}), ('Uber Big', 'contains("UBER") and amount > 100', 'Food', '', {'merchant': 'Merchant Uber 1'})], 'first_match', 'UBER STORE', 150.0),
    # a tag-only rule first, a prioritised refund rule, a general rule
    ([('Tag', 'contains("PROBE")', '', '', {'tags': ['t1']}), ('Refunds', 'contains("PROBE") and amount < 0', 'Refunds', 'Store', {'priority': 60}), ('Any', 'contains("PROBE")', 'Shopping', 'General', {})],
     'most_specific', 'SQ *xx PROBE', -30.0),
    ([('Tag', 'contains("PROBE")', '', '', {'tags': ['t1']}), ('Any', 'contains("PROBE")', 'Shopping', 'General', {}), ('Refunds', 'contains("PROBE") and amount < 0', 'Refunds', 'Store', {})],
     'first_match', 'PROBE xx STORE', -30.0),
    # a let binding decides
    ([('K', '(contains("ZQ")) and k > 20', 'Fees', 'Bank', {'lets': [('k', 'amount * 2')]}), ('Z', 'contains("ZQ")', 'Misc', 'Other', {})], 'first_match', 'ZQ xx 77', 15.0),
    ([('K', '(contains("ZQ")) and k > 20', 'Fees', 'Bank', {'lets': [('k', 'amount * 2')]}), ('Z', 'contains("ZQ")', 'Misc', 'Other', {})], 'first_match', 'ZQ xx 77', 5.0),
    # amounts in cents that have no exact binary form: --amount 49.99 is the number 49.99 of the statements
    ([('Exact', 'contains("ZQ") and amount == 49.99', 'Fees', 'Exact', {}), ('Z', 'contains("ZQ")', 'Misc', 'Other', {})], 'first_match', 'ZQ xx 77', 49.99),
    ([('Near', 'contains("ZQ") and abs(amount - 2.99) < 0.01', 'Fees', 'Near', {}), ('Z', 'contains("ZQ")', 'Misc', 'Other', {})], 'first_match', 'ZQ xx 77', 2.99),
    ([('UpTo', 'contains("ZQ") and amount <= 15.1 and amount * 2 > 30', 'Fees', 'UpTo', {}), ('Z', 'contains("ZQ")', 'Misc', 'Other', {})], 'most_specific', 'ZQ xx 77', 15.1),
]


def fixed_scenarios(rec, rnd, tmp):
    """Scenarios the random budgets only meet now and then, run on every change."""
    for i, (rules, mode, desc, amount) in enumerate(FIXED_PROBES):
        rf = R.RuleFile(variables=[], rules=[R.Rule(n, m, c, sc, **kw) for n, m, c, sc, kw in rules])
        judge_probe(rec, rnd, tmp, 9000 + i, fixed=(rf, mode, desc, amount, ['ZZ NEVER SEEN ANYWHERE 99'] if i % 2 else []))
    rec.count('fixed_description_probes', len(FIXED_PROBES))
    case = {'kind': 'fixed'}

    def mk(name, rows, rules=None, csv=None, mode=None, newest_first=False):
        root = os.path.join(tmp, 'fx-' + name)
        shutil.rmtree(root, ignore_errors=True)
        os.makedirs(os.path.join(root, 'config'))
        os.makedirs(os.path.join(root, 'data'))
        with open(os.path.join(root, 'config', 'settings.yaml'), 'w') as f:
            f.write('year: 2025\n' + ('merchants_file: config/merchants.rules\n' if rules else '') + ('rule_mode: %s\n' % mode if mode else '') +
                    'data_sources:\n  - name: Main\n    file: data/main.csv\n    format: "{date:%Y-%m-%d},{description},{amount}"\n')
        with open(os.path.join(root, 'config', 'merchants.rules' if rules else 'merchant_categories.csv'), 'w') as f:
            f.write(rules or csv)
        with open(os.path.join(root, 'data', 'main.csv'), 'w') as f:
            f.write('Date,Description,Amount\n' + ''.join('2025-01-%02d,%s,%.2f\n' % ((28 - 2 * i) if newest_first else (i + 2), d, a) for i, (d, a) in enumerate(rows)))
        return root, os.path.join(root, 'config')

    # one merchant name fed by two rules with different categories, in a statement that lists the newest payment first: explain <merchant> reports what up reports
    shared = ('[Costco Gas]\nmatch: contains("COSTCO") and amount < 60\nmerchant: Costco\ncategory: Transport\nsubcategory: Fuel\n\n'
              '[Costco]\nmatch: contains("COSTCO")\nmerchant: Costco\ncategory: Shopping\nsubcategory: Wholesale\n')
    for rows in ([('COSTCO GAS', 40.0), ('COSTCO WHSE', 200.0), ('COSTCO WHSE', 120.0)], [('COSTCO WHSE', 200.0), ('COSTCO GAS', 40.0), ('COSTCO GAS', 35.0)]):
        for newest_first in (True, False):
            root, cfg = mk('shared', rows, rules=shared, newest_first=newest_first)
            pu, U = up_json(root, cfg)
            pe = B.tally(root, 'explain', 'Costco', cfg, '--format', 'json')
            rec.count('cli_runs', 2)
            rec.count('fixed_shared_merchant_checks')
            try:
                m = [x for x in U['merchants'] if x['name'] == 'Costco'][0]
                E = json.loads(pe.stdout[pe.stdout.index('{'):])
                diffs = [(f, E.get(f), m.get(f)) for f in ('category', 'subcategory', 'total', 'count') if E.get(f) != m.get(f)]
                if (E.get('pattern') or {}).get('matched') != (m.get('pattern') or {}).get('matched'):
                    diffs.append(('pattern', (E.get('pattern') or {}).get('matched'), (m.get('pattern') or {}).get('matched')))
            except Exception as e:
                diffs = ['no answer: %s' % e]
            if diffs:
                rec.violation('explain-merchant-differs', f'merchant Costco fed by two rules, statement {"newest" if newest_first else "oldest"} first {rows}: explain vs up: {diffs}', case)
            shutil.rmtree(root, ignore_errors=True)

    # merchants whose names differ only in letter case, in both orders of first appearance: each name explains ITS merchant
    twin = ('[A]\nmatch: contains("ACME") and amount < 50\nmerchant: ACME STORE\ncategory: Transport\nsubcategory: Upper\n\n'
            '[B]\nmatch: contains("ACME")\nmerchant: Acme store\ncategory: Shopping\nsubcategory: Lower\n')
    for order in ([('ACME 1', 10.0), ('ACME 2', 80.0)], [('ACME 2', 80.0), ('ACME 1', 10.0)]):
        root, cfg = mk('twin', order + [('CORNER SHOP 12', 80.0), ('CORNER SHOP 12', -30.0), ('REFUND DESK 7', 20.0), ('REFUND DESK 7', -50.0), ('ONE OFF', -5.0)], rules=twin)
        pu, U = up_json(root, cfg)
        rec.count('cli_runs')
        if U is None:
            continue
        twins = {m['name']: (m['category'], m['count'], round(m['total'], 2)) for m in U['merchants'] if m['name'].lower() == 'acme store'}
        want_twins = {'ACME STORE': ('Transport', 1, 10.0), 'Acme store': ('Shopping', 1, 80.0)}
        rec.count('fixed_case_twin_report_checks')
        if twins != want_twins:
            rec.violation('merchants-differing-in-letter-case-are-not-kept-apart', f'rules name the merchants ACME STORE (amount < 50) and Acme store: `tally up` reports {twins}, '
                          f'expected {want_twins} (discover / explain "<description>" classify per transaction)', case)
        for m in U['merchants']:
            if m['name'] not in ('ACME STORE', 'Acme store'):
                continue
            pe = B.tally(root, 'explain', m['name'], cfg, '--format', 'json')
            rec.count('cli_runs')
            rec.count('fixed_case_twin_explain_checks')
            try:
                E = json.loads(pe.stdout[pe.stdout.index('{'):])
            except Exception:
                E = {}
            if (E.get('name'), E.get('category'), E.get('subcategory'), E.get('total')) != (m['name'], m['category'], m['subcategory'], m['total']):
                rec.violation('explain-merchant-differs', f'merchants ACME STORE / Acme store (first seen: {order[0][0]}): explain {m["name"]!r} reports '
                              f'{(E.get("name"), E.get("category"), E.get("subcategory"), E.get("total"))}, up {(m["name"], m["category"], m["subcategory"], m["total"])}', case)
        # unknown descriptions with charges AND refunds (net positive, net negative, refund only)
        pd = B.tally(root, 'discover', cfg, '--format', 'json', '-n', '0')
        rec.count('cli_runs')
        try:
            D = json.loads(pd.stdout[pd.stdout.index('['):])
        except Exception:
            D = []
        rows_by = {}
        for d, a in order + [('CORNER SHOP 12', 80.0), ('CORNER SHOP 12', -30.0), ('REFUND DESK 7', 20.0), ('REFUND DESK 7', -50.0), ('ONE OFF', -5.0)]:
            rows_by.setdefault(d, []).append(a)
        exp = [{'triple': None, 'desc': d, 'raw_amount': a} for d, al in rows_by.items() if 'ACME' not in d for a in al]
        for x in D:
            judge_discover_totals(rec, [x], exp, case)
        rec.count('fixed_discover_mixed_sign_checks', len(D))
        shutil.rmtree(root, ignore_errors=True)
    # a legacy CSV budget in most_specific mode, migrated by the very `up` run whose report explain is compared with
    root, cfg = mk('mig', [('UBER EATS 42', 25.0), ('UBER TRIP', 12.0)], csv='Pattern,Merchant,Category,Subcategory\nUBER,General Uber,Transport,Ride\nUBER.*EATS,Specific Uber,Food,Delivery\n', mode='most_specific')
    pu, U = up_json(root, cfg, migrate=True)
    rec.count('cli_runs')
    if U is not None:
        for m in U['merchants']:
            for d in (m.get('raw_descriptions') or {}):
                probe = d + ' 99'          # (a text that is not in the statements: explain traces the rules for it)
                pe = B.tally(root, 'explain', probe, cfg, '--amount', '25', '--format', 'json')
                rec.count('cli_runs')
                rec.count('fixed_migrating_run_checks')
                try:
                    E = json.loads(pe.stdout[pe.stdout.index('{'):])
                except Exception:
                    E = {}
                got = (E.get('merchant'), E.get('category'), E.get('subcategory'))
                if got != (m['name'], m['category'], m['subcategory']):
                    rec.violation('explain-differs-from-the-migrating-up-run', f'legacy CSV rules, rule_mode most_specific, `up --migrate` reports {d!r} as '
                                  f'{(m["name"], m["category"], m["subcategory"])}; explain {probe!r} right afterwards says {got}', case)
    shutil.rmtree(root, ignore_errors=True)


def run(rec, shard, nshards, t):
    core.import_tally()
    rnd = core.rng_for('C16', shard)
    tmp = tempfile.mkdtemp(prefix='vt-c16-')
    try:
        for k in range(max(1, (40 if t == 'quick' else 1500) // nshards)):
            judge(rec, rnd, tmp, k)
            for j in range(3):
                judge_probe(rec, rnd, tmp, k * 10 + j)
            judge_probe_csv(rec, rnd, tmp, k)
            judge_discover_text(rec, rnd, tmp, k)
            judge_symlinked_config(rec, rnd, tmp, k)
            judge_broken_source(rec, rnd, tmp, k)
        if shard == 0:
            rec.sample({'probe_rules': R.render(probe_rulefile(rnd))[:500]})
        if shard == nshards - 1:
            fixed_scenarios(rec, rnd, tmp)
    finally:
        shutil.rmtree(tmp, ignore_errors=True)


def replay(rec, case):
    core.import_tally()
    rnd = core.rng_for('C16', 'replay')
    tmp = tempfile.mkdtemp(prefix='vt-c16-')
    try:
        if case.get('kind') == 'gross-net-witness':
            gross_net_witness(rec, tmp)
            return
        if case.get('kind') == 'fixed':
            fixed_scenarios(rec, rnd, tmp)
            return
        if case.get('kind') == 'probe-csv-tagonly':
            for k in range(12):
                judge_probe_csv(rec, rnd, tmp, k)
            return
        for k in range(10):
            judge(rec, rnd, tmp, k)
            for j in range(3):
                judge_probe(rec, rnd, tmp, k * 10 + j)
            judge_probe_csv(rec, rnd, tmp, k)
            judge_discover_text(rec, rnd, tmp, k)
            judge_symlinked_config(rec, rnd, tmp, k)
            judge_broken_source(rec, rnd, tmp, k)
    finally:
        shutil.rmtree(tmp, ignore_errors=True)

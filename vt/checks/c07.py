"""C07 - classification depends only on the current rules and the transaction, not on history.

History vs pristine-state oracle.  A driver executes random operation sequences over a pool of rule files
(.rules A/B/C where B is a near-duplicate of A built to provoke cache confusion, legacy CSV D/E, a corrupt .rules X,
and "no file") - load / reload / classify (normalize_merchant, parse_generic_csv, MerchantEngine.match) / evaluate
expression / evaluate view filter.  Every classify and evaluate is answered a second time by a PRISTINE process
(forked from a server that imported tally and never loaded or evaluated anything) performing only the most recent
load; answers must be identical.  Deep, type-aware snapshots around every classify check that nothing is mutated.
"""
import copy
import csv
import json
import os
import shutil
import subprocess
import sys
import tempfile
from datetime import date, datetime

from vt import core, lang, rules as R, matchobs as O, world

SPEC = {
    'level': 'exploration',
    'shards': {'quick': 8, 'thorough': 16},
    'rule': ('operation sequences (40 ops quick / 80 thorough) over pools of 7 rule sources x ~30 transactions x ~12 expressions; '
             'pools contain near-duplicate expressions (letter case of case-sensitive literals, blank runs inside literals, '
             '\\d vs \\D, trailing blanks) so that a mis-keyed cache gives a different answer than a pristine process. '
             'Non-trivial = a classify/evaluate whose expression or regex was already cached when it ran, or that follows a load of a '
             'different kind (.rules -> CSV -> corrupt -> none); distinct by (previous load, current load, op, item digest)'),
    'exhaustive': {'quick': False, 'thorough': False},
    'required_counters': ['history_ops', 'classify_vs_pristine', 'eval_vs_pristine', 'expression_cache_hits', 'regex_cache_hits',
                          'immutability_snapshots', 'load_kind_transitions', 'pristine_queries', 'cached_tree_integrity_checks', 'cache_floods'],
    'assumptions': ['the pristine oracle is a process forked from a server that imported tally and did nothing else; in the thorough tier '
                    '2% of its answers are re-checked in a brand-new interpreter',
                    'transactions handed to normalize_merchant are rebuilt by it; in-place checks cover MerchantEngine.match, the rows and the rule tuples'],
}


# ---------------------------------------------------------------------------------------------- shared operation semantics
def tx_from(j):
    t = dict(j)
    if isinstance(t.get('date'), str):
        t['date'] = date.fromisoformat(t['date'][:10]) if len(t['date']) <= 10 else datetime.fromisoformat(t['date'])
    return t


def rows_to_json(rows):
    if rows is None:
        return None
    return {k: [{a: ({'$d': b.isoformat()} if isinstance(b, date) else b) for a, b in r.items()} for r in v] for k, v in rows.items()}


def rows_from_json(rows):
    if rows is None:
        return None
    return {k: [{a: (date.fromisoformat(b['$d']) if isinstance(b, dict) and '$d' in b else b) for a, b in r.items()} for r in v]
            for k, v in rows.items()}


def norm_result(m, c, s, info):
    info = info or {}
    return {'m': m, 'c': c, 's': s, 'tags': sorted(info.get('tags', [])), 'pattern': info.get('pattern'),
            'fields': {k: repr(lang.norm(v)) for k, v in (info.get('extra_fields') or {}).items()}, 'raw': info.get('raw_values')}


def do_load(path, mode, transforms_first=False):
    from tally import merchant_utils as mu
    if transforms_first and path:          # the order `tally up`, explain and discover use
        transforms = mu.get_transforms(path, match_mode=mode)
        return mu.get_all_rules(path, match_mode=mode), transforms
    rules = mu.get_all_rules(path, match_mode=mode) if path else mu.get_all_rules(match_mode=mode)
    transforms = mu.get_transforms(path, match_mode=mode) if path else []
    return rules, transforms


def do_classify(handle, txn, rows, live=False):
    from tally import merchant_utils as mu
    rules, transforms = handle
    f = txn.get('field')
    d = txn.get('date')
    if isinstance(d, datetime):
        d = d.date()
    try:
        m, c, s, info = mu.normalize_merchant(txn.get('description', ''), rules, amount=txn.get('amount'), txn_date=d,
                                              field=copy.deepcopy(f) if f else None, data_source=txn.get('source'), transforms=transforms,
                                              location=txn.get('location'), data_sources=(rows if live else O.copy_rows(rows)) if rows is not None else None)
        return norm_result(m, c, s, info)
    except Exception as e:
        return {'exception': type(e).__name__ + ': ' + str(e)[:120]}


_SHARED_SPEC = {}


def do_parse_csv(handle, txn, rows, tmpdir, live=False, earlier=()):
    from tally.format_parser import parse_format_string
    from tally.parsers import parse_generic_csv
    rules, transforms = handle
    p = os.path.join(tmpdir, 'one-%d.csv' % os.getpid())
    with open(p, 'w', newline='', encoding='utf-8') as f:
        w = csv.writer(f)
        w.writerow(['d', 'desc', 'memo', 'code', 'amt'])
        for x in list(earlier) + [txn]:          # `earlier`: rows of the same statement file that are read before the one in question
            w.writerow([x['date'].isoformat()[:10], x['description'], (x.get('field') or {}).get('memo', ''), (x.get('field') or {}).get('code', ''),
                        repr(float(x['amount']))])
    # (the long-lived process keeps ONE parsed format for all the statements of this layout, as a library caller would; the pristine process parses it anew)
    if live:
        spec = _SHARED_SPEC.get('spec') or _SHARED_SPEC.setdefault('spec', parse_format_string('{date:%Y-%m-%d},{description},{memo},{code},{amount}'))
    else:
        spec = parse_format_string('{date:%Y-%m-%d},{description},{memo},{code},{amount}')
    try:
        out = parse_generic_csv(p, spec, rules, source_name=txn.get('source') or 'CSV', transforms=transforms,
                                data_sources=(rows if live else O.copy_rows(rows)) if rows is not None else None)
    except Exception as e:
        return {'exception': type(e).__name__ + ': ' + str(e)[:120]}
    finally:
        try:
            os.unlink(p)
        except OSError:
            pass
    return [{'m': t['merchant'], 'c': t['category'], 's': t['subcategory'], 'tags': sorted(t['tags']), 'amount': t['amount'],
             'raw': t['raw_description']} for t in out]


def do_tuples(patterns, txn):
    """Rules handed to normalize_merchant as plain tuples by a library caller (patterns are ordinary strings, not read from a CSV file)."""
    from tally import merchant_utils as mu
    mu.clear_engine_cache()
    rules = [(p, 'Tuple %d' % i, 'TupleCat', 'Sub%d' % i) for i, p in enumerate(patterns)]
    try:
        m, c, s, info = mu.normalize_merchant(txn.get('description', ''), rules, amount=txn.get('amount'))
        return norm_result(m, c, s, info)
    except Exception as e:
        return {'exception': type(e).__name__ + ': ' + str(e)[:120]}


def do_explain(handle, txn):
    """`tally explain "<description>"`'s trace for a description, with the rules as loaded."""
    from tally import merchant_utils as mu
    rules, transforms = handle
    try:
        r = mu.explain_description(txn.get('description', ''), rules, amount=txn.get('amount'), transforms=transforms)
        mr = r.get('matched_rule') or {}
        return {'m': r.get('merchant'), 'c': r.get('category'), 's': r.get('subcategory'), 'unknown': r.get('is_unknown'), 'tags': sorted(mr.get('tags') or [])}
    except Exception as e:
        return {'exception': type(e).__name__ + ': ' + str(e)[:120]}


def do_loadonly(path):
    """Whether (and as how many rules) a rule file loads."""
    from tally import merchant_utils as mu
    try:
        mu.clear_engine_cache()
        return {'rules': len(mu.get_all_rules(path))}
    except Exception as e:
        return {'exception': type(e).__name__}


def do_eval(expr, txn, variables, rows):
    from tally import expr_parser as ep
    try:
        return {'v': repr(lang.norm(ep.evaluate_transaction(expr, copy.deepcopy(txn), dict(variables), O.copy_rows(rows))))}
    except ep.ExpressionError:
        return {'err': 'ExpressionError'}
    except Exception as e:
        return {'exception': type(e).__name__}


def do_engine(text, mode, txn, rows):
    from tally.merchant_engine import parse_merchants
    try:
        res = parse_merchants(text, match_mode=mode).match(copy.deepcopy(txn), data_sources=O.copy_rows(rows) if rows is not None else None)
        return {'m': res.merchant, 'c': res.category, 's': res.subcategory, 'tags': sorted(res.tags),
                'fields': {k: repr(lang.norm(v)) for k, v in res.extra_fields.items()}}
    except Exception as e:
        return {'exception': type(e).__name__ + ': ' + str(e)[:100]}


def do_view(expr, txns):
    from tally import expr_parser as ep
    try:
        return {'v': bool(ep.evaluate_filter(expr, copy.deepcopy(txns), 12, {}, {'month': 3, 'year': 1}))}
    except ep.ExpressionError:
        return {'err': 'ExpressionError'}
    except Exception as e:
        return {'exception': type(e).__name__}


def answer(q, tmpdir):
    """Perform ONLY the most recent load and then the operation (used by the pristine side)."""
    op = q['op']
    if 'rows' in q:
        q = dict(q, rows=rows_from_json(q['rows']))
    if op in ('classify', 'parse'):
        h = do_load(q['path'], q['mode'])
        if op == 'classify':
            return do_classify(h, tx_from(q['txn']), q['rows'])
        return do_parse_csv(h, tx_from(q['txn']), q['rows'], tmpdir)
    if op == 'eval':
        return do_eval(q['expr'], tx_from(q['txn']), q['vars'], q['rows'])
    if op == 'tuples':
        return do_tuples(q['patterns'], tx_from(q['txn']))
    if op == 'loadonly':
        return do_loadonly(q['path'])
    if op == 'explain':
        h = do_load(q['path'], q['mode'])
        return do_explain(h, tx_from(q['txn']))
    if op == 'engine':
        return do_engine(q['text'], q['mode'], tx_from(q['txn']), q['rows'])
    if op == 'view':
        return do_view(q['expr'], [tx_from(t) for t in q['txns']])
    raise ValueError(op)


# ---------------------------------------------------------------------------------------------- pristine server (fork based)
class Pristine:
    """Forked BEFORE the worker touches any tally state: the server imported tally and nothing else ever runs in it."""

    def __init__(self, tmpdir):
        self.tmpdir = tmpdir
        rq_r, rq_w = os.pipe()
        rs_r, rs_w = os.pipe()
        pid = os.fork()
        if pid == 0:
            os.close(rq_w)
            os.close(rs_r)
            self._serve(os.fdopen(rq_r, 'r'), os.fdopen(rs_w, 'w'))
            os._exit(0)
        os.close(rq_r)
        os.close(rs_w)
        self.pid, self.w, self.r = pid, os.fdopen(rq_w, 'w'), os.fdopen(rs_r, 'r')
        self.memo = {}
        self.queries = 0

    def _serve(self, rq, rs):
        for line in rq:
            q = json.loads(line)
            r, w = os.pipe()
            pid = os.fork()
            if pid == 0:
                try:
                    out = json.dumps(answer(q, self.tmpdir), default=str)
                except BaseException as e:
                    out = json.dumps({'oracle_error': type(e).__name__ + ': ' + str(e)[:200]})
                os.write(w, out.encode())
                os._exit(0)
            os.close(w)
            buf = b''
            while True:
                chunk = os.read(r, 65536)
                if not chunk:
                    break
                buf += chunk
            os.close(r)
            os.waitpid(pid, 0)
            rs.write((buf.decode() or json.dumps({'oracle_error': 'no answer'})) + '\n')
            rs.flush()

    def ask(self, q):
        k = core.digest(q)
        if k not in self.memo:
            self.w.write(json.dumps(q, default=str) + '\n')
            self.w.flush()
            self.memo[k] = json.loads(self.r.readline())
            self.queries += 1
        return self.memo[k]

    def close(self):
        try:
            self.w.close()
            os.waitpid(self.pid, 0)
        except Exception:
            pass


def fresh_interpreter_answer(q, tmpdir):
    env = dict(os.environ, PYTHONPATH=os.pathsep.join([core.SRC, core.VERIF]), PYTHONHASHSEED='0', PYTHONDONTWRITEBYTECODE='1')
    p = subprocess.run([core.PY, '-c', 'import sys, json; from vt.checks import c07; from vt import core; core.import_tally(); '
                        'print(json.dumps(c07.answer(json.loads(sys.stdin.read()), sys.argv[1]), default=str))', tmpdir],
                       input=json.dumps(q, default=str), capture_output=True, text=True, env=env, timeout=120)
    return json.loads(p.stdout) if p.returncode == 0 and p.stdout.strip() else {'oracle_error': p.stderr[-200:]}


# ---------------------------------------------------------------------------------------------- pools
def near_duplicate(rf, rnd):
    """A second file whose expressions differ from rf's only in ways a mis-keyed cache would conflate."""
    j = rf.to_json()
    def tweak(e):
        k = rnd.randint(0, 5)
        if k == 0:
            return e + rnd.choice([' ', '  ', '\t'])
        if k == 1:
            return e.replace('\\d', '\\D').replace('\\s', '\\S').replace('\\w', '\\W') if '\\' in e else e.replace('contains(', 'contains( ')
        if k == 2:
            return e.replace('  ', ' ') if '  ' in e else e.replace(' ', '  ', 1)
        if k == 3:
            return e.swapcase() if ('split(' in e or 'strip' in e or '.upper' in e or 'extract(' in e) and '\\' not in e else e
        if k == 4:
            return e.replace('"-"', '"*"').replace("'-'", "'*'")
        return e
    for r in j['rules']:
        r['match'] = tweak(r['match'])
        r['lets'] = [[n, tweak(e)] for n, e in r['lets']]
        r['tags'] = [('{' + tweak(t[1:-1]) + '}') if t.startswith('{') and t.endswith('}') else t for t in r['tags']]
        if rnd.random() < .3:
            r['category'] = r['category'] and r['category'] + '2'
        if rnd.random() < .4:
            r['priority'] = rnd.choice([None, 0, 10, 60, 90])     # same [name] and match: text, another priority
    j['transforms'] = [[p, tweak(e)] for p, e in j['transforms']]
    j['variables'] = [[n, tweak(e)] for n, e in j['variables']]
    out = R.RuleFile.from_json(j)
    try:
        O.load_engine(R.render(out))
        return out
    except Exception:
        return rf


CACHE_BAIT = ['contains("WHOLEFDS  MKT")', 'contains("WHOLEFDS MKT")', 'regex("^ATM\\\\s+\\\\d")', 'regex("^ATM\\\\s+\\\\D")',
              'split(description, "A", 0) == "x"', 'split(description, "a", 0) == "x"', 'contains("net")', 'contains("net") ',
              'regex("\\\\bEATS\\\\b")', 'regex("\\\\BEATS\\\\B")', 'uppercase(description) == "Netflix"', 'uppercase(description) == "NETFLIX"',
              'extract("(\\\\S+)")', 'extract("(\\\\s+)")', 'description.replace("a", "b")', 'description.replace("A", "b")',
              # the same fuzzy pattern under a lenient and a strict threshold (the lenient one may be asked first)
              'fuzzy("STARBUCKS", 0.75)', 'fuzzy("STARBUCKS", 0.95)', 'fuzzy("NETFLIX", 0.7)', 'fuzzy("NETFLIX", 0.99)']
VIEW_EXPRS = ['months >= 2', 'total > 100', 'cv < 0.5', 'sum(payments) > 50', 'max(sum(by("month"))) > 60', 'category == "Food"',
              '"a" in tags', 'count(by("month")) == months', 'total > 100 ', 'CATEGORY == "food"']
DESCS_EXTRA = ['WHOLEFDS  MKT 10234', 'WHOLEFDS MKT 10234', 'ATM 00123 WITHDRAWAL', 'ATM FEE', 'PAYMENT THANK YOU', 'PAYMENTUS CORP',
               'SQ *STARBUKS COFFEE - STARBUCKS RESERVE 12', 'NETFLX.COM NETFLIX GIFT']


ROWS7 = dict(world.ROWS,
             events=[{'when': date(2025, 1, 2), 'item': 'NETFLIX', 'amt': 12.0}, {'when': 'Pending', 'item': 'star', 'amt': 5.0}],
             events2=[{'when': 'Pending', 'item': 'star', 'amt': 5.0}, {'when': date(2025, 1, 2), 'item': 'NETFLIX', 'amt': 12.0}],
             events3=[{'when': 'n/a', 'item': 'UBER', 'amt': 7.0}])
DATE_BAIT = ['any(r.when >= "2025-01-02" for r in events)', 'any(r.when >= "2025-01-02" for r in events2)',
             'any(r.when >= "2025-01-02" for r in events3)', 'len([r for r in events2 if r.when != "2025-01-02"]) > 1',
             'next((r.item for r in events3 if r.when > "2025-01-02"), "none") == "UBER"', 'date >= "2025-01-15"',
             'len([r for r in events if r.when <= "2025-01-02"]) == 1']


def tree_integrity(rec, ep, rnd, k, where, case):
    """The parsed expressions are part of the rule set: a cached tree must still be the parse of its own source text."""
    import ast
    import warnings
    items = list(ep._expression_cache.items())
    if k and len(items) > k:
        items = rnd.sample(items, k)
    for text, tree in items:
        rec.count('cached_tree_integrity_checks')
        try:
            with warnings.catch_warnings():
                warnings.simplefilter('ignore')
                want = ast.dump(ast.parse(text, mode='eval'))
            got = ast.dump(tree)
        except Exception:
            continue
        if got != want:
            rec.violation('evaluation-alters-parsed-expression', f'{where}: the cached tree of {text!r} is no longer the parse of its text: {got[:200]}',
                          dict(case, expr=text))
            ep._expression_cache.pop(text, None)
            break


POLLUTER = ('amount = 0\nmonth = 99\nyear = 1\nbig = -1\nlabel = "polluted"\nis_big = true\nhas_memo = true\n'
            'field.description = "POLLUTED"\nfield.memo = "polluted"\n[Polluter]\nmatch: true\ncategory: Polluted\ntags: polluted\n')


def make_pool(rnd, tmp, k):
    d = os.path.join(tmp, 'pool%d' % k)
    os.makedirs(d)
    gen = R.RuleGen(rnd)
    a = gen.rule_file(nrules=rnd.randint(3, 8))
    # plant cache-bait pairs into A (first of each pair) so that B's near duplicates collide
    for i in range(0, len(CACHE_BAIT), 2):
        if rnd.random() < .35:
            a.rules.insert(rnd.randint(0, len(a.rules)), R.Rule('Bait%d' % i, CACHE_BAIT[i] if 'extract(' not in CACHE_BAIT[i] and '.replace' not in CACHE_BAIT[i] else 'len(%s) > 0' % CACHE_BAIT[i], 'BaitCat%d' % i, 'x'))
    if rnd.random() < .5:
        # rules that read the transaction's location (for statements without a location column: whatever the reader derives for THAT row)
        a.rules.insert(0, R.Rule('LocBait', rnd.choice(['txn.location == "HI"', 'txn.location != ""', 'field.location == "WA" or txn.location == "HI"']), 'LocCat', 'x', tags=['{txn.location}']))
    if rnd.random() < .6:
        e = rnd.choice(DATE_BAIT)
        a.rules.insert(rnd.randint(0, len(a.rules)), R.Rule('DateBait', rnd.choice(['contains("NETFLIX") and ', 'contains("UBER") and ', '']) + e, 'DateBaitCat', 'x'))
    if rnd.random() < .6:
        # a top-level variable that can be evaluated for some transactions only (those that have custom fields)
        a.variables = list(a.variables) + [('has_memo', 'field.memo != "zz-never"')]
        a.rules.insert(rnd.randint(0, len(a.rules)), R.Rule('VarBait', 'has_memo and amount > -1e9', 'VarBaitCat', 'x', tags=['varbait']))
    if rnd.random() < .5:
        # a winning rule whose field: values ARE supplemental rows (with their date cells): classification hands them out, it does not rewrite them
        a.rules.insert(rnd.randint(0, min(2, len(a.rules))), R.Rule('RowFields', rnd.choice(['contains("NETFLIX")', 'contains("UBER")', 'amount > 0']), 'RowFieldsCat', 'x',
                                                                  fields=[('ev', '[r for r in events]'), ('first', 'events2[1]'), ('n', 'len(events)')]))
    if rnd.random() < .5:
        # sum(lists, start) concatenates like Python's: a NEW list, the supplemental source given as the start value keeps its rows
        a.rules.insert(rnd.randint(0, min(2, len(a.rules))), R.Rule('SumStart', rnd.choice(['contains("NETFLIX") and len(everything) > 2', 'len(everything) >= 3 and amount != 0',
                                                                                            'contains("UBER") and len(sum([[x for x in events3] for r in events3], events2)) == 3']),
                                                                  'SumStartCat', 'x', lets=[('everything', 'sum([[x for x in events3] for r in events2 if r.amt > 1], events)')],
                                                                  fields=[('n_events', 'len(events)'), ('n_all', 'len(everything)')]))
    b = near_duplicate(a, rnd)
    for r in b.rules:
        if r.name.startswith('Bait'):
            i = int(r.name[4:])
            alt = CACHE_BAIT[i + 1]
            r.match = alt if 'extract(' not in alt and '.replace' not in alt else 'len(%s) > 0' % alt
            r.category = 'BaitAlt%d' % i
    c = gen.rule_file(nrules=rnd.randint(1, 6))
    if rnd.random() < .6:
        # a file WITHOUT top-level variables whose winning rule computes a field named like a built-in; a later rule reads that built-in
        c.variables = []
        for r in c.rules:
            r.match = r.match if not any(v in r.match.lower() for v in ('big', 'label')) else 'contains("COSTCO")'
            r.lets = [(n, e) for n, e in r.lets if not any(v in e.lower() for v in ('big', 'label'))]
            r.tags = [t for t in r.tags if 'label' not in t.lower() and 'big' not in t.lower()]
            if not r.category and not [t for t in r.tags if t.strip()]:
                r.tags = ['kept']
            r.fields = [(n, e) for n, e in r.fields if not any(v in e.lower() for v in ('big', 'label'))]
        c.rules.insert(0, R.Rule('FieldBait', rnd.choice(['contains("NETFLIX")', 'amount < 0', 'contains("UBER")']), 'FieldBaitCat', 'x',
                                 fields=[rnd.choice([('amount', 'abs(amount) * 100000'), ('month', '99'), ('source', '"leaked"'), ('leak', '"1"')])]))
        c.rules.insert(rnd.randint(1, len(c.rules)), R.Rule('ReadsBuiltin', rnd.choice(['amount > 50000', 'month == 99', 'source == "leaked"']), 'LeakCat', 'y'))
    files = {}
    for name, rf in (('A', a), ('B', b), ('C', c)):
        files[name] = {'path': O.write(os.path.join(d, name + '.rules'), R.render(rf)), 'kind': 'rules', 'text': R.render(rf)}
    for name in ('D', 'E'):
        # (each legacy file also holds a row limited to the last N days: its window is computed from TODAY each time it is evaluated; nothing is written back)
        body = R.render_csv(R.gen_csv_rules(rnd), rnd)
        hdr_, rest_ = body.split('\n', 1)
        # (... and a tag-only row above a categorizing row for the same text: the first adds a tag, the second decides)
        body = hdr_ + '\n' + rnd.choice(['NETFLIX', 'UBER', 'COSTCO']) + ',Tagger,,,flagged|seen\n' + rest_ + 'NETFLIX|UBER|COSTCO,Known Shop,Shops,Known,plain\n'
        files[name] = {'path': O.write(os.path.join(d, name + '.csv'), body +
                                       'RELATIVE[date:last%ddays],Recent Thing,Recent,Window,\n' % rnd.choice([30, 7, 90])), 'kind': 'csv'}
    # a legacy CSV rule file with a stray quote: everything after it is one enormous cell (beyond what the csv module accepts by default)
    huge = 'Pattern,Merchant,Category,Subcategory\nNETFLIX,Netflix,Subs,Video\nBROKEN,"Stray quote,Cat,Sub\n' + ''.join('P%d,M%d,Cat,Sub\n' % (i, i) for i in range(9000))
    pool_huge = O.write(os.path.join(d, 'H.csv'), huge)
    files['X'] = {'path': O.write(os.path.join(d, 'X.rules'), R.render(c) + '\n[Broken]\ncategory: NoMatchLine\n'), 'kind': 'corrupt'}
    files['N'] = {'path': None, 'kind': 'none'}
    txns = world.pool(rnd, 24, with_fields=False) + [world.txn(rnd, desc=x) for x in DESCS_EXTRA]
    from datetime import date as _date, timedelta as _td
    for days in (3, 20, 200):
        txns.append(dict(world.txn(rnd, desc='RELATIVE SHOP %d' % days), date=_date.today() - _td(days=days), amount=12.0))
    for t in rnd.sample(txns, 4):
        t['field'] = None                  # a source without custom columns: field.* cannot be evaluated for these
    for t in txns:
        if rnd.random() < .3 and t.get('date'):
            t['date'] = datetime(t['date'].year, t['date'].month, t['date'].day, 13, 45)
    g = lang.Gen(rnd)
    exprs = [g.expr(rnd.choice('BNS'), rnd.randint(1, 3)) for _ in range(8)] + rnd.sample(CACHE_BAIT, 6) + rnd.sample(DATE_BAIT, 3)
    return {'files': files, 'txns': txns, 'exprs': exprs, 'huge': pool_huge}


def typed_snapshot(x):
    return repr(core.jsonable(x)) + '|' + repr(x)


def run_sequence(rec, pool, pr, rnd, nops, tmp, fresh_rate):
    from tally import expr_parser as ep, merchant_utils as mu
    cur, handle, mode, prev_kind = None, None, 'first_match', None
    rows = ROWS7
    names = sorted(pool['files'])
    shared_rows = None
    flood_at = rnd.randrange(nops) if rnd.random() < .25 else -1
    flood_salt = rnd.randrange(10 ** 6)
    flooded = []
    for step in range(nops):
        rec.count('history_ops')
        if step:
            tree_integrity(rec, ep, rnd, 12, 'after step %d' % (step - 1), {'kind': 'history', 'step': step})
        op = rnd.choice(['load', 'load', 'classify', 'classify', 'classify', 'parse', 'parse', 'eval', 'eval', 'engine', 'view', 'reload', 'tuples', 'explain'])
        if flood_at == step:
            # a long-lived process has seen many distinct expressions and regular expressions (a big migrated rule file, many files):
            # whatever bounded or keyed cache sits behind them, later answers must not change
            nflood = rnd.choice([300, 700, 1500])
            t0 = {'description': 'FLOOD', 'amount': 1.0}
            for i in range(nflood):
                e = 'regex("Fl%dod%d") or contains("fl%d")' % (i, flood_salt, i)
                flooded.append((e, 'Fl%dod%d' % (i, flood_salt)))
                try:
                    ep.evaluate_transaction(e, t0)
                except Exception:
                    pass
            rec.count('cache_floods')
            rec.count('cache_flood_expressions', nflood)
            # ... in particular a regular expression never seen before, written in another letter case than the statement text
            e3 = rnd.choice(['regex("netflix(%d)?")', 'regex("^uBeR(%d)?")', 'regex("costco|%d")', 'len(extract("(star.?bucks)(%d)?")) > 0']) % flood_salt
            t3 = rnd.choice([t for t in pool['txns'] if t.get('description')] or pool['txns'])
            flooded.append((e3, e3.split('"')[1]))
            got3 = do_eval(e3, t3, {}, rows)
            want3 = pr.ask({'op': 'eval', 'expr': e3, 'txn': O.jtxn(t3), 'vars': {}, 'rows': rows_to_json(rows)})
            rec.count('eval_vs_pristine')
            if got3 != want3 and 'oracle_error' not in want3:
                rec.violation('history-dependent-evaluation:after-many-distinct-expressions', f'{e3!r} on {t3.get("description")!r} after {nflood} other regular expressions: '
                              f'{got3} here, {want3} in a pristine process', {'kind': 'history', 'step': step, 'expr': e3, 'txn': O.jtxn(t3)})
        if op == 'tuples' and rnd.random() < .25:
            # whether a rule file loads at all is part of the answer too: the same (oversized) file, here and in a pristine process
            got7 = do_loadonly(pool['huge'])
            want7 = pr.ask({'op': 'loadonly', 'path': pool['huge']})
            rec.count('oversized_rule_file_loads_vs_pristine')
            if 'oracle_error' not in want7 and got7 != want7:
                rec.violation('history-dependent-rule-file-loading', f'step {step}: loading a CSV rule file with an oversized cell gives {got7} here, {want7} in a pristine process',
                              {'kind': 'history', 'step': step})
            cur = None
            continue
        if op == 'tuples':
            # the SAME pattern texts a legacy CSV file of this pool may hold, handed over as plain strings: what they mean here does not depend on whether a
            # CSV file with that text was loaded before (and the other way round: the CSV loads and classifications that follow are compared as always)
            pats = rnd.sample(['(AMZN|COSTCO)', 'NETFLIX and chill', 'A or B', 'amount>5', 'NETFLIX', 'UBER\\s*EATS', '(?i)costco', 'contains\\('], rnd.randint(1, 3))
            t5 = rnd.choice(pool['txns'])
            got5 = do_tuples(pats, t5)
            want5 = pr.ask({'op': 'tuples', 'patterns': pats, 'txn': O.jtxn(t5)})
            rec.count('tuple_rule_classifications_vs_pristine')
            if 'oracle_error' not in want5 and got5 != want5:
                rec.violation('history-dependent-classification:plain-tuple-rules', f'step {step}: plain tuple rules {pats} on {t5.get("description")!r} give {got5}; a pristine '
                              f'process gives {want5}', {'kind': 'history', 'step': step})
            cur = None          # (the engine cache was cleared: the next operation loads a file again)
            continue
        if cur is None or op == 'load':
            nm = rnd.choice(names)
            mode = rnd.choice(['first_match', 'first_match', 'most_specific'])
            f = pool['files'][nm]
            handle = do_load(f['path'], mode, transforms_first=rnd.random() < .5)
            if prev_kind is not None and prev_kind != f['kind']:
                rec.count('load_kind_transitions')
                rec.count('transition:%s->%s' % (prev_kind, f['kind']))
            prev_prev, prev_kind, cur = prev_kind, f['kind'], nm
            continue
        f = pool['files'][cur]
        if f['kind'] == 'rules' and rnd.random() < .2:
            # another part of the program reads the same file for its own purpose (as `tally diag` and the validity check of `tally up` do, with the default
            # mode): a pure read - the rule set in use stays the one that was loaded, in the mode it was loaded with
            try:
                from pathlib import Path as _P
                from tally.merchant_engine import load_merchants_file as _lmf
                _lmf(_P(f['path']))
                rec.count('same_file_read_again_by_another_reader')
            except Exception:
                pass
        if op == 'reload':
            if f['kind'] == 'rules' and rnd.random() < .6:
                # the user EDITS the rules file in place (a transform line added or removed at the top) and the same path is loaded again
                line = 'field.description = regex_replace(field.description, "^(SQ \\\\*|AMZN Mktp )", "")\n'
                f['text'] = f['text'][len(line):] if f['text'].startswith(line) else line + f['text']
                O.write(f['path'], f['text'])
                f['rev'] = f.get('rev', 0) + 1
                rec.count('rules_files_edited_in_place_and_reloaded')
            handle = do_load(f['path'], mode, transforms_first=rnd.random() < .7)
            continue
        txn = rnd.choice(pool['txns'])
        case_base = {'kind': 'history', 'file': cur, 'file_kind': f['kind'], 'mode': mode, 'step': step}
        if op == 'explain':
            # asking HOW a description would be classified is a question: it changes neither the loaded rules nor any later answer
            if f['kind'] not in ('rules', 'csv') or handle is None:
                continue
            snap = typed_snapshot(handle[0])
            got8 = do_explain(handle, txn)
            want8 = pr.ask({'op': 'explain', 'path': f['path'], 'mode': mode, 'txn': O.jtxn(txn), 'rev': f.get('rev', 0)})
            rec.count('explain_traces_vs_pristine')
            if typed_snapshot(handle[0]) != snap:
                rec.violation('explain-mutates-rules', f'explain_description after load {cur} ({f["kind"]}): the loaded rule tuples changed', dict(case_base, txn=O.jtxn(txn)))
            if 'oracle_error' not in want8 and got8 != want8:
                rec.violation('history-dependent-classification:explain', f'step {step}: explain_description of {txn.get("description")!r} after loading {cur} gives {got8}; a pristine '
                              f'process gives {want8}', dict(case_base, txn=O.jtxn(txn)))
            continue
        if op in ('classify', 'parse'):
            if op == 'parse' and (not txn.get('date') or not txn['description'].strip() or txn['amount'] == 0):
                op = 'classify'
            rows_here = rows if rnd.random() < .75 else None          # a caller without supplemental data (the default of normalize_merchant)
            rules_snap, rows_live = typed_snapshot(handle[0]), copy.deepcopy(rows_here)
            if rows_here is not None and rnd.random() < .3:
                # the caller keeps ONE mapping of supplemental sources for the whole run and replaces a source in it (an export that was read again):
                # the classification that follows sees the mapping as it is NOW
                if shared_rows is None:
                    shared_rows = copy.deepcopy(ROWS7)
                src = rnd.choice(['events', 'events2', 'events3'])
                base = copy.deepcopy(ROWS7[src])
                shared_rows[src] = rnd.choice([[], base[::-1], base[1:], [dict(r, when=date(2025, 1, 20)) for r in base], [dict(r, item='UBER', amt=7.0) for r in base], base])
                rows_here, rows_live = shared_rows, shared_rows
                rec.count('classifications_after_replacing_a_supplemental_source_in_place')
            rows_snap = typed_snapshot(rows_live)
            cached_before = len(ep._expression_cache)
            earlier = []
            if op == 'parse' and rnd.random() < .6:
                # the row is not the first of its statement: rows read before it in the same file (look-alikes that differ only in a custom column, and others)
                from vt import world as _w
                for _ in range(rnd.randint(1, 3)):
                    if rnd.random() < .7:
                        u = copy.deepcopy(txn)
                        u['field'] = dict(u.get('field') or {}, **rnd.choice([{'memo': rnd.choice(_w.MEMOS).strip()}, {'code': rnd.choice(_w.CODES).strip()},
                                                                                  {'memo': rnd.choice(_w.MEMOS).strip(), 'code': rnd.choice(_w.CODES).strip()}]))
                    else:
                        u = rnd.choice(pool['txns'])
                    if rnd.random() < .3:
                        u = dict(copy.deepcopy(u), description=(u.get('description') or 'SHOP').rstrip() + rnd.choice([' HI', ' WA', '  NY']))    # an earlier row that ends in a state code
                    if u.get('date') and (u.get('description') or '').strip() and u.get('amount') and '\n' not in u['description']:
                        earlier.append(u)
                rec.count('rows_parsed_after_earlier_rows_of_the_same_file', 1 if earlier else 0)
            got = do_classify(handle, txn, rows_live, live=True) if op == 'classify' else do_parse_csv(handle, txn, rows_live, tmp, live=True, earlier=earlier)      # the very objects that are snapshotted
            if earlier and isinstance(got, list):
                got = got[len(earlier):] if len(got) == len(earlier) + 1 else {'rows_read': len(got), 'rows_written': len(earlier) + 1}
            rec.count('immutability_snapshots')
            if typed_snapshot(handle[0]) != rules_snap or typed_snapshot(rows_live) != rows_snap:
                rec.violation('classify-mutates-rules-or-rows', f'{op} after load {cur}: rule tuples or supplemental rows changed', dict(case_base, txn=O.jtxn(txn)))
            if rows_here is None:
                rec.count('classify_without_supplemental_data')
            q = {'op': op, 'path': f['path'], 'mode': mode, 'txn': O.jtxn(txn), 'rows': rows_to_json(rows_here), 'rev': f.get('rev', 0)}
            want = pr.ask(q)
            rec.count('pristine_queries_asked')
            rec.count('classify_vs_pristine')
            if 'oracle_error' in want:
                rec.unsure('pristine oracle failed: ' + want['oracle_error'])
                continue
            if got != want:
                rec.violation('history-dependent-classification:%s' % f['kind'],
                              f'step {step}: {op} of {txn.get("description")!r} after loading {cur} ({f["kind"]}, {mode}) gives {got}; a pristine '
                              f'process doing only that load gives {want}', dict(case_base, txn=O.jtxn(txn), got=got, want=want, path_text=open(f['path']).read() if f['path'] else None))
            elif fresh_rate and rnd.random() < fresh_rate:
                w2 = fresh_interpreter_answer(q, tmp)
                rec.count('fresh_interpreter_crosschecks')
                if w2 != want and 'oracle_error' not in w2:
                    rec.violation('pristine-fork-differs-from-fresh-interpreter', f'{want} vs {w2}', dict(case_base, txn=O.jtxn(txn)))
            rec.interesting(['c', prev_kind, f['kind'], op, core.digest(O.jtxn(txn)), cur])
        elif op == 'eval':
            e = rnd.choice(pool['exprs'])
            variables = {'big': 500, 'is_big': False, 'label': 'Amex'}
            if e in ep._expression_cache:
                rec.count('expression_cache_hits')
            rc_before = len(ep._regex_cache)
            got = do_eval(e, txn, variables, rows)
            want = pr.ask({'op': 'eval', 'expr': e, 'txn': O.jtxn(txn), 'vars': variables, 'rows': rows_to_json(rows)})
            rec.count('eval_vs_pristine')
            if 'regex(' in e and len(ep._regex_cache) == rc_before:
                rec.count('regex_cache_hits')
            if got != want and 'oracle_error' not in want:
                rec.violation('history-dependent-evaluation', f'step {step}: {e!r} on {txn.get("description")!r}: {got} here, {want} in a pristine process',
                              dict(case_base, txn=O.jtxn(txn), expr=e))
            rec.interesting(['e', e, core.digest(O.jtxn(txn))])
            if rnd.random() < .3:
                # the caller keeps ONE transaction dict, evaluates, edits source / location / custom fields in place and evaluates again:
                # the second answer is that of the edited transaction (as a pristine process gives it), not of what the dict held before
                live = copy.deepcopy(txn)
                e2 = rnd.choice(['source == "Chase"', 'source', 'txn.location == "NY"', 'field.memo == "edited"', 'exists(field.extra)', 'txn.source != source'])
                try:
                    ep.evaluate_transaction(e2, live, dict(variables), O.copy_rows(rows))
                except Exception:
                    pass
                which = rnd.randrange(3)
                if which == 0:
                    live['source'] = 'Chase'
                elif which == 1:
                    live['location'] = 'NY'
                else:
                    live['field'] = {'memo': 'edited', 'code': 'c', 'extra': 'x'}
                try:
                    got2 = {'v': repr(lang.norm(ep.evaluate_transaction(e2, live, dict(variables), O.copy_rows(rows))))}
                except ep.ExpressionError:
                    got2 = {'err': 'ExpressionError'}
                except Exception as ex:
                    got2 = {'exception': type(ex).__name__}
                want2 = pr.ask({'op': 'eval', 'expr': e2, 'txn': O.jtxn(live), 'vars': variables, 'rows': rows_to_json(rows)})
                rec.count('edited_in_place_evaluations')
                if got2 != want2 and 'oracle_error' not in want2:
                    rec.violation('evaluation-remembers-the-transaction-it-saw-before', f'{e2!r} after editing the same dict in place: {got2}; pristine process on the edited '
                                  f'transaction: {want2}', dict(case_base, txn=O.jtxn(live), expr=e2))
        elif op == 'engine' and f['kind'] == 'rules':
            t_live = copy.deepcopy(txn)
            snap = typed_snapshot(t_live)
            from tally.merchant_engine import parse_merchants
            eng = parse_merchants(f['text'], match_mode=mode)
            esnap = typed_snapshot([(r.name, r.match_expr, sorted(r.tags), r.let_bindings, r.fields) for r in eng.rules]) + typed_snapshot(eng.variables) + typed_snapshot(eng.transforms)
            rows_live = copy.deepcopy(rows)
            rsnap = typed_snapshot(rows_live)
            try:
                res = eng.match(t_live, data_sources=rows_live)
                got = {'m': res.merchant, 'c': res.category, 's': res.subcategory, 'tags': sorted(res.tags),
                       'fields': {k: repr(lang.norm(v)) for k, v in res.extra_fields.items()}}
            except Exception as e:
                got = {'exception': type(e).__name__ + ': ' + str(e)[:100]}
            rec.count('immutability_snapshots')
            if typed_snapshot(t_live) != snap:
                rec.violation('match-mutates-transaction', f'MerchantEngine.match changed the transaction: {snap[:200]} -> {typed_snapshot(t_live)[:200]}',
                              dict(case_base, txn=O.jtxn(txn)))
            if rsnap != typed_snapshot(rows_live):
                rec.violation('match-mutates-rows', 'MerchantEngine.match changed the supplemental rows', dict(case_base, txn=O.jtxn(txn)))
            after = typed_snapshot([(r.name, r.match_expr, sorted(r.tags), r.let_bindings, r.fields) for r in eng.rules]) + typed_snapshot(eng.variables) + typed_snapshot(eng.transforms)
            if after != esnap:
                rec.violation('match-mutates-rule-set', 'MerchantEngine.match changed the engine rules/variables/transforms', dict(case_base, txn=O.jtxn(txn)))
            want = pr.ask({'op': 'engine', 'text': f['text'], 'mode': mode, 'txn': O.jtxn(txn), 'rows': rows_to_json(rows)})
            rec.count('classify_vs_pristine')
            if got != want and 'oracle_error' not in want:
                rec.violation('history-dependent-classification:engine', f'step {step}: MerchantEngine.match {got} vs pristine {want}', dict(case_base, txn=O.jtxn(txn)))
            # one engine object re-used for a second load must behave like a new one
            others = [v for k, v in pool['files'].items() if v['kind'] == 'rules' and k != cur]
            if others:
                try:
                    # the engine object first held another file - one of the pool, or one whose variables shadow built-in names and whose
                    # transforms rewrite the description (anything left over from it would show at once)
                    eng2 = parse_merchants(rnd.choice(others)['text'] if rnd.random() < .5 else POLLUTER, match_mode=mode)
                    eng2.parse(f['text'])
                    r5 = eng2.match(copy.deepcopy(txn), data_sources=copy.deepcopy(rows))
                    re_got = {'m': r5.merchant, 'c': r5.category, 's': r5.subcategory, 'tags': sorted(r5.tags),
                              'fields': {k: repr(lang.norm(v)) for k, v in r5.extra_fields.items()}}
                    rec.count('engine_reparse_checks')
                    if re_got != want and 'oracle_error' not in want and 'exception' not in want:
                        rec.violation('reloaded-engine-keeps-old-state', f'engine.parse(other) then engine.parse(this): {re_got} vs pristine {want}',
                                      dict(case_base, txn=O.jtxn(txn)))
                except Exception:
                    pass
            # ... and re-used for a file that has been EMPTIED (nothing, blanks, comments only): it holds no rule, no variable and no transform afterwards
            try:
                blank = rnd.choice(['', '\n', '   \n\n', '# all rules removed for now\n'])
                eng.parse(blank)
                r7 = eng.match(copy.deepcopy(txn), data_sources=copy.deepcopy(rows))
                rec.count('engine_reloaded_with_an_emptied_file')
                if eng.rules or eng.variables or eng.transforms or r7.matched or r7.tags:
                    rec.violation('reloaded-engine-keeps-old-state', f'engine.parse({blank!r}) after a file with {len(eng.rules)} rules: the engine still holds rules / variables / '
                                  f'transforms and classifies {txn.get("description")!r} as {(r7.merchant, r7.category, sorted(r7.tags))}', dict(case_base, txn=O.jtxn(txn)))
                eng.parse(f['text'])
            except Exception:
                pass
            # the same engine object asked WITHOUT supplemental data after it was asked with it
            try:
                r6 = eng.match(copy.deepcopy(txn), data_sources=None)
                got6 = {'m': r6.merchant, 'c': r6.category, 's': r6.subcategory, 'tags': sorted(r6.tags),
                        'fields': {k: repr(lang.norm(v)) for k, v in r6.extra_fields.items()}}
            except Exception as e:
                got6 = {'exception': type(e).__name__ + ': ' + str(e)[:100]}
            want6 = pr.ask({'op': 'engine', 'text': f['text'], 'mode': mode, 'txn': O.jtxn(txn), 'rows': None})
            rec.count('engine_without_data_after_with_data')
            if got6 != want6 and 'oracle_error' not in want6:
                rec.violation('engine-remembers-supplemental-data', f'match(data_sources=None) after match(data_sources=rows): {got6} vs pristine {want6}',
                              dict(case_base, txn=O.jtxn(txn)))
            # the same engine object asked twice must answer the same (no per-engine memory of earlier items)
            try:
                res2 = eng.match(copy.deepcopy(rnd.choice(pool['txns'])), data_sources=copy.deepcopy(rows))
                res3 = eng.match(copy.deepcopy(txn), data_sources=copy.deepcopy(rows))
                again = {'m': res3.merchant, 'c': res3.category, 's': res3.subcategory, 'tags': sorted(res3.tags),
                         'fields': {k: repr(lang.norm(v)) for k, v in res3.extra_fields.items()}}
                if again != got and 'exception' not in got:
                    rec.violation('engine-remembers-earlier-items', f'same engine, same transaction: {got} then {again}', dict(case_base, txn=O.jtxn(txn)))
            except Exception:
                pass
        elif op == 'view':
            e = rnd.choice(VIEW_EXPRS)
            vt = [{'amount': 50.0 + i, 'date': datetime(2025, 1 + i % 3, 15), 'category': 'Food', 'subcategory': 'S', 'merchant': 'M', 'tags': ['a']} for i in range(4)]
            if e in ep._expression_cache:
                rec.count('expression_cache_hits')
            got = do_view(e, vt)
            want = pr.ask({'op': 'view', 'expr': e, 'txns': [O.jtxn(t) for t in vt]})
            rec.count('eval_vs_pristine')
            if got != want and 'oracle_error' not in want:
                rec.violation('history-dependent-view-filter', f'{e!r}: {got} vs pristine {want}', dict(case_base, expr=e))

    # the flood's own entries are dropped again at the end of the sequence (absent ones - evicted by a bounded cache - are simply skipped):
    # the process keeps running thousands of sequences and the monitors' cost must not grow with them
    for e, pat in flooded:
        ep._expression_cache.pop(e, None)
        ep._regex_cache.pop(pat, None)


def duplicate_supplemental_probe(rec, tmp):
    """Two supplemental sources under ONE name (an export per year): whatever the loader makes of them, the data handed to the rules can be read as
    often as there are transactions - classifying the same transaction again, or another one after it, gives what a freshly loaded copy gives."""
    from tally.config_loader import load_config, load_supplemental_sources
    from tally.merchant_engine import parse_merchants
    root = os.path.join(tmp, 'dupsupp')
    shutil.rmtree(root, ignore_errors=True)
    os.makedirs(os.path.join(root, 'config'))
    os.makedirs(os.path.join(root, 'data'))
    for y, rows_ in (('2024', '2024-03-02,20.00,Book\n2024-05-09,7.50,Cable\n'), ('2025', '2025-01-04,20.00,Lamp\n2025-02-11,99.00,Chair\n')):
        O.write(os.path.join(root, 'data', 'orders-%s.csv' % y), 'Date,Amount,Item\n' + rows_)
    O.write(os.path.join(root, 'data', 'card.csv'), 'Date,Description,Amount\n2025-01-05,AMAZON MKTP,20.00\n')
    O.write(os.path.join(root, 'config', 'settings.yaml'), 'year: 2025\ndata_sources:\n  - name: Card\n    file: data/card.csv\n    format: "{date:%Y-%m-%d},{description},{amount}"\n' +
            ''.join('  - name: Orders\n    file: data/orders-%s.csv\n    supplemental: true\n    format: "{date:%%Y-%%m-%%d},{amount},{description}"\n' % y for y in ('2024', '2025')))
    cfgd = os.path.join(root, 'config')
    text = ('[Ordered]\nlet: hits = [r for r in orders if r.amount == amount]\nmatch: contains("AMAZON") and len(hits) > 0\ncategory: Shopping\nsubcategory: Ordered\n'
            'field: items = [r.description for r in hits]\ntags: {len(hits)}\n\n[Amazon]\nmatch: contains("AMAZON")\ncategory: Shopping\nsubcategory: Other\n')
    txns = [{'description': 'AMAZON MKTP 1', 'amount': 20.0, 'date': date(2025, 1, 5), 'field': None, 'source': 'Card'},
            {'description': 'AMAZON MKTP 2', 'amount': 99.0, 'date': date(2025, 2, 12), 'field': None, 'source': 'Card'},
            {'description': 'AMAZON MKTP 1', 'amount': 20.0, 'date': date(2025, 1, 5), 'field': None, 'source': 'Card'}]
    try:
        loaded = load_supplemental_sources(load_config(cfgd), cfgd)
        eng = parse_merchants(text)
        for k, t_ in enumerate(txns):
            def surf(ds):
                r = eng.match(copy.deepcopy(t_), data_sources=ds)
                return (r.merchant, r.category, r.subcategory, sorted(r.tags), repr(sorted(r.extra_fields.items())))
            got = surf(loaded)
            want = surf(load_supplemental_sources(load_config(cfgd), cfgd))
            rec.case()
            rec.count('duplicate_supplemental_source_checks')
            if got != want:
                rec.violation('supplemental-data-used-up-by-earlier-classifications', f'two supplemental sources named Orders: transaction #{k} ({t_["description"]}, {t_["amount"]}) classified with the '
                              f'data loaded once gives {got}; with freshly loaded data {want}', {'kind': 'dup-supplemental'})
                break
    except Exception as e:
        rec.unsure('duplicate supplemental probe failed: %s: %s' % (type(e).__name__, e))
    finally:
        shutil.rmtree(root, ignore_errors=True)


TWO_BUDGETS_CHILD = """
import contextlib, io, json, os, sys
sys.path.insert(0, sys.argv[1])
from tally import cli
outs = []
for bud in sys.argv[2:]:
    os.chdir(bud)
    sys.argv = ['tally', 'up', '--format', 'json', '-q']
    buf = io.StringIO()
    with contextlib.redirect_stdout(buf):
        try:
            cli.main()
        except SystemExit:
            pass
    try:
        js = json.loads(buf.getvalue()[buf.getvalue().index('{'):])
        outs.append(sorted((m['name'], m['category']) for m in js['merchants']))
    except Exception as e:
        outs.append('no report: %s' % buf.getvalue()[-200:])
sys.__stdout__.write(json.dumps(outs))
"""


def two_budgets_one_process(rec, tmp):
    """Two budgets reported one after the other by ONE process (a script that drives tally.cli.main): each is classified with its own rules, whichever kind of rule
    file (.rules / legacy CSV) the budget before it used."""
    import subprocess
    root = os.path.join(tmp, 'twob')
    shutil.rmtree(root, ignore_errors=True)
    kinds = {'r1': ('rules', 'FromRulesOne'), 'c1': ('csv', 'FromCsvOne'), 'r2': ('rules', 'FromRulesTwo'), 'c2': ('csv', 'FromCsvTwo')}
    for nm, (kind, cat) in kinds.items():
        os.makedirs(os.path.join(root, nm, 'config'))
        os.makedirs(os.path.join(root, nm, 'data'))
        with open(os.path.join(root, nm, 'config', 'settings.yaml'), 'w') as f:
            f.write('year: 2025\n' + ('merchants_file: config/merchants.rules\n' if kind == 'rules' else '') +
                    'data_sources:\n  - name: Card\n    file: data/card.csv\n    format: "{date:%Y-%m-%d},{description},{amount}"\n')
        if kind == 'rules':
            with open(os.path.join(root, nm, 'config', 'merchants.rules'), 'w') as f:
                f.write('[Netflix %s]\nmatch: contains("NETFLIX")\ncategory: %s\n' % (nm, cat))
        else:
            with open(os.path.join(root, nm, 'config', 'merchant_categories.csv'), 'w') as f:
                f.write('Pattern,Merchant,Category,Subcategory\nNETFLIX,Netflix %s,%s,Sub\n' % (nm, cat))
        with open(os.path.join(root, nm, 'data', 'card.csv'), 'w') as f:
            f.write('Date,Description,Amount\n2025-01-03,NETFLIX.COM,15.99\n')
    for order in (['r1', 'c1', 'r2', 'c2'], ['c1', 'r1', 'c2', 'c1'], ['r1', 'r2', 'c1']):
        env = dict(os.environ, PYTHONDONTWRITEBYTECODE='1', NO_COLOR='1')
        env.pop('TALLY_CONFIG', None)
        p = subprocess.run([core.PY, '-c', TWO_BUDGETS_CHILD, core.SRC] + [os.path.join(root, nm) for nm in order], capture_output=True, text=True, stdin=subprocess.DEVNULL, env=env, timeout=300)
        rec.case()
        rec.count('budget_sequences_reported_by_one_process')
        try:
            outs = json.loads(p.stdout)
        except Exception:
            rec.unsure('two-budgets child gave no result: ' + (p.stderr or p.stdout)[-200:])
            continue
        want = [[['Netflix ' + nm, kinds[nm][1]]] for nm in order]
        if outs != want:
            k = next(i for i, (a, b) in enumerate(zip(outs, want)) if a != b)
            rec.violation('history-dependent-classification:budget-after-budget', f'budgets {order} reported by one process (tally.cli.main, `up --format json -q` in each): budget '
                          f'#{k} ({order[k]}, {kinds[order[k]][0]} rules) is reported as {outs[k]}, its own rules give {want[k]}', {'kind': 'two-budgets'})
            break
    shutil.rmtree(root, ignore_errors=True)


def bait_pair_sweep(rec, pr, rnd):
    """Deterministic part of the history oracle: every pair of near-duplicate expressions (another letter case, another blank, another threshold) is
    evaluated back to back, in a random order of the two, on every bait description - each answer must be the pristine process's."""
    from tally import expr_parser as ep
    variables = {'big': 500, 'is_big': False, 'label': 'Amex'}
    txns = [world.txn(rnd, desc=x) for x in DESCS_EXTRA + ['NETFLIX.COM', 'Netflix', 'UBER EATS', 'BEATS BY DRE']]
    for i in range(0, len(CACHE_BAIT), 2):
        for txn in txns:
            pair = [CACHE_BAIT[i], CACHE_BAIT[i + 1]]
            rnd.shuffle(pair)
            for e in pair:
                got = do_eval(e, txn, variables, ROWS7)
                want = pr.ask({'op': 'eval', 'expr': e, 'txn': O.jtxn(txn), 'vars': variables, 'rows': rows_to_json(ROWS7)})
                rec.count('eval_vs_pristine')
                rec.count('bait_pair_evaluations')
                if got != want and 'oracle_error' not in want:
                    rec.violation('history-dependent-evaluation', f'bait sweep: {e!r} (asked after/before {pair}) on {txn.get("description")!r}: {got} here, {want} in a pristine process',
                                  {'kind': 'history', 'txn': O.jtxn(txn), 'expr': e})


def run(rec, shard, nshards, t):
    tmp = tempfile.mkdtemp(prefix='vt-c07-')
    core.import_tally()
    import tally.merchant_utils, tally.merchant_engine, tally.expr_parser, tally.parsers, tally.format_parser, tally.section_engine  # noqa
    pr = Pristine(tmp)          # forked now: nothing has been loaded or evaluated in this process yet
    try:
        rnd = core.rng_for('C07', shard)
        nseq = (200 if t == 'quick' else 10000) // nshards
        nops = 40 if t == 'quick' else 80
        pool = None
        for i in range(nseq):
            rec.case()
            if pool is None or i % 5 == 0:
                pool = make_pool(rnd, tmp, i)
                pr.memo.clear()
            run_sequence(rec, pool, pr, rnd, nops, tmp, 0.02 if t != 'quick' else (0.004 if shard == 0 else 0))
            if i < 1 and shard == 0:
                rec.sample({'pool_files': {k: v['kind'] for k, v in pool['files'].items()}, 'expressions': pool['exprs'][:5]})
        bait_pair_sweep(rec, pr, rnd)
        rec.count('pristine_queries', pr.queries)
        if shard == 0:
            duplicate_supplemental_probe(rec, tmp)
            two_budgets_one_process(rec, tmp)
    finally:
        pr.close()
        shutil.rmtree(tmp, ignore_errors=True)


def replay(rec, case):
    tmp = tempfile.mkdtemp(prefix='vt-c07-')
    core.import_tally()
    pr = Pristine(tmp)
    try:
        rnd = core.rng_for('C07', 'replay')
        if case.get('kind') == 'dup-supplemental':
            duplicate_supplemental_probe(rec, tmp)
            return
        if case.get('kind') == 'two-budgets':
            two_budgets_one_process(rec, tmp)
            return
        for i in range(20):
            pool = make_pool(rnd, tmp, i)
            pr.memo.clear()
            run_sequence(rec, pool, pr, rnd, 80, tmp, 0)
        bait_pair_sweep(rec, pr, rnd)
    finally:
        pr.close()
        shutil.rmtree(tmp, ignore_errors=True)

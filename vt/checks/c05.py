"""C05 - every well-formed statement row becomes exactly one transaction, faithfully.

Rows are generated FROM A MODEL (intended date / description / number / custom cells, or a labelled malformation) and only
then rendered to text under a chosen layout, delimiter, quoting, header, decimal convention and sign mode, so the expected
transaction list is known by construction.  The spec is built by the real parse_format_string + resolve_source_format and
the file is read by the real parse_generic_csv.  Metamorphic: deleting / inserting malformed rows never changes the others.
"""
import calendar
import csv
import io
import math
import os
import shutil
import tempfile
from datetime import datetime

from vt import core

SPEC = {
    'level': 'exploration',
    'shards': {'quick': 8, 'thorough': 16},
    'rule': ('files of 0-25 rows rendered from a row model: layouts (column order, skip columns {_}/{*}, extra fields next to '
             '{description}, custom captures + description template, location column), delimiters (comma, ; | tab, regex with 3-5 groups '
             'incl. an optional group), quoting with embedded delimiters/quotes/newlines, Unicode, blanks around cells, header or not, both '
             'decimal conventions, sign modes ({amount}, {-amount}, {+amount}, negate_amount: true), CRLF/LF row ends; malformed classes: short '
             'row (1..k cells missing), long row, blank line, bad date (wrong format / impossible day / empty), empty or blank description, '
             'non-numeric amount, zero amount in several spellings, non-finite amount. Non-trivial = file with >=1 malformed row adjacent to a '
             'well-formed one or >=1 quoted cell with an embedded delimiter/newline; distinct by file digest'),
    'exhaustive': {'quick': False, 'thorough': False},
    'required_counters': ['files_parsed', 'rows_expected', 'rows_malformed', 'metamorphic_delete_checks', 'metamorphic_insert_checks',
                          'regex_delimiter_files', 'template_mode_files', 'european_decimal_files', 'twin_source_sets'],
    'assumptions': ['files are read in text mode with universal newlines, so line breaks embedded in quoted cells are generated as \\n only',
                    'cells whose numeric reading the statement does not settle are not generated: 1e3, 1_000, 1,234.56 under the European '
                    'convention, trailing text after a date, {+amount} together with negate_amount: true, byte-order marks'],
}

DESCS = ['STARBUCKS #123', 'AMAZON, INC', 'He said "hi"', 'Café Ünïcode 東京', '  padded  ', 'line\nbreak', 'semi;colon|pipe\ttab', 'x',
         '</script>', '=SUM(A1)', "O'Reilly", 'UBER *EATS 8005928996 CA', '{curly} {0}', 'a,b;c|d', '"quoted"', 'tab\there', '-', '0', 'nan',
         'WIDGET WORLD\n\nREF 998877', 'blank\n  \ninside', 'ends with newline\n',
         # characters str.splitlines() treats as line ends although neither file iteration nor the csv module does
         'line\u2028sep', 'para\u2029sep', 'nel\x85x', 'form\x0cfeed', 'fs\x1cx', 'vt\x0bx']
FIELD_VALS = ['', ' v1 ', 'WA', 'a b', 'ACH', 'x,y', '"q"', 'Ünï', '{z}', '0', 'u\u2028v', 'n\x85l', 'for {memo} order', '{type}', 'see {merchant}', '{{memo}}', '{']
DATE_FORMATS = ['%m/%d/%Y', '%Y-%m-%d', '%d.%m.%Y', '%d %b %y', '%b %d, %Y', '%Y%m%d', '%m/%d/%y']


def amount_cell(rnd, x, conv):
    neg = x < 0
    a = abs(x)
    s = '%.2f' % a
    if round(a, 2) != a:
        s = ('%.6f' % a).rstrip('0')
    ip, fr = s.split('.')
    style = rnd.randint(0, 6)
    if rnd.random() < .2 and fr.endswith('0'):
        fr = rnd.choice([fr[0], fr + '0'])        # the same number written with one or three decimals (12.5 / 12.500)
    if style in (1, 3) and len(ip) > 3:
        sep = ',' if conv == '.' else rnd.choice(['.', ' '])
        parts = []
        while len(ip) > 3:
            parts.insert(0, ip[-3:])
            ip = ip[:-3]
        ip = sep.join([ip] + parts)
    body = ip + conv + fr if (rnd.random() < .8 or fr.strip('0')) else ip
    paren = neg and rnd.random() < .3
    plus = (not neg) and rnd.random() < .08
    if style in (2, 3):
        # a blank between symbol and digits only when no sign character precedes the symbol ("- 5.00" is not a documented spelling)
        gap = ' ' if (style == 3 and not plus and (not neg or paren)) else ''
        body = rnd.choice('$€£¥') + gap + body
    if neg:
        body = '(' + body + ')' if paren else '-' + body
    elif plus:
        body = '+' + body
    if rnd.random() < .2:
        body = ' ' + body + ' '
    return body


def gen_layout(rnd):
    mode = rnd.choice(['simple', 'simple', 'extra', 'template'])
    roles = ['date', 'amount']
    if mode == 'simple':
        roles.append('description')
    elif mode == 'extra':
        roles += ['description'] + rnd.sample(['memo', 'code', 'cardholder'], rnd.randint(1, 2))
    else:
        roles += rnd.sample(['merchant', 'type', 'memo'], rnd.randint(1, 3))
    if rnd.random() < .3:
        roles.append('location')
    for _ in range(rnd.randint(0, 3)):
        roles.append(rnd.choice(['_', '*']))
    rnd.shuffle(roles)
    sign = rnd.choice(['', '', '-', '+'])
    dfmt = rnd.choice(DATE_FORMATS)
    toks = []
    for r in roles:
        if r == 'date':
            toks.append('{%s:%s}' % (rnd.choice(['date', 'Date']), dfmt))
        elif r == 'amount':
            toks.append('{%samount}' % sign)
        elif r in ('_', '*', 'description', 'location'):
            toks.append('{%s}' % r)
        else:
            # custom column names are case-insensitive (copied from the bank's header row: {Memo}, {CARDHOLDER}); rules and templates read them in lower case
            toks.append('{%s}' % rnd.choice([r, r, r.title(), r.upper()]))
    fmt = rnd.choice([',', ', ', ' , ']).join(toks)
    template = None
    if mode == 'template':
        caps = [r for r in roles if r in ('merchant', 'type', 'memo')]
        template = rnd.choice(['{%s}' % caps[0], ' - '.join('{%s}' % c for c in caps), '{%s} (%s)' % (caps[0], '{' + caps[-1] + '}'), 'X {%s}' % caps[-1]])
    return {'mode': mode, 'roles': roles, 'sign': sign, 'dfmt': dfmt, 'fmt': fmt, 'template': template}


def date_cell_matches(cell, dfmt):
    """Does the cell text match the configured strptime format (a trailing day-name suffix is allowed when the format has no blank)?"""
    c = cell.strip()
    if not c:
        return False
    if ' ' not in dfmt:
        c = c.split()[0]
    try:
        datetime.strptime(c, dfmt)
        return True
    except ValueError:
        return False


def gen_rows(rnd, lay, conv, n, short_ok=True):
    """Returns list of {'kind', 'cells': [...], 'exp': expected txn or None}."""
    roles = lay['roles']
    ncols = len(roles)
    needed = max(j for j, r in enumerate(roles) if r not in ('_', '*'))
    out = []
    for i in range(n):
        kind = rnd.choices(['ok', 'short', 'long', 'blank', 'baddate', 'emptydesc', 'badamt', 'zero', 'nonfinite'], [12, 1, 1, 1, 1, 1, 1, 1, 1])[0]
        if kind == 'short' and not short_ok:
            kind = 'ok'
        yy, mm = rnd.choice([2023, 2024, 2025]), rnd.randint(1, 12)
        dt = datetime(yy, mm, rnd.randint(1, calendar.monthrange(yy, mm)[1]))          # month ends included
        if rnd.random() < .04:
            dt = rnd.choice([datetime(2024, 2, 29), datetime(2024, 2, 15), datetime(2024, 12, 31), datetime(2025, 1, 1)])
        desc = rnd.choice(DESCS)
        x = round(rnd.choice([1, -1]) * rnd.choice([0.01, 5, 12.5, 999.99, 1234.56, 1234567.8, 1000, 0.1, 20.0, 1.5, 2.25, 1500, 2250, 12500, 1.0]), 2)
        if rnd.random() < .06:
            x = rnd.choice([1, -1]) * rnd.choice([1.239, 0.004, 1234.5678, 0.0049, 9.705])       # the number written in the cell, however many decimals it has
        cells, fields = [''] * ncols, {}
        rawrow = False
        for j, r in enumerate(roles):
            if r == 'date':
                if kind != 'baddate':
                    cells[j] = dt.strftime(lay['dfmt'])
                    if rnd.random() < .12 and lay['dfmt'] in ('%m/%d/%Y', '%Y-%m-%d', '%d.%m.%Y', '%m/%d/%y'):
                        # the same date written without zero padding matches the format too (strptime semantics)
                        cells[j] = lay['dfmt'].replace('%m', str(dt.month)).replace('%d', str(dt.day)).replace('%Y', str(dt.year)).replace('%y', '%02d' % (dt.year % 100))
                    if rnd.random() < .15:
                        cells[j] = ' ' + cells[j] + ' '
                else:
                    # cells that do not match THIS format (other spellings of a date included)
                    bad = [c for c in ['13/45/2025', '', 'yesterday', '2025-13-01', '31.02.2025', '00/00/0000', '20240110', '2024-01-11T08:15:00', '2024-W02-3',
                                       '2024-01-11+00:00', '2024-011', '01/02/2024', '2024/01/02', '1.2.2024', 'Jan 5, 2024', '2024-02-30']
                           if not date_cell_matches(c, lay['dfmt'])]
                    cells[j] = rnd.choice(bad)
            elif r == 'description':
                cells[j] = desc if kind != 'emptydesc' else rnd.choice(['', '   ', '\t'])
                if kind == 'ok' and rnd.random() < .05:
                    # written by a bank, not by a csv library: a blank after the delimiter, then a quote mark that belongs to the text
                    desc = rnd.choice(['"BIG" BURGER', "'N' OUT", '"UNCLOSED DINER', '12" PIZZA'])
                    cells[j] = ' ' + desc
                    rawrow = True
            elif r == 'amount':
                if kind == 'badamt':
                    cells[j] = rnd.choice(['abc', '', '--', '12x', '$', 'N/A', '1.2.3' if conv == '.' else 'x,y', '()', ' '])
                elif kind == 'zero':
                    cells[j] = rnd.choice(['0', '0.00', '(0.00)', '-0', '$0.00', '0.0']) if conv == '.' else rnd.choice(['0', '0,00', '-0,0', '€0,00'])
                elif kind == 'nonfinite':
                    cells[j] = rnd.choice(['nan', 'inf', '-inf', 'Infinity', 'NaN', '-Infinity', '(inf)', '$nan'])
                else:
                    cells[j] = amount_cell(rnd, x, conv)
            elif r in ('_', '*'):
                cells[j] = rnd.choice(['', 'junk', '1,2', 'x;y', '"'])
            elif r == 'location':
                cells[j] = rnd.choice(['', ' WA ', 'Seattle, WA', 'NY'])
            else:
                cells[j] = rnd.choice(FIELD_VALS)
                if kind == 'emptydesc' and lay['mode'] == 'template':
                    cells[j] = rnd.choice(['', '  '])
                fields[r] = cells[j].strip()
        exp = None
        if kind in ('ok', 'long', 'emptydesc'):
            if lay['mode'] == 'template':
                description = lay['template'].format(**fields)
            else:
                description = desc.strip() if kind != 'emptydesc' else ''
            if description and not (lay['mode'] != 'template' and kind == 'emptydesc'):
                amt = x
                if lay['sign'] == '+':
                    amt = abs(amt)
                elif lay['sign'] == '-' or lay.get('negate_setting'):
                    amt = -amt
                loc = None
                if 'location' in roles:
                    loc = cells[roles.index('location')].strip() or None
                exp = {'date': dt, 'desc': description, 'amount': amt, 'field': fields or None, 'location_cell': loc}
        row = list(cells)
        if kind == 'short':
            row = row[:needed - rnd.choice([0, 0, 1, 2]) if needed > 0 else 0]
            row = row[:max(0, len(row))]
        elif kind == 'long':
            row = row + ['extra'] * rnd.randint(1, 3)
        elif kind == 'blank':
            row = []
        out.append({'kind': kind if not (kind == 'emptydesc' and exp) else 'ok', 'cells': row, 'exp': exp, 'raw': rawrow})
    return out


def render_csv(rows, header, ncols, dl, lineterm):
    buf = io.StringIO()
    w = csv.writer(buf, delimiter=dl, lineterminator=lineterm)
    if header:
        w.writerow(['H%d' % i for i in range(ncols)])
    for r in rows:
        if r['cells'] == []:
            buf.write(lineterm)
        elif r.get('raw') and not any((dl in c) or ('\n' in c) or ('\r' in c) or c.startswith('"') for c in r['cells']):
            buf.write(dl.join(r['cells']) + lineterm)          # unquoted, exactly as the cells read
        else:
            w.writerow(r['cells'])
    return buf.getvalue()


def build_source(lay, conv, delim, hdr, rnd):
    src = {'name': 'Src', 'file': 'x', 'format': lay['fmt']}
    if lay['template']:
        src['columns'] = {'description': lay['template']}
    if delim:
        src['delimiter'] = delim
    if not hdr or rnd.random() < .5:
        # (YAML flags are also written 0 / 1 by people and by tools that generate settings files)
        src['has_header'] = hdr if rnd.random() < .75 else int(hdr)
    if conv == ',':
        src['decimal_separator'] = ','
    if lay.get('negate_setting'):
        src['negate_amount'] = True if rnd.random() < .75 else 1
    return src


def parse(path, src):
    from tally.config_loader import resolve_source_format
    from tally.parsers import parse_generic_csv
    rs = resolve_source_format(src)
    return parse_generic_csv(path, rs['_format_spec'], [], source_name=src['name'], decimal_separator=rs.get('decimal_separator', '.'))


def compare(got, exp, check_location=True):
    if len(got) != len(exp):
        return 'count %d != expected %d' % (len(got), len(exp))
    for i, (g, e) in enumerate(zip(got, exp)):
        if g['date'] != e['date']:
            return 'row %d date %r != %r' % (i, g['date'], e['date'])
        if g['raw_description'] != e['desc']:
            return 'row %d description %r != %r' % (i, g['raw_description'], e['desc'])
        if not (isinstance(g['amount'], float) or isinstance(g['amount'], int)) or not math.isclose(g['amount'], e['amount'], rel_tol=1e-12, abs_tol=1e-12):
            return 'row %d amount %r != %r' % (i, g['amount'], e['amount'])
        if g['field'] != e['field']:
            return 'row %d field %r != %r' % (i, g['field'], e['field'])
        if g['source'] != 'Src':
            return 'row %d source %r' % (i, g['source'])
        if g['is_credit'] != (e['amount'] < 0):
            return 'row %d is_credit %r for amount %r' % (i, g['is_credit'], e['amount'])
        if check_location and e['location_cell'] and g['location'] != e['location_cell']:
            return 'row %d location %r != %r' % (i, g['location'], e['location_cell'])
    return None


def classify(diff, rows, got, exp):
    kinds = {r['kind'] for r in rows}
    if any(isinstance(t['amount'], float) and not math.isfinite(t['amount']) for t in got):
        return 'non-finite-amount-becomes-transaction'
    if diff.startswith('count'):
        return 'row-count-differs' + (':more' if len(got) > len(exp) else ':fewer')
    return 'row-' + diff.split(' ')[2] + '-differs'


def judge_csv_case(rec, rnd, tmp, t):
    lay = gen_layout(rnd)
    conv = rnd.choice(['.', '.', ','])
    delim = rnd.choice([None, None, ';', '|', 'tab', '\t', ','])
    hdr = rnd.random() < .7
    if rnd.random() < .15:
        lay['negate_setting'] = True          # with {+amount} the absolute value still wins; with {-amount} it is one flip, not two
    rows = gen_rows(rnd, lay, conv, rnd.randint(0, 25))
    src = build_source(lay, conv, delim, hdr, rnd)
    dl = {None: ',', 'tab': '\t'}.get(delim, delim)
    lineterm = rnd.choice(['\n', '\n', '\r\n'])
    text = render_csv(rows, hdr, len(lay['roles']), dl, lineterm)
    if hdr and rnd.random() < .08:
        # the one line that `has_header` skips is the FIRST LINE of the file, whatever it holds: here an empty line (a text export that starts with one)
        text = lineterm + text.split(lineterm, 1)[1] if lineterm in text else text
        rec.count('files_whose_header_line_is_blank')
    case = {'kind': 'csv', 'source': src, 'text': text, 'roles': lay['roles']}
    path = os.path.join(tmp, 'f.csv')
    with open(path, 'w', encoding='utf-8', newline='') as f:
        f.write(text)
    exp = [r['exp'] for r in rows if r['exp']]
    rec.case()
    try:
        got = parse(path, src)
    except Exception as e:
        rec.violation('parse-raises:' + type(e).__name__, f'{type(e).__name__}: {e} for format {src["format"]!r}', case)
        return
    rec.count('files_parsed')
    rec.count('rows_expected', len(exp))
    rec.count('rows_malformed', sum(1 for r in rows if not r['exp']))
    for r in rows:
        rec.count('kind:' + r['kind'])
    if conv == ',':
        rec.count('european_decimal_files')
    if lay['mode'] == 'template':
        rec.count('template_mode_files')
    diff = compare(got, exp)
    if diff:
        rec.violation(classify(diff, rows, got, exp), f'{diff}; format {src["format"]!r} delimiter={delim!r} header={hdr} decimal={conv!r} '
                      f'template={lay["template"]!r}', case)
        return
    adj = any((not a['exp']) != (not b['exp']) for a, b in zip(rows, rows[1:]))
    emb = any(any(ch in c for ch in (dl, '\n', '"')) for r in rows for c in r['cells'])
    if adj or emb:
        rec.interesting(core.digest(case))
    # metamorphic 1: delete all malformed rows
    good = [r for r in rows if r['exp']]
    if len(good) < len(rows):
        with open(path, 'w', encoding='utf-8', newline='') as f:
            f.write(render_csv(good, hdr, len(lay['roles']), dl, lineterm))
        g2 = parse(path, src)
        rec.count('metamorphic_delete_checks')
        if [(x['date'], x['raw_description'], x['amount'], x['field']) for x in g2] != [(x['date'], x['raw_description'], x['amount'], x['field']) for x in got]:
            rec.violation('malformed-row-changes-neighbours:delete', 'removing the malformed rows changes the other transactions', case)
    # metamorphic 2: insert extra malformed rows
    bad_pool = [r for r in gen_rows(rnd, lay, conv, 12) if not r['exp']]
    if bad_pool:
        mixed = list(rows)
        for b in bad_pool[:rnd.randint(1, 4)]:
            mixed.insert(rnd.randint(0, len(mixed)), b)
        t3 = render_csv(mixed, hdr, len(lay['roles']), dl, lineterm)
        with open(path, 'w', encoding='utf-8', newline='') as f:
            f.write(t3)
        g3 = parse(path, src)
        rec.count('metamorphic_insert_checks')
        if [(x['date'], x['raw_description'], x['amount'], x['field']) for x in g3] != [(x['date'], x['raw_description'], x['amount'], x['field']) for x in got]:
            rec.violation('malformed-row-changes-neighbours:insert', 'inserting malformed rows changes the other transactions', dict(case, text=t3))


def judge_regex_case(rec, rnd, tmp):
    """regex: delimiter - lines built so that well-formed ones match by construction; 4th group is optional."""
    optional = rnd.random() < .6
    pat = r'^(\d{2}/\d{2}/\d{4})\s+(.+?)\s+(-?[\d,]+\.\d{2})' + (r'(?:\s+([A-Z]{3}))?$' if optional else r'\s+([A-Z]{3})$')
    if rnd.random() < .5:
        pat = pat[1:]          # written without ^: the pattern still describes the LINE (a record starts at the beginning of its line)
    fmt = '{date:%m/%d/%Y}, {description}, {amount}, {code}'
    hdr = rnd.random() < .5
    src = {'name': 'Src', 'file': 'x', 'format': fmt, 'delimiter': 'regex:' + pat, 'has_header': hdr}
    lines, exp = [], []
    if hdr:
        lines.append('Date        Description      Amount  Code')
    for i in range(rnd.randint(0, 20)):
        dt = datetime(2025, rnd.randint(1, 12), rnd.randint(1, 28))
        desc = rnd.choice(['ACME STORE 12', 'Café Ünï', 'CHECK 1042', 'A B C', 'PAYMENT - THANK YOU', 'X'])
        x = round(rnd.choice([1, -1]) * rnd.choice([5, 12.5, 999.99, 1234.56]), 2)
        amt = ('-' if x < 0 else '') + '{:,.2f}'.format(abs(x))
        code = rnd.choice(['USD', 'EUR', None, None])
        kind = rnd.choices(['ok', 'nomatch', 'baddate', 'blank', 'zero'], [10, 1, 1, 1, 1])[0]
        if kind == 'blank':
            lines.append(rnd.choice(['', '   ']))
            continue
        if kind == 'nomatch':
            lines.append(rnd.choice(['TOTAL 12 items', '-- page 2 --', 'Opening balance 100.00', 'Pending: 01/06/2025  HOTEL HOLD  250.00  USD',
                                     'page 3 of 7   02/11/2025  CARRIED FORWARD   1,000.00  EUR', '* 03/01/2025  NOTE ONLY  5.00  USD']))
            continue
        ds = dt.strftime('%m/%d/%Y') if kind != 'baddate' else '13/45/2025'
        if kind == 'zero':
            amt = '0.00'
        line = '%s  %s   %s' % (ds, desc, amt) + ('  %s' % code if code else '')
        lines.append(line)
        if code is None and not optional:
            continue            # line does not match the pattern at all
        if kind == 'ok':
            exp.append({'date': dt, 'desc': desc, 'amount': x, 'field': {'code': code or ''}, 'location_cell': None})
    text = '\n'.join(lines) + ('\n' if lines else '')
    path = os.path.join(tmp, 'r.txt')
    with open(path, 'w', encoding='utf-8', newline='') as f:
        f.write(text)
    case = {'kind': 'regex', 'source': src, 'text': text}
    rec.case()
    try:
        got = parse(path, src)
    except Exception as e:
        key = 'regex-delimiter-optional-group-aborts-source' if optional and isinstance(e, AttributeError) else 'parse-raises:' + type(e).__name__
        rec.violation(key, f'{type(e).__name__}: {e} (regex delimiter, optional group={optional})', case)
        return
    rec.count('files_parsed')
    rec.count('regex_delimiter_files')
    rec.count('rows_expected', len(exp))
    diff = compare(got, exp)
    if diff:
        rec.violation('regex-delimiter-' + classify(diff, [], got, exp), f'{diff}; optional group={optional}', case)
    elif optional and any(e['field']['code'] == '' for e in exp):
        rec.interesting(core.digest(case))


def judge_twin_sources(rec, rnd, tmp):
    """Several sources with the SAME format string but their own delimiter / header / negate settings, resolved in one go
    (as load_config does) and then parsed: each file must be read with its own source's settings."""
    from tally.config_loader import resolve_source_format
    from tally.parsers import parse_generic_csv
    lay = gen_layout(rnd)
    srcs = []
    for i in range(rnd.randint(2, 3)):
        conv = rnd.choice(['.', ','])
        delim = rnd.choice([None, ';', '|', 'tab'])
        hdr = rnd.random() < .5
        lay_i = dict(lay)
        lay_i.pop('negate_setting', None)
        if rnd.random() < .5:
            lay_i['negate_setting'] = True
        rows = gen_rows(rnd, lay_i, conv, rnd.randint(2, 8))
        src = build_source(lay_i, conv, delim, hdr, rnd)
        src['has_header'] = hdr
        src['name'] = 'Src'
        dl = {None: ',', 'tab': '\t'}.get(delim, delim)
        path = os.path.join(tmp, 'twin%d.csv' % i)
        with open(path, 'w', encoding='utf-8', newline='') as f:
            f.write(render_csv(rows, hdr, len(lay['roles']), dl, '\n'))
        srcs.append((src, path, [r['exp'] for r in rows if r['exp']]))
    resolved = [resolve_source_format(s) for s, _, _ in srcs]          # all resolved first, as load_config does
    rec.case()
    rec.count('twin_source_sets')
    for rs, (src, path, exp) in zip(resolved, srcs):
        try:
            got = parse_generic_csv(path, rs['_format_spec'], [], source_name='Src', decimal_separator=rs.get('decimal_separator', '.'))
        except Exception as e:
            rec.violation('parse-raises:' + type(e).__name__, f'twin sources: {type(e).__name__}: {e}', {'kind': 'twin', 'sources': [s for s, _, _ in srcs]})
            return
        diff = compare(got, exp)
        if diff:
            rec.violation('settings-of-another-source-applied', f'sources sharing the format {src["format"]!r} but with their own settings '
                          f'{[{k: v for k, v in s.items() if k in ("delimiter", "has_header", "negate_amount", "decimal_separator")} for s, _, _ in srcs]}: {diff}',
                          {'kind': 'twin', 'sources': [s for s, _, _ in srcs]})
            return
    rec.interesting(['twin', core.digest([s for s, _, _ in srcs])])
    if rnd.random() < .03:
        # the same files through `tally up` (settings.yaml lists the sources in this order): every source is still read with ITS OWN settings
        import yaml
        from collections import Counter
        from vt import budget as B
        root = os.path.join(tmp, 'twincli')
        shutil.rmtree(root, ignore_errors=True)
        os.makedirs(os.path.join(root, 'config'))
        os.makedirs(os.path.join(root, 'data'))
        ds = []
        for i, (src, path, exp) in enumerate(srcs):
            shutil.copy(path, os.path.join(root, 'data', 'twin%d.csv' % i))
            ds.append(dict(src, name='Src%d' % i, file='data/twin%d.csv' % i))
        with open(os.path.join(root, 'config', 'settings.yaml'), 'w', encoding='utf-8') as f:
            yaml.safe_dump({'year': 2025, 'data_sources': ds}, f, allow_unicode=True, sort_keys=False)
        p = B.tally(root, 'up', os.path.join(root, 'config'), '-q')
        rec.count('twin_source_sets_through_the_cli')
        case = {'kind': 'twin', 'sources': [s_ for s_, _, _ in srcs]}
        try:
            per = {}
            for t_ in B.html_transactions(B.html_data(os.path.join(root, 'output', 'spending_summary.html'))):
                per.setdefault(t_[0], Counter())[round(t_[5], 6)] += 1
            for i, (src, path, exp) in enumerate(srcs):
                want = Counter(round(float(e['amount']), 6) for e in exp)
                if per.get('Src%d' % i, Counter()) != want:
                    rec.violation('settings-of-another-source-applied:tally-up', f'tally up, source {i} of {len(srcs)} with settings '
                                  f'{[{k: v for k, v in s_.items() if k in ("delimiter", "has_header", "negate_amount", "decimal_separator")} for s_, _, _ in srcs]}: amounts '
                                  f'{sorted(per.get("Src%d" % i, Counter()).elements())[:6]} vs expected {sorted(want.elements())[:6]}', case)
                    break
        except Exception as e:
            if any(exp for _, _, exp in srcs):
                rec.violation('twin-sources-cli-run-fails', f'{type(e).__name__}: {e}; exit {p.returncode} {p.stderr[-200:]!r}', case)
        finally:
            shutil.rmtree(root, ignore_errors=True)


def run(rec, shard, nshards, t):
    core.import_tally()
    rnd = core.rng_for('C05', shard)
    tmp = tempfile.mkdtemp(prefix='vt-c05-')
    try:
        n = (2000 if t == 'quick' else 200000) // nshards
        for i in range(n):
            judge_csv_case(rec, rnd, tmp, t)
            if i % 5 == 0:
                judge_regex_case(rec, rnd, tmp)
            if i % 4 == 0:
                judge_twin_sources(rec, rnd, tmp)
        if shard == 0:
            lay = gen_layout(rnd)
            rows = gen_rows(rnd, lay, '.', 4)
            rec.sample({'format': lay['fmt'], 'template': lay['template'], 'file': render_csv(rows, True, len(lay['roles']), ',', '\n'),
                        'kinds': [r['kind'] for r in rows]})
            witnesses(rec, tmp)
            locale_probe(rec, tmp)
            tz_probe(rec, tmp)
    finally:
        shutil.rmtree(tmp, ignore_errors=True)


LOCALE_CHILD = """
import json, sys
sys.path.insert(0, sys.argv[1])
from tally.config_loader import resolve_source_format
from tally.parsers import parse_generic_csv
src = json.loads(sys.argv[3])
rs = resolve_source_format(src)
got = parse_generic_csv(sys.argv[2], rs['_format_spec'], [], source_name=src['name'], decimal_separator=rs.get('decimal_separator', '.'))
sys.stdout.buffer.write(json.dumps([[t['date'].isoformat(), t['raw_description'], t['amount'], t.get('field')] for t in got]).encode('ascii'))
"""


def locale_probe(rec, tmp):
    """Statement files are UTF-8 whatever the locale of the process that reads them: the same file read by a process started under LC_ALL=C (no UTF-8
    mode) gives the same transactions as here."""
    import json as _json
    import subprocess
    p = os.path.join(tmp, 'loc.csv')
    cases = [({'name': 'Src', 'file': 'x', 'format': '{date:%Y-%m-%d},{description},{amount},{memo}'},
              'Date,Description,Amount,Memo\n2025-01-03,CAF\u00c9 BLEU,4.50,\u00fcber\n2025-01-04,PLAIN,5.00,x\n2025-01-05,\u017bABKA Z5123,6.00,\u8cb7\u3044\u7269\n'),
             ({'name': 'Src', 'file': 'x', 'format': '{date:%d.%m.%Y},{description},{amount}', 'delimiter': 'tab', 'decimal_separator': ','},
              'Datum\tText\tBetrag\n03.01.2025\tB\u00e4ckerei M\u00fcller\t4,50\n04.01.2025\tPLAIN\t5,00\n'),
             ({'name': 'Src', 'file': 'x', 'format': '{date:%m/%d/%Y},{description},{amount}', 'has_header': False,
               'delimiter': r'regex:^(\d{2}/\d{2}/\d{4})\s+(.+?)\s+([\d.]+)$'}, '01/02/2025  CAF\u00c9 \U0001f355  5.00\n01/03/2025  BETA  6.00\n')]
    env = dict(os.environ, LC_ALL='C', LANG='C', PYTHONUTF8='0', PYTHONCOERCECLOCALE='0')
    env.pop('PYTHONIOENCODING', None)
    for src, text in cases:
        with open(p, 'w', encoding='utf-8', newline='') as f:
            f.write(text)
        here = [[t['date'].isoformat(), t['raw_description'], t['amount'], t.get('field')] for t in parse(p, src)]
        r = subprocess.run([core.PY, '-c', LOCALE_CHILD, core.SRC, p, _json.dumps(src)], capture_output=True, env=env, timeout=120)
        rec.case()
        rec.count('files_read_under_a_non_utf8_locale')
        try:
            there = _json.loads(r.stdout.decode('ascii'))
        except Exception:
            there = 'exit %d: %s' % (r.returncode, r.stderr.decode('utf-8', 'replace')[-200:])
        if there != _json.loads(_json.dumps(here)):
            rec.violation('statement-read-depends-on-locale', f'format {src["format"]!r}: {len(here)} transactions here, under LC_ALL=C: {str(there)[:200]}', {'kind': 'locale'})


def tz_probe(rec, tmp):
    """Date cells that carry a UTC offset (bank API exports): the transaction's date is the calendar date WRITTEN in the cell - an evening purchase on 31 January
    belongs to January wherever the reader's clock is."""
    p = os.path.join(tmp, 'tz.csv')
    rows = [('2025-01-31T21:15:00-0500', (2025, 1, 31)), ('2024-02-29T23:59:00-0800', (2024, 2, 29)), ('2024-12-31T20:00:00-0600', (2024, 12, 31)),
            ('2025-03-01T00:30:00+0900', (2025, 3, 1)), ('2025-06-15T12:00:00+0000', (2025, 6, 15)), ('2025-07-01T00:00:00+1400', (2025, 7, 1))]
    with open(p, 'w', newline='') as f:
        f.write('When,What,Amount\n' + ''.join('%s,SHOP %d,%d.00\n' % (c, i, 10 + i) for i, (c, _) in enumerate(rows)))
    for tz in (None, 'TLY+12', 'TLY-14'):
        old_tz = os.environ.get('TZ')
        try:
            if tz:
                os.environ['TZ'] = tz
                import time as _time
                _time.tzset()
            got = parse(p, {'name': 'Src', 'file': 'x', 'format': '{date:%Y-%m-%dT%H:%M:%S%z},{description},{amount}'})
        except Exception as e:
            rec.violation('offset-dated-rows-abort-source', f'{type(e).__name__}: {e}', {'kind': 'tz'})
            return
        finally:
            if tz:
                if old_tz is None:
                    os.environ.pop('TZ', None)
                else:
                    os.environ['TZ'] = old_tz
                _time.tzset()
        rec.case()
        rec.count('offset_dated_files_read')
        dates = [(t['date'].year, t['date'].month, t['date'].day) for t in got]
        if dates != [d for _, d in rows]:
            rec.violation('row-date-differs:utc-offset', f'process TZ {tz}: cells {[c for c, _ in rows]} read as dates {dates}', {'kind': 'tz'})
            return


def witnesses(rec, tmp):
    """Regression witnesses of the two repaired defects."""
    p = os.path.join(tmp, 'w.csv')
    with open(p, 'w', newline='') as f:
        f.write('D,Desc,Amt\n01/02/2025,A,nan\n01/03/2025,B,inf\n01/04/2025,C,5.00\n')
    got = parse(p, {'name': 'Src', 'file': 'x', 'format': '{date:%m/%d/%Y},{description},{amount}'})
    if len(got) != 1:
        rec.violation('non-finite-amount-becomes-transaction', f'witness: {[(t["raw_description"], t["amount"]) for t in got]}', {'kind': 'witness'})
    with open(p, 'w', newline='') as f:
        f.write('01/02/2025  ACME  5.00  USD\n01/03/2025  BETA  6.00\n')
    src = {'name': 'Src', 'file': 'x', 'format': '{date:%m/%d/%Y},{description},{amount},{code}', 'has_header': False,
           'delimiter': r'regex:^(\d{2}/\d{2}/\d{4})\s+(.+?)\s+([\d.]+)(?:\s+([A-Z]{3}))?$'}
    try:
        got = parse(p, src)
        if len(got) != 2:
            rec.violation('regex-delimiter-optional-group-aborts-source', f'witness: {len(got)} rows', {'kind': 'witness'})
    except Exception as e:
        rec.violation('regex-delimiter-optional-group-aborts-source', f'witness: {type(e).__name__}: {e}', {'kind': 'witness'})
    # the pattern after `regex:` is the user's, character for character - also when it begins with ordinary letters (r, e, g, x ...) or holds a colon
    for lead, pat in (('entry ', r'entry\s+(\d{2}/\d{2}/\d{4})\s+(.+?)\s+([\d.]+)$'), ('rx:', r'rx:(\d{2}/\d{2}/\d{4})\s+(.+?)\s+([\d.]+)$'),
                      ('ge ', r'ge (\d{2}/\d{2}/\d{4})\s+(.+?)\s+([\d.]+)$')):
        with open(p, 'w', newline='') as f:
            f.write('%s01/05/2024   ALPHA CAFE    4.50\n%s01/06/2024   BETA BOOKS   14.50\nnot a statement line\n' % (lead, lead))
        try:
            got = parse(p, {'name': 'Src', 'file': 'x', 'format': '{date:%m/%d/%Y},{description},{amount}', 'has_header': False, 'delimiter': 'regex:' + pat})
            rec.count('regex_delimiters_that_begin_with_literal_text')
            if [t['raw_description'] for t in got] != ['ALPHA CAFE', 'BETA BOOKS']:
                rec.violation('regex-delimiter-row-count-differs:literal-first-pattern', f'delimiter regex:{pat}: read {[t["raw_description"] for t in got]} from two matching lines', {'kind': 'witness'})
                return
        except Exception as e:
            rec.violation('regex-delimiter-row-count-differs:literal-first-pattern', f'delimiter regex:{pat}: {type(e).__name__}: {e}', {'kind': 'witness'})
            return


def replay(rec, case):
    core.import_tally()
    tmp = tempfile.mkdtemp(prefix='vt-c05-')
    try:
        if case['kind'] == 'witness':
            witnesses(rec, tmp)
            return
        if case['kind'] == 'locale':
            locale_probe(rec, tmp)
            return
        if case['kind'] == 'tz':
            tz_probe(rec, tmp)
            return
        if case['kind'] == 'twin':
            rnd = core.rng_for('C05', 'replay')
            for _ in range(300):
                judge_twin_sources(rec, rnd, tmp)
            return
        path = os.path.join(tmp, 'f.csv')
        with open(path, 'w', encoding='utf-8', newline='') as f:
            f.write(case['text'])
        got = parse(path, case['source'])
        rec.sample([(str(t['date']), t['raw_description'], t['amount'], t['field']) for t in got])
        rnd = core.rng_for('C05', 'replay')
        for _ in range(300):
            judge_csv_case(rec, rnd, tmp, 'quick')
            judge_regex_case(rec, rnd, tmp)
    finally:
        shutil.rmtree(tmp, ignore_errors=True)

"""C03 - rule expressions are confined: no code execution, I/O or introspection.

Every hostile string is pushed through every place the product accepts an expression while four monitors are armed:
  * sys.addaudithook recorder (open / os.* / subprocess / socket / import / exec / compile / object.__getattr__ ...);
  * sys.monitoring CALL events inside tally.expr_parser: denylisted callables and getattr/hasattr on user-reachable values;
  * value monitor wrapped around TransactionEvaluator.evaluate / ExpressionEvaluator.evaluate: EVERY sub-expression value
    must be plain data and no string may carry an interpreter repr;
  * immutability snapshots of the transaction, the rows, the variables and ast.dump of the parsed tree.
Outcomes must be plain data or ExpressionError (MerchantParseError / SectionParseError at load).
"""
import ast
import copy
import os
import shutil
import tempfile
import datetime
import json
import random

from vt import core, mon, world

SPEC = {
    'level': 'exploration',
    'shards': {'quick': 8, 'thorough': 16},
    'rule': ('strings = (i) ~350 classic sandbox-escape payloads, (ii) one or more trees for every Python ast expression node class, '
             '(iii) every attribute name in dir() of str/dict/list/float/int/date/function/builtin/type/generator/module applied to 24 '
             'receiver kinds, bare / called / called with arguments, (iv) random splices and mutations of (i)-(iii); each through the bare '
             'API (evaluate_transaction, views evaluate) and - single-line strings - through match:/let:/field:/{tag}/variable/transform of a '
             'rules file and filter:/variable of a views file. Non-trivial = string that parses as Python and reaches the validator or '
             'evaluator with a node/attribute outside the documented language; distinct by string'),
    'exhaustive': {'quick': False, 'thorough': False},
    'required_counters': ['audit_windows', 'call_events_seen', 'subexpression_values_inspected', 'immutability_checks', 'file_context_runs',
                          'views_context_runs', 'attr_matrix_strings', 'node_class_strings', 'matched_transaction_immutability_checks',
                          'scope_isolation_probes'],
    'assumptions': ['Ellipsis, bytes and complex literals are data the user wrote; generator objects are legitimate intermediate values',
                    'RecursionError / MemoryError on pathologically deep input count as rejected',
                    'a marker such as "<class \'" inside a result string is only flagged when it occurs nowhere in the expression text or input data'],
}

ROWS = {'rows': [{'amt': 12.0, 'item': 'NETFLIX', 'qty': 1, 'when': datetime.date(2025, 1, 2)}, {'amt': 5, 'item': 'star', 'qty': 0, 'when': datetime.date(2025, 1, 3)}],
        'orders': [{'amt': 100.0, 'item': 'COSTCO', 'qty': 2, '__class__': 'x', '__globals__': 'g', 'format': '{0.__class__}'}]}
VARS = {'big': 500, 'label': 'Amex', 'fmt': '{0.__class__.__mro__}', 'dd': datetime.date(2025, 1, 2), 'lst': [1, 2]}
TXN = {'description': 'NETFLIX.COM {0.__class__} %s', 'amount': 12.5, 'date': datetime.date(2025, 1, 15),
       'field': {'memo': '__import__("os")', 'code': '{0.__globals__}', '__class__': 'fieldcls'}, 'source': 'Amex', 'location': 'WA'}

RECEIVERS = ['description', '"abc"', 'amount', '1', '1.5', 'date', 'txn', 'field', 'field.memo', 'rows', 'rows[0]', '(r for r in rows)',
             '[r for r in rows]', 'contains', 'len', 'abs', 'true', 'txn.date', 'rows[0].when', 'big', '(x := rows)', 'regex', 'sum', 'dd']

PAYLOADS = r'''
__import__("os").system("id")
__import__('os')
().__class__.__bases__[0].__subclasses__()
"".__class__.__mro__[1].__subclasses__()
description.__class__
description.__class__.__mro__
amount.__class__.__name__
[].__class__.__base__
(1).__class__
open("/etc/passwd").read()
open("/tmp/vt_c03_marker","w")
eval("1+1")
exec("x=1")
compile("1","a","eval")
globals()
locals()
vars()
dir()
dir(description)
type(description)
type("x")("y")
getattr(description, "__class__")
getattr(description, "upper")()
hasattr(description, "__class__")
setattr(txn, "x", 1)
delattr(txn, "x")
__builtins__
__builtins__["open"]
__builtins__.open
__name__
__file__
__loader__
__spec__
__debug__
lambda: 1
(lambda: __import__("os"))()
(lambda x: x)(1)
f"{description}"
f"{description.__class__}"
f"{amount!r}"
"{0.__class__}".format(description)
"{0.__class__.__mro__}".format(amount)
"{}".format(description)
fmt.format(amount)
description.format(amount)
field.code.format(contains)
"%s" % description
date >= "2025-01-01"
txn.date == "2025-01-15"
"2025-01-01" < date
field.date != "2024-12-31"
rows[0].when > "2025-01-01"
[r.amt for r in rows if r.when >= "2025-01-03"]
date >= "2025-01-01" and date <= "2025-12-31"
dd == "2025-01-02"
"%s" % (x for x in rows)
"%r" % (r.amt for r in rows)
"%s and %s" % ((x for x in rows), 1)
"%(a)s" % rows[0]
[(x for x in rows) for y in rows]
[[(x for x in rows)] for y in rows]
next(((x for x in rows) for y in rows))
((x for x in rows) if true else 1)
(z := (x for x in rows))
[r for r in rows][0] if false else (x for x in rows)
"%r" % contains
description % amount
*rows
[*rows]
(*rows,)
{**field}
{1: 2}
{1, 2}
{}
[1, 2, 3]
(1, 2)
()
[]
rows[0:1]
rows[::-1]
description[0:2]
description[::-1]
contains(pattern="x")
contains(*["x"])
contains(**{})
len(x=1)
await description
yield 1
yield from rows
not await x
1 if await x else 2
{r.item: r for r in rows}
{r.item for r in rows}
[x async for x in rows]
x = 1
import os
del x
description; amount
1 ** 2
2 ** 2 ** 2 ** 2
9 ** 9 ** 9
1 // 2
1 << 2
1 >> 2
1 | 2
1 & 2
1 ^ 2
~1
+1
1 @ 2
description is description
description is not None
None
...
b"abc"
1j
1e999
-1e999
1e999 - 1e999
0x10
0o17
0b11
1_000
"a" "b"
"""triple"""
r"\d"
u"x"
rb"x"
contains.__call__("x")
contains.__self__
contains.__func__
contains.__func__.__globals__
contains.__self__.__class__
contains.__globals__
contains.__code__
contains.__closure__
contains.__defaults__
contains.__module__
contains.__name__
contains.__qualname__
contains.__doc__
len.__self__
len.__module__
abs.__self__
abs.__self__.__import__
abs.__self__.open
abs.__class__
sum.__self__.eval
regex.__self__.description
regex.__self__.data_sources
regex.__self__.variables
regex.__func__.__globals__["__builtins__"]
txn.__class__
txn.__dict__
txn.ctx
txn.variables
txn.data_sources
txn.field
txn._scope
field.__class__
field.__dict__
field.__class__.__mro__
field.keys
field.keys()
field.items()
field.get("memo")
field["memo"]
field.memo.__class__
field.memo.join
field.memo.join(["a", "b"])
field.memo.encode()
field.memo.encode().decode()
field.memo.format(1)
field.memo.format_map(field)
field.memo.split("(")
field.memo.__len__()
field.memo.__add__("x")
field.memo.__mod__(1)
field.memo.__getattribute__("upper")
field.memo.__reduce__()
field.memo.translate({})
field.memo.maketrans("a", "b")
rows.__class__
rows.append(1)
rows.clear()
rows.pop()
rows.sort()
rows.extend([1])
rows.copy()
rows.__len__()
rows.__getitem__(0)
rows[0].__class__
rows[0].clear()
rows[0].pop("amt")
rows[0].update({"a": 1})
rows[0].setdefault("zz", 1)
rows[0].keys()
rows[0].items()
rows[0].get("amt")
rows[0].copy()
rows[0]["amt"]
rows[0].amt.__class__
rows[0].amt.as_integer_ratio()
rows[0].amt.hex()
rows[0].amt.real
rows[0].when.year
rows[0].when.isoformat()
rows[0].when.strftime("%Y")
rows[0].when.replace(year=1)
rows[0].when.__class__
rows[0].when.today()
rows[0].when.fromisoformat("2025-01-01")
rows[0].when.min
rows[0].when.resolution
date.year
date.isoformat()
date.strftime("%Y")
date.__class__
date.today()
date.toordinal
date.ctime()
txn.date.year
txn.date.isoformat
dd.year
dd.strftime("%s")
orders[0].__class__
orders[0].__globals__
orders[0].format
orders[0].format.format(description)
(r for r in rows).gi_frame
(r for r in rows).gi_code
(r for r in rows).gi_frame.f_globals
(r for r in rows).gi_frame.f_back
(r for r in rows).gi_frame.f_builtins
(r for r in rows).send(None)
(r for r in rows).throw
(r for r in rows).close()
(r for r in rows).__next__()
(r for r in rows).__class__
next(r for r in rows).__class__
[r.__class__ for r in rows]
[r.__class__.__name__ for r in rows]
[r for r in rows if r.__class__]
[c for c in ().__class__.__base__.__subclasses__()]
[x for x in (1).__class__.__mro__]
[x.__init__.__globals__ for x in rows]
any(r.__class__ for r in rows)
sum(r.__len__() for r in rows)
len(rows.__class__.__name__)
(x := rows).__class__
(x := contains).__self__
(x := description.upper) and x()
(description := "pwn")
(amount := 0) == 0
(txn := 1)
(field := rows)
(contains := len) and contains("x")
(true := false)
[description for description in rows]
[txn for txn in rows][0].amt
[field for field in rows][0].amt
[r for r in rows for rows in r]
next(iter(rows))
iter(rows)
list(rows)
dict(field)
str(description)
str(contains)
repr(contains)
int("1")
float("1")
bool(1)
tuple(rows)
set(rows)
range(10)
enumerate(rows)
zip(rows, rows)
map(len, rows)
filter(None, rows)
sorted(rows)
reversed(rows)
print("x")
input()
breakpoint()
exit()
quit()
help()
id(description)
hash(description)
callable(contains)
isinstance(description, str)
issubclass(str, object)
object()
object
str
str.upper
str.upper(description)
str.__subclasses__()
int.__subclasses__()
type
type.__subclasses__(type)
Exception
BaseException.__subclasses__()
memoryview(b"x")
bytearray(1)
chr(65)
ord("A")
pow(2, 10)
divmod(1, 2)
min.__self__
max.__self__
round.__self__
round.__self__.__dict__
all.__self__
any.__self__
next.__self__
exists.__self__
exists
sum
len
contains
regex
trim
trim.__self__
uppercase(contains)
trim(contains)
trim(txn)
trim(field)
trim(len)
lowercase(abs)
str(abs)
uppercase(rows)
uppercase((r for r in rows))
trim((r for r in rows))
regex_replace(contains, "a", "b")
regex_replace(description, "(?P<x>.)", "\\g<x>")
regex_replace(description, ".", contains)
extract(contains, "(.)")
strip_prefix(contains, "<")
strip_suffix(len, ">")
split(contains, " ", 1)
exists(contains)
exists(txn)
exists(field.memo.__class__)
contains(contains, "built")
startswith(len, "<")
normalized(abs, "built")
fuzzy(contains, "bound", 0.1)
anyof(contains)
description.upper
description.upper.__self__
description.lower.__class__
description.strip.__call__()
description.startswith
description.replace
description.encode
description.format
description.format_map
description.join
description.translate
description.__init_subclass__
description.__dir__()
description.__sizeof__()
description.__reduce_ex__(2)
description.__doc__
description.upper().__class__
description.lower().encode()
"abc".join(rows)
"abc".__class__.__name__
"".join
"".__doc__
amount.real
amount.imag
amount.is_integer()
amount.hex()
amount.as_integer_ratio()
amount.__class__
amount.__round__()
amount.conjugate()
amount.fromhex("0x1")
(1).bit_length()
(1).to_bytes(1, "big")
(1).numerator
(1).__add__(2)
true.__class__
True.__class__
None.__class__
....__class__
description if contains else len
contains if true else 1
(contains or len)
(contains and len)
not contains
-contains
contains == contains
contains != len
contains in rows
contains < len
description + contains
[contains, len]
rows + [contains]
month.__class__
source.__class__
weekday.real
year.to_bytes
txn.amount.__class__
txn.description.__class__
txn.source.encode
txn.location.format
txn.month.real
field.description.__class__
field.amount.hex()
field.date.year
field.source.join
field.location.encode
self
self.ctx
self.ctx.variables
self._scope
ctx
node
ast
re
re.compile("x")
warnings
statistics
_expression_cache
_regex_cache
ALLOWED_NODES
ALLOWED_NODES.add(1)
ExpressionError
TransactionEvaluator
date_type
date_type.today()
sum([[x for x in rows] for r in rows], orders)
sum(([x.item for x in rows] for r in rows), rows)
sum([[x.amt for x in rows] for r in rows], lst)
sum([[x.amt for x in rows] for r in rows], (keep := lst))
sum([field.memo for r in rows], "")
max([r for r in rows], rows)
min(rows, orders)
next((rows for r in rows), orders)
(hit := [r.item for r in rows]) and len(hit) > 0
(amount := 0) == 0
any((seen := r.item) == "star" for r in rows)
[(last := r.amt) for r in orders]
o if len([o.item for o in rows if o.amt > 0]) > 0 else "none"
len([q for q in rows]) > 0 and q
[x.amt for x in rows] and x
(len([w.item for w in orders]) > 0) and w.item
"%s" % (len([z for z in rows]) and z)
[e for e in []] or e
regex("NETFLIX")
regex(field.memo, "import")
"%s" % regex("NET")
regex("NET") if true else 0
[regex("N") for r in rows]
contains("NETFLIX") and regex("COM")
extract("(NET)FLIX")
normalized("NETFLIXCOM") or fuzzy("NETFLIX")
anyof("ZZZ", "NETFLIX")
startswith("NET")
exists(field.memo)
rows[0]
[r for r in rows]
rows
[r for r in rows if r.when == "2025-01-02"]
next((r for r in orders), rows[0])
sum([[x for x in rows] for r in orders], rows)
len(sum([[x for x in orders] for r in rows], orders))
sum([[x.qty for x in rows] for r in rows], lst)
100 * 1.08 > amount
-5 < amount
amount > 2 ** 3 or amount > 7 // 2
"%s" % "".__class__.__mro__
"%s" % "".__class__.__base__.__subclasses__()
"a" + "".__class__.__name__
not "".__class__
-(1).real
("x" * 2).__class__
"%s" % (1).__class__.__mro__[-1].__subclasses__()
"%s" % "".join
"%d" % "abc".__len__()
"%s" % [].__class__
~(1).__class__.__hash__(1)
"%(a)s" % {"a": 1}.__class__
'''.strip().splitlines()

VIEW_PAYLOADS = r'''
payments.__class__
tags.__class__
category.__class__
tags.add("x")
tags.clear()
payments.append(1)
payments.clear()
payments[0]
payments[0:1]
sum.__self__
sum.__self__.transactions
by.__self__
by.__self__.variables
by.__func__.__globals__
period.__self__.period_data
max_val.__self__
avg.__self__.functions
by("__class__")
by(by)
period(period)
sum(by)
count(sum)
max_val(sum, by)
min_val(abs, round)
stddev(by)
category.upper()
category.format(payments)
merchant.join(tags)
[p for p in payments]
(p for p in payments)
(x := payments)
payments.sort()
__import__("os")
open("/etc/passwd")
eval("1")
lambda: 1
f"{category}"
total.__class__
cv.real
months.bit_length()
months.__class__.__mro__
true.__class__
round
abs
sum
by
round.__self__
abs.__self__.open
str(by)
sum if true else by
(sum or by)
not sum
sum == by
sum in tags
category + sum
-by
'''.strip().splitlines()


def node_class_strings():
    """At least one string per ast expression node class (and operator class)."""
    S = {
        'BoolOp': ['true and false', 'contains("x") or 1'], 'NamedExpr': ['(x := 1)', '(x := rows) and len(x)'], 'BinOp': ['1 + 2', 'description * 2'],
        'UnaryOp': ['not true', '-amount', '+amount', '~1'], 'Lambda': ['lambda: 1', 'lambda x, *a, **k: x', '(lambda: contains)()'],
        'IfExp': ['1 if true else 2'], 'Dict': ['{}', '{"a": 1}', '{**field}', '{description: contains}'], 'Set': ['{1}', '{contains}'],
        'ListComp': ['[r for r in rows]', '[contains for r in rows]', '[r for r in rows if contains]'],
        'SetComp': ['{r.amt for r in rows}'], 'DictComp': ['{r.amt: r for r in rows}'], 'GeneratorExp': ['(r for r in rows)', 'sum(r.amt for r in rows)'],
        'Await': ['await x'], 'Yield': ['(yield)', '(yield 1)'], 'YieldFrom': ['(yield from rows)'],
        'Compare': ['1 < 2 < 3', 'description is None', 'description is not None', '"a" in description', '1 not in rows'],
        'Call': ['contains("x")', 'contains(*rows)', 'contains(**field)', 'contains(x=1)', 'len(rows)', 'description.upper()', 'contains("x")("y")', 'rows[0]()', '(contains)("x")', 'contains.__call__("x")'],
        'FormattedValue': ['f"{amount}"', 'f"{amount:>{big}}"', 'f"{contains!r}"'], 'JoinedStr': ['f"a{description}b"', 'f""'],
        'Constant': ['1', '"s"', 'None', 'True', '...', 'b"x"', '1j', '1e400'], 'Attribute': ['txn.amount', 'field.memo', 'rows[0].amt', 'description.x', 'txn.date.year'],
        'Subscript': ['rows[0]', 'rows[0:1]', 'rows[0, 1]', 'description[0]', 'field["memo"]', 'rows[0]["amt"]', 'rows[contains]', 'rows[-1]'],
        'Starred': ['*rows', '[*rows]', 'contains(*rows)'], 'Name': ['description', 'nosuch', '__builtins__', '__import__', 'self'],
        'List': ['[]', '[1, contains]'], 'Tuple': ['()', '(1, 2)', '1, 2'], 'Slice': ['rows[1:2:3]', 'description[::2]'],
        'Pow': ['2 ** 3', '9 ** 9 ** 9'], 'FloorDiv': ['7 // 2'], 'LShift': ['1 << 100'], 'RShift': ['1 >> 1'], 'BitOr': ['1 | 2'],
        'BitXor': ['1 ^ 2'], 'BitAnd': ['1 & 2'], 'MatMult': ['rows @ rows'], 'Invert': ['~amount'], 'UAdd': ['+description'],
        'Is': ['contains is contains'], 'IsNot': ['contains is not len'], 'Mod': ['"%s" % contains', '5 % 0'], 'Div': ['1 / 0'],
        'NameLikeBuiltin': ['today', 'now', 'Today', '"%s" % today', 'date <= today', 'this_year', 'current_month', 'date_type', 'datetime', 'time', 'os', 'sys', 're', 'math'],
        'keyword': ['split(description, delimiter="-", index=0)', 'round(number=1.5)', 'contains("NETFLIX", exact=True)', 'len(rows, key=lambda r: r)',
                    'abs(amount, x=__import__("os"))', 'contains("x", **field)', 'description.upper(k={})', 'round(amount, ndigits=[1][0])', 'trim(description, f=f"{amount}")'],
    }
    out = []
    for k, v in S.items():
        out += [(k, s) for s in v]
    return out


def attr_matrix(rnd, limit=None):
    objs = ['', {}, [], 1.5, 1, datetime.date(2025, 1, 1), (lambda: 0), len, type, (x for x in ()), ast, object(), True, b'']
    names = set()
    for o in objs:
        names.update(dir(o))
    names.update(['gi_frame', 'f_globals', 'f_back', 'f_locals', 'f_builtins', 'cr_frame', 'tb_frame', '__globals__', '__code__', '__closure__',
                  '__builtins__', '__self__', '__func__', '__wrapped__', 'ctx', '_scope', 'variables', 'data_sources', 'functions', 'transactions',
                  'description', 'amount', 'field', 'source', 'nosuchattr', 'upper', 'LOWER', 'Format', '__CLASS__', 'memo', 'amt', 'when', 'year'])
    names = sorted(names)
    out = []
    for n in names:
        for rcv in RECEIVERS:
            out.append('%s.%s' % (rcv, n))
            out.append('%s.%s()' % (rcv, n))
            out.append('%s.%s(%s)' % (rcv, n, rnd.choice(['1', '"x"', 'description', 'rows', 'contains', '0, 1', '"{0.__class__}"'])))
    rnd.shuffle(out)
    return out if limit is None else out[:limit]


def mutate(rnd, pool):
    a, b = rnd.choice(pool), rnd.choice(pool)
    k = rnd.randint(0, 7)
    if k == 0:
        return '(%s) and (%s)' % (a, b)
    if k == 1:
        return '[%s for r in rows if %s]' % (a, b)
    if k == 2:
        return 'trim(%s)' % a
    if k == 3:
        return '(%s) if (%s) else (%s)' % (a, b, rnd.choice(pool))
    if k == 4:
        i, j = rnd.randrange(len(a) + 1), rnd.randrange(len(b) + 1)
        return a[:i] + b[j:]
    if k == 5:
        return '(zz := %s).%s' % (a, rnd.choice(['__class__', 'upper', 'format', 'gi_frame', '__self__', 'amt']))
    if k == 6:
        return 'next((%s for r in rows), %s)' % (a, b)
    return '%s == %s' % (a, b)


def plain_outcome(rec, where, s, fn, haystack, ep, nodes=None, final_generator_ok=True, immut=None):
    """Run fn() inside all monitor windows; returns ('v', value) / ('err', type-name)."""
    case = {'kind': 's', 'where': where, 's': s}
    snap = copy.deepcopy(immut) if immut is not None else None
    with mon.audit_window() as aw, mon.call_window() as cw, mon.value_window(haystack, nodes) as vw:
        try:
            out = ('v', fn())
        except ep.ExpressionError as e:
            out = ('err', type(e).__name__)
        except (RecursionError, MemoryError) as e:
            out = ('err', type(e).__name__)
        except Exception as e:
            out = ('exc', type(e).__name__ + ': ' + str(e)[:100])
    rec.count('audit_windows')
    rec.count('call_events_seen', cw.count)
    rec.count('subexpression_values_inspected', vw.count)
    bad_events = [e for e in aw.events if e[0] != 'compile:<unknown>']
    if bad_events:
        rec.violation('audit-event:' + bad_events[0][0], f'{where}: {s!r} raised audit events {bad_events[:3]}', case)
    if cw.hits:
        rec.violation('denied-call:' + cw.hits[0][0].split(' ')[0] + ':' + cw.hits[0][0].split(' ')[-1],
                      f'{where}: {s!r}: {cw.hits[:3]}', case)
    if vw.hits and 'generator object' in vw.hits[0][1] and where.startswith('rules file'):
        rec.violation('generator-as-final-value:' + where.split(' ')[-1], f'{where}: {s!r}: {vw.hits[0][1]}', case)
    elif vw.hits:
        kind = 'interpreter-repr-in-string' if 'interpreter repr' in vw.hits[0][1] else 'non-data-value'
        rec.violation(kind + ':' + vw.hits[0][0], f'{where}: {s!r}: sub-expression {vw.hits[0][0]} produced {vw.hits[0][1]}', case)
    if out[0] == 'exc':
        name = out[1].split(':')[0]
        if name.endswith('ParseError'):
            out = ('err', name)
        else:
            rec.violation('outcome-not-expression-error:' + name, f'{where}: {s!r} -> {out[1]}', case)
    if out[0] == 'v':
        mon._VAL['haystack'] = haystack
        p = mon.value_problem(out[1], final=True)
        if p and not (final_generator_ok and p.startswith('generator object')):
            key = 'final-value-not-data'
            if p.startswith('generator object') or 'generator object' in p:
                # mechanism: a generator expression is the final value of a let/field/variable/tag/transform element
                key = 'generator-as-final-value:' + where.split(' ')[-1]
            rec.violation(key, f'{where}: {s!r} -> {p}', case)
    if out[0] == 'v' and where in ('evaluate_transaction', 'evaluate_transaction(minimal)', 'views evaluate') and outside_language(s):
        # text that needs a construct the language does not have (lambda, dict / set / list / tuple displays, f-strings, *args, keyword arguments, yield,
        # await, slices) has no value - wherever in the text the construct stands, evaluated or not
        rec.violation('text-outside-the-language-evaluates', f'{where}: {s!r} -> {str(out[1])[:80]!r}', case)
    if immut is not None:
        rec.count('immutability_checks')
        if not same_data(snap, immut):
            rec.violation('evaluation-mutates-input', f'{where}: {s!r} changed the transaction / rows / variables', case)
    rec.count('outcome:' + out[0])
    return out


_OUTSIDE = (ast.Lambda, ast.Dict, ast.Set, ast.DictComp, ast.SetComp, ast.JoinedStr, ast.FormattedValue, ast.Starred, ast.Await, ast.Yield, ast.YieldFrom,
            ast.keyword, ast.List, ast.Tuple, ast.Slice)


def outside_language(s):
    try:
        tree = ast.parse(s.strip(), mode='eval')
    except (SyntaxError, ValueError, RecursionError, MemoryError):
        return False
    return any(isinstance(n, _OUTSIDE) for n in ast.walk(tree))


def same_data(a, b):
    try:
        return json.dumps(core.jsonable(a), sort_keys=True) == json.dumps(core.jsonable(b), sort_keys=True)
    except Exception:
        return a == b


def hay(s):
    return s + json.dumps(core.jsonable([TXN, ROWS, VARS]))


def run_bare(rec, ep, s, nodes):
    txn, rows, vs = copy.deepcopy(TXN), copy.deepcopy(ROWS), dict(VARS)
    if len(s) % 3 == 0:
        # a stored transaction keeps the time of day its statement gave (the parsers keep datetime values): evaluation reads it, nothing more
        txn['date'] = datetime.datetime(2025, 1, 15, 13, 45)
        rec.count('evaluations_of_a_transaction_dated_with_time_of_day')
    tree_dump = None
    try:
        tree = ep.parse_expression(s)
        tree_dump = ast.dump(tree)
    except Exception:
        tree = None
    out = plain_outcome(rec, 'evaluate_transaction', s, lambda: ep.evaluate_transaction(s, txn, vs, rows), hay(s), ep, nodes,
                        immut=[txn, rows, vs])
    if tree is not None and ast.dump(ep.parse_expression(s)) != tree_dump:
        rec.violation('evaluation-mutates-parsed-tree', f'{s!r}: cached AST changed', {'kind': 's', 'where': 'bare', 's': s})
    # names bound by := or as loop variables are local to ONE evaluation: a later, separate evaluation must not be able to read them
    if tree is not None:
        bound = set()
        for n in ast.walk(tree):
            if isinstance(n, ast.NamedExpr) and isinstance(n.target, ast.Name):
                bound.add(n.target.id.lower())
            elif isinstance(n, ast.comprehension) and isinstance(n.target, ast.Name):
                bound.add(n.target.id.lower())
        known = {'description', 'amount', 'date', 'month', 'year', 'day', 'weekday', 'source', 'true', 'false', 'txn', 'field', 'location'} | \
            {k.lower() for k in VARS} | {k.lower() for k in ROWS}
        for name in sorted(bound - known)[:3]:
            if not name.isidentifier():
                continue
            rec.count('scope_isolation_probes')
            try:
                v = ep.evaluate_transaction(name, copy.deepcopy(TXN), dict(VARS), copy.deepcopy(ROWS))
                rec.violation('binding-leaks-into-later-evaluation', f'after evaluating {s!r}, the separate expression {name!r} evaluates to {v!r} instead of failing '
                              f'as an unknown name', {'kind': 's', 'where': 'bare', 's': s})
            except Exception:
                pass
        # ... nor may a binding of a built-in name survive the evaluation that made it
        if bound & {'amount', 'description', 'month'}:
            rec.count('scope_isolation_probes')
            try:
                v = ep.evaluate_transaction('amount', copy.deepcopy(TXN), dict(VARS), copy.deepcopy(ROWS))
                if v != TXN['amount']:
                    rec.violation('binding-leaks-into-later-evaluation', f'after {s!r}, a separate evaluation of "amount" gives {v!r}', {'kind': 's', 'where': 'bare', 's': s})
            except Exception:
                pass
    # no-fields / empty-rows context
    t2 = {'description': 'x', 'amount': 0}
    plain_outcome(rec, 'evaluate_transaction(minimal)', s, lambda: ep.evaluate_transaction(s, t2), hay(s), ep, nodes)
    return out, tree is not None


def run_views_bare(rec, ep, s, nodes):
    # (newest first, as most bank exports list them: the list a view is evaluated over stays in the caller's order)
    txns = [{'amount': 30.0, 'date': datetime.datetime(2025, 3, 15), 'category': 'Bills', 'subcategory': 'T', 'merchant': 'M', 'tags': ['c']},
            {'amount': 10.0, 'date': datetime.datetime(2025, 1, 15), 'category': 'Food {0.__class__}', 'subcategory': 'S', 'merchant': 'M', 'tags': ['a', 'B']},
            {'amount': 20.0, 'date': datetime.datetime(2025, 2, 15), 'category': 'Food', 'subcategory': 'S', 'merchant': 'M', 'tags': []}]
    ctx = ep.create_context(transactions=txns, num_months=12, variables={'v': 1, 'fmt': '{0.__class__}'}, period_data={'month': 2})
    plain_outcome(rec, 'views evaluate', s, lambda: ep.evaluate(s, ctx), s + json.dumps(core.jsonable(txns)), ep, nodes, immut=[txns])
    rec.count('views_context_runs')


def run_file_contexts(rec, ep, s, rnd):
    """The string as match:/let:/field:/{tag}/variable/transform of a rules file, and filter:/variable of a views file."""
    if '\n' in s or '\r' in s:
        return
    from tally.merchant_engine import parse_merchants
    from tally.merchant_utils import apply_transforms
    from tally.section_engine import parse_sections, classify_merchants
    slot = rnd.choice(['match', 'let', 'field', 'tag', 'variable', 'transform'])
    base = '[Base]\nmatch: contains("NETFLIX")\ncategory: Subs\ntags: a\n'
    if slot == 'match':
        text = '[P]\nmatch: %s\ncategory: C\ntags: {field.memo}\n\n' % s + base
    elif slot == 'let':
        text = '[P]\nlet: zz = %s\nmatch: contains("NETFLIX") or zz\ncategory: C\nfield: out = zz\ntags: {zz}\n\n' % s + base
    elif slot == 'field':
        text = '[P]\nmatch: contains("NETFLIX")\ncategory: C\nfield: out = %s\n\n' % s + base
    elif slot == 'tag':
        text = '[P]\nmatch: contains("NETFLIX")\ncategory: C\ntags: t1, {%s}\n\n' % s + base
    elif slot == 'variable' and rnd.random() < .35:
        # a variable that refers to one defined further down the file (and one that refers to itself)
        text = 'fwd = zz\nself = self\nzz = %s\n[P]\nmatch: contains("NETFLIX") or fwd or self\ncategory: C\nfield: out = fwd\nfield: out2 = self\ntags: {fwd}, {self}, {"%%s" %% fwd}\n\n' % s + base
    elif slot == 'variable':
        text = 'zz = %s\n[P]\nmatch: contains("NETFLIX") or zz\ncategory: C\nfield: out = zz\ntags: {zz}\n\n' % s + base
    else:
        text = 'field.description = %s\nfield.memo = %s\n[P]\nmatch: contains("NETFLIX")\ncategory: C\ntags: {field.memo}\n\n' % (s, s) + base
    txn, rows = copy.deepcopy(TXN), copy.deepcopy(ROWS)
    if len(s) % 3 == 1:
        txn['date'] = datetime.datetime(2025, 1, 15, 13, 45)
    seen = {}

    def go():
        eng = parse_merchants(text)
        t = copy.deepcopy(txn)
        if eng.transforms:
            apply_transforms(t, eng.transforms)
        seen['before'], seen['t'] = copy.deepcopy(t), t      # the transaction as match() receives it (after the user's own transforms)
        res = eng.match(t, data_sources=rows)
        surf = {'tags': sorted(res.tags), 'fields': res.extra_fields, 'desc': t.get('description'), 'f': t.get('field')}
        return surf
    out = plain_outcome(rec, 'rules file ' + slot, s, go, hay(s) + text, ep, final_generator_ok=False, immut=[txn, rows])
    if slot in ('field', 'let', 'variable', 'tag'):
        # the same rules file through the path `tally up` takes (get_all_rules -> normalize_merchant): the supplemental rows it was given keep
        # their values AND their types (a date stays a date)
        from tally import merchant_utils as mu
        tmpd = tempfile.mkdtemp(prefix='vt-c03-p-')
        try:
            pth = os.path.join(tmpd, 'm.rules')
            with open(pth, 'w', encoding='utf-8') as fh:
                fh.write(text)
            rows_live = copy.deepcopy(ROWS)
            snap = repr(rows_live)
            try:
                mu.clear_engine_cache()
                rules = mu.get_all_rules(pth)
                mu.normalize_merchant(TXN['description'], rules, amount=TXN['amount'], txn_date=TXN['date'], field=copy.deepcopy(TXN['field']),
                                      data_source=TXN['source'], location=TXN['location'], data_sources=rows_live)
            except Exception:
                pass
            rec.count('production_path_row_immutability_checks')
            if repr(rows_live) != snap:
                rec.violation('classification-mutates-supplemental-rows:' + slot, f'rules file {slot}: {s!r}: normalize_merchant changed the supplemental rows: '
                              f'{snap[:160]} -> {repr(rows_live)[:160]}', {'kind': 's', 'where': 'rules file ' + slot, 's': s})
        finally:
            shutil.rmtree(tmpd, ignore_errors=True)
    if slot not in ('field', 'let', 'variable', 'tag'):
        # a transform whose expression has no value for this transaction (rejected text, unknown field, wrong types) changes NOTHING of it
        from tally.merchant_utils import apply_transforms as _at
        for target in ('field.description', 'field.memo', 'field.newcol'):
            t0 = copy.deepcopy(txn)
            try:
                ep.evaluate_transaction(s, copy.deepcopy(t0))
                continue                      # it has a value: the transform applies (and may record the original)
            except ep.ExpressionError:
                pass
            except Exception:
                continue
            t1 = copy.deepcopy(t0)
            try:
                _at(t1, [(target, s)])
            except Exception:
                continue
            rec.count('failing_transform_leaves_transaction_untouched_checks')
            if not same_data(t0, t1) or set(t0) != set(t1):
                rec.violation('failing-transform-changes-transaction', f'transform `{target} = {s}` cannot be evaluated for the transaction, yet apply_transforms changed it: '
                              f'new/changed keys {sorted(k for k in t1 if k not in t0 or repr(t1[k]) != repr(t0.get(k)))}', {'kind': 's', 'where': 'rules file transform', 's': s})
                break
    if 't' in seen:
        rec.count('matched_transaction_immutability_checks')
        if not same_data(seen['before'], seen['t']):
            rec.violation('match-mutates-transaction:' + slot, f'rules file {slot}: {s!r}: MerchantEngine.match changed the transaction it was given: '
                          f'{core.jsonable(seen["before"])} -> {core.jsonable(seen["t"])}'[:400], {'kind': 's', 'where': 'rules file ' + slot, 's': s})
    rec.count('file_context_runs')
    rec.count('slot:' + slot)
    # views file
    vslot = rnd.choice(['filter', 'variable', 'global'])
    if vslot == 'filter':
        vt = '[V]\nfilter: %s\n' % s
    elif vslot == 'variable':
        vt = '[V]\nzz = %s\nfilter: zz or true\n' % s
    else:
        vt = 'zz = %s\n[V]\nfilter: zz or true\n' % s
    groups = [{'merchant': 'M', 'category': 'Food', 'subcategory': 'S', 'transactions': [
        {'amount': 10.0, 'date': datetime.datetime(2025, 1, 15), 'category': 'Food', 'subcategory': 'S', 'merchant': 'M', 'tags': ['a']}], 'data': {'total': 10.0}}]

    def gov():
        cfg = parse_sections(vt)
        r = classify_merchants(cfg, copy.deepcopy(groups), 12, period_data={'month': 1})
        return {k: [m['merchant'] for m in v] for k, v in r.items()}
    plain_outcome(rec, 'views file ' + vslot, s, gov, s + vt, ep, final_generator_ok=False)
    rec.count('views_context_runs')
    # user variables are only READ: evaluating a view (its own variables, then its filter) leaves the mapping of evaluated variables it was handed as it was
    from tally import section_engine as se
    try:
        cfg2 = parse_sections('lim = 100\nseen = count(payments)\n[A]\nlim = 10\nnote = %s\nfilter: total > lim or true\n[B]\nfilter: total > lim\n' % s)
    except Exception:
        cfg2 = None
    if cfg2 is not None:
        tx2 = copy.deepcopy(groups[0]['transactions'])
        try:
            gv = se.evaluate_variables(cfg2.global_variables, tx2, 12, None, {'month': 1})
            snap = repr(sorted(gv.items(), key=lambda kv: kv[0]))
            for sec in cfg2.sections:
                try:
                    se.evaluate_section_filter(sec, tx2, 12, gv, {'month': 1})
                except Exception:
                    pass
            rec.count('view_evaluation_leaves_user_variables_checks')
            if repr(sorted(gv.items(), key=lambda kv: kv[0])) != snap:
                rec.violation('view-evaluation-writes-user-variables', f'view-local variable `note = {s}`: after evaluating the views the mapping of global variables changed: '
                              f'{snap[:150]} -> {repr(sorted(gv.items(), key=lambda kv: kv[0]))[:150]}', {'kind': 's', 'where': 'views file variable', 's': s})
        except Exception:
            pass


def classify_nontrivial(s):
    try:
        tree = ast.parse(s, mode='eval')
    except (SyntaxError, ValueError, RecursionError, MemoryError):
        return False
    allowed_funcs = {'contains', 'regex', 'normalized', 'anyof', 'startswith', 'fuzzy', 'abs', 'round', 'extract', 'split', 'substring', 'trim',
                     'regex_replace', 'uppercase', 'lowercase', 'strip_prefix', 'strip_suffix', 'exists', 'len', 'sum', 'any', 'all', 'next', 'min', 'max'}
    for n in ast.walk(tree):
        if isinstance(n, (ast.Lambda, ast.Dict, ast.Set, ast.JoinedStr, ast.Starred, ast.Await, ast.Yield, ast.YieldFrom, ast.DictComp, ast.SetComp,
                          ast.List, ast.Tuple, ast.Slice, ast.Pow, ast.FloorDiv, ast.BitOr, ast.BitAnd, ast.BitXor, ast.LShift, ast.RShift,
                          ast.MatMult, ast.Invert, ast.UAdd, ast.Is, ast.IsNot, ast.keyword)):
            return True
        if isinstance(n, ast.Attribute) and not (isinstance(n.value, ast.Name) and n.value.id.lower() in ('txn', 'field', 'r')):
            return True
        if isinstance(n, ast.Call) and isinstance(n.func, ast.Name) and n.func.id.lower() not in allowed_funcs:
            return True
        if isinstance(n, ast.Name) and n.id.startswith('__'):
            return True
    return False


def prewarm(ep):
    t = {'description': 'abc', 'amount': 1.0, 'date': datetime.date(2025, 1, 1), 'field': {'m': 'x'}, 'source': 's'}
    for e in ['fuzzy("abd")', 'regex("a")', 'extract("(a)")', 'regex_replace("a", "a", "b")', 'normalized("a")', 'trim()', 'split("b", 0)',
              'substring(0, 1)', 'strip_prefix("a", "a")', 'strip_suffix("a", "a")', 'uppercase("a")', 'lowercase("a")', 'anyof("a")',
              'startswith("a")', 'contains("a")', 'exists(field.m)', 'round(1.5)', 'abs(-1)', 'date > "2024-01-01"', 'sum(x for x in [])' if False else '1']:
        try:
            ep.evaluate_transaction(e, t)
        except Exception:
            pass
    ctx = ep.create_context(transactions=[{'amount': 1.0, 'date': datetime.datetime(2025, 1, 1), 'tags': []}, {'amount': 2.0, 'date': datetime.datetime(2025, 2, 1), 'tags': []}])
    for e in ['stddev(payments)', 'cv', 'months', 'sum(by("month"))', 'avg(payments)', 'period("month")', 'max_val(1, 2)']:
        try:
            ep.evaluate(e, ctx)
        except Exception:
            pass
    import difflib  # noqa
    import statistics  # noqa
    try:
        statistics.stdev([1.0, 2.0, 4.0])
    except Exception:
        pass


def run(rec, shard, nshards, t):
    core.import_tally()
    from tally import expr_parser as ep, merchant_engine, section_engine, merchant_utils  # noqa
    rnd = core.rng_for('C03', shard)
    prewarm(ep)
    mon.audit_install()
    mon.install_value_monitor(ep)
    ncode = mon.call_monitor_arm(ep, (ep.TransactionEvaluator, ep.ExpressionEvaluator, ep.TransactionContext, ep.ExpressionContext, ast.AST))
    rec.count('expr_parser_code_objects_monitored', ncode)
    nodes = {}
    strings = []
    for i, s in enumerate(PAYLOADS):
        strings.append(('payload', s))
    # every attribute / method name of the evaluator and context classes as a BARE identifier (and in capitals): a name is a primitive, a variable,
    # a data source or unknown - never a piece of the machinery
    for cls in (ep.TransactionContext, ep.TransactionEvaluator, ep.ExpressionContext, ep.ExpressionEvaluator):
        for nm in sorted(set(dir(cls)) | set(getattr(cls, '__slots__', ()))):
            if nm.isidentifier():
                strings.append(('payload', nm))
                strings.append(('payload', '"%s" % ' + nm.upper() if nm.islower() else nm.lower()))
    for k, s in node_class_strings():
        strings.append(('node', s))
    matrix = attr_matrix(core.rng_for('C03', 'matrix'))
    per = (6000 if t == 'quick' else len(matrix))
    matrix = matrix[:per] if t == 'quick' else matrix
    for s in matrix:
        strings.append(('attr', s))
    mine = [x for i, x in enumerate(strings) if i % nshards == shard]
    pool = [s for _, s in strings]
    n_mut = (1500 if t == 'quick' else 600000) // nshards
    for _ in range(n_mut):
        mine.append(('mutant', mutate(rnd, pool)))
    for kind, s in mine:
        rec.case()
        rec.count({'payload': 'payload_strings', 'node': 'node_class_strings', 'attr': 'attr_matrix_strings', 'mutant': 'mutant_strings'}[kind])
        out, parsed = run_bare(rec, ep, s, nodes)
        if kind != 'attr' or rnd.random() < .25:
            run_file_contexts(rec, ep, s, rnd)
        if kind in ('payload', 'node') or rnd.random() < .1:
            run_views_bare(rec, ep, s, nodes)
        if classify_nontrivial(s):
            rec.interesting(s[:200])
    if shard == 0:
        for s in VIEW_PAYLOADS:
            rec.case()
            run_views_bare(rec, ep, s, nodes)
            run_file_contexts(rec, ep, s, rnd)
        for s in ['description.__class__', '(r for r in rows).gi_frame', 'f"{amount}"', '"{0.__class__}".format(amount)']:
            rec.sample(s)
        generator_tag_probe(rec, ep)
        loader_rows_probe(rec, ep)
        engine_state_probe(rec, ep)
        if t != 'quick':
            core.repo_tests_with_monitors(rec, 'C03')
    for k, v in nodes.items():
        rec.count('node_evaluated:' + k, v)


LOADER_EXPRS = ['"%s" % rows[0]', 'trim(rows[0])', 'lowercase(orders[0])', '"%s" % [r for r in rows]', '"%(description)s/%(wrap)s" % rows[0]', 'rows[0]["gift_note"]',
                '[r["nope"] for r in rows]', '"%s" % next(r for r in orders)', 'rows[0].description + "/" + orders[0].description', 'len(rows[0])', '"nope" in rows[0]',
                '[r.description for r in rows if r.qty == "1"]', 'rows[1]["description"]', 'sum(r.amount for r in rows)', '"%s" % rows[0].date', 'orders[0].nosuch']


def loader_rows_probe(rec, ep):
    """Supplemental rows as the REAL loader builds them (settings.yaml -> load_config -> load_supplemental_sources) behave as the plain data they
    hold: every expression over them gives what it gives over plain dict copies of the same rows, shows no interpreter object, and leaves them unchanged."""
    from tally.config_loader import load_config, load_supplemental_sources
    from tally.merchant_engine import parse_merchants
    tmpd = tempfile.mkdtemp(prefix='vt-c03-l-')
    try:
        os.makedirs(os.path.join(tmpd, 'config'))
        os.makedirs(os.path.join(tmpd, 'data'))
        with open(os.path.join(tmpd, 'data', 'rows.csv'), 'w') as f:
            f.write('Date,Amount,Item,Qty\n2025-01-02,12.00,NETFLIX,1\n2025-01-03,5,star,0\n2025-01-04,7.5,short\n'          # the last line lacks a column
                    '2025-01-05  Wed,3.00,daynamed,1\n2025-01-06 Thu,4.00,daynamed2,1\nn/a,6.00,nodate,1\n')      # date cells with a day name after the date, and no date at all
        with open(os.path.join(tmpd, 'data', 'orders.csv'), 'w') as f:
            f.write('Date,Amount,Item,Qty\n2025-01-09,100.0,COSTCO,2\n')
        with open(os.path.join(tmpd, 'data', 'card.csv'), 'w') as f:
            f.write('Date,Description,Amount\n2025-01-15,NETFLIX.COM,12.50\n')
        with open(os.path.join(tmpd, 'config', 'settings.yaml'), 'w') as f:
            f.write('year: 2025\ndata_sources:\n  - name: Card\n    file: data/card.csv\n    format: "{date:%Y-%m-%d},{description},{amount}"\n'
                    '  - name: Rows\n    file: data/rows.csv\n    supplemental: true\n    format: "{date:%Y-%m-%d},{amount},{description},{qty}"\n'
                    '  - name: Orders\n    file: data/orders.csv\n    supplemental: true\n    format: "{date:%Y-%m-%d},{amount},{description},{qty}"\n'
                    # (a supplemental source that cannot be read - its path is a folder - is simply not there for the rules)
                    '  - name: Broken\n    file: data/broken.csv\n    supplemental: true\n    format: "{date:%Y-%m-%d},{amount},{description}"\n')
        os.makedirs(os.path.join(tmpd, 'data', 'broken.csv'))
        cfgd = os.path.join(tmpd, 'config')
        loaded = load_supplemental_sources(load_config(cfgd), cfgd)
    except Exception as e:
        rec.unsure('loader rows probe could not load its budget: %s: %s' % (type(e).__name__, e))
        return
    finally:
        shutil.rmtree(tmpd, ignore_errors=True)
    rec.count('loader_namespace_checks')
    stray = {k: type(v).__name__ for k, v in loaded.items() if k not in ('rows', 'orders') or not isinstance(v, list) or not all(isinstance(r, dict) for r in v)}
    if stray:
        # what load_supplemental_sources returns IS the namespace of bare names in every expression: it holds the sources' rows and nothing else
        rec.violation('loader-namespace-holds-more-than-the-sources', f'load_supplemental_sources returned {stray} beside the rows of the readable sources '
                      f'(every key is a name any rule expression can read)', {'kind': 'loader-rows'})
        return
    if set(loaded) != {'rows', 'orders'}:
        rec.unsure('loader rows probe: sources loaded: %s' % sorted(loaded))
        return
    for k, v in loaded.items():
        for r in v:
            for col, val in r.items():
                rec.count('loader_cell_values_inspected')
                if not (val is None or type(val) in (str, int, float, bool, datetime.date, datetime.datetime)):
                    rec.violation('loader-row-holds-a-non-data-value', f'source {k}: column {col!r} of a row the loader built holds {type(val).__name__}: {str(val)[:80]!r} '
                                  f'(every rule expression that reads it gets that object)', {'kind': 'loader-rows'})
                    return
    plain = {k: [dict(r) for r in v] for k, v in loaded.items()}
    for e in LOADER_EXPRS:
        for slot in ('tag', 'field'):
            text = '[P]\nmatch: true\ncategory: C\n' + ('tags: t1, {%s}\n' % e if slot == 'tag' else 'field: out = %s\n' % e)
            outs = []
            for rows in (copy.deepcopy(loaded), copy.deepcopy(plain)):
                snap = repr({k: [sorted(dict(r).items(), key=repr) for r in v] for k, v in rows.items()})

                def go(rows=rows):
                    res = parse_merchants(text).match(copy.deepcopy(TXN), data_sources=rows)
                    return {'tags': sorted(res.tags), 'fields': res.extra_fields}
                o = plain_outcome(rec, 'rules file ' + slot, e, go, hay(e) + text, ep, final_generator_ok=False)
                outs.append(repr(o))
                rec.count('loader_row_expressions')
                if repr({k: [sorted(dict(r).items(), key=repr) for r in v] for k, v in rows.items()}) != snap:
                    rec.violation('reading-supplemental-rows-changes-them:' + slot, f'{e!r} over the rows built by load_supplemental_sources changed them: {snap[:200]} -> '
                                  f'{repr(rows)[:200]}', {'kind': 'loader-rows'})
            if outs[0] != outs[1]:
                rec.violation('loader-built-rows-differ-from-plain-data:' + slot, f'{e!r}: over the loader\'s rows {outs[0][:200]}, over plain dict copies of them {outs[1][:200]}',
                              {'kind': 'loader-rows'})


STATE_EXPRS = ['Amount > 500', 'Contains("COFFEE")', 'Extract("REF:(\\\\d+)")', 'Field.memo', 'DESCRIPTION', 'Month', 'len(Rows)', 'Txn.source', 'amount > 500', 'Source == "Amex"',
               'Trim(Field.code)', 'Year * 100 + Month', '"%s|%s" % (Description, Amount)']


def engine_state_probe(rec, ep):
    """What an expression reads is THIS transaction: one engine matching several transactions one after the other gives each the answer a
    fresh engine gives it alone - however the names in a top-level variable are spelled."""
    from tally.merchant_engine import parse_merchants
    txns = [dict(copy.deepcopy(TXN), description='COFFEE BAR REF:11', amount=900.0, field={'memo': 'first', 'code': ' a1 '}, source='Amex', date=datetime.date(2025, 1, 15)),
            dict(copy.deepcopy(TXN), description='TEA HOUSE REF:22', amount=5.0, field={'memo': 'second', 'code': 'b2'}, source='Chase', date=datetime.date(2024, 7, 4)),
            dict(copy.deepcopy(TXN), description='COFFEE BAR', amount=501.0, field={'memo': 'third', 'code': ''}, source='amex', date=datetime.date(2025, 12, 31))]
    rowsets = [copy.deepcopy(ROWS), {'rows': [], 'orders': []}, copy.deepcopy(ROWS)]
    for e in STATE_EXPRS:
        text = 'v = %s\n\n[R]\nmatch: true\ncategory: C\ntags: {v}\nfield: out = v\n' % e
        for order in ((0, 1, 2), (1, 2, 0), (2, 1, 0)):
            try:
                eng = parse_merchants(text)
            except Exception:
                break
            for i in order:
                def surf(engine):
                    try:
                        r = engine.match(copy.deepcopy(txns[i]), data_sources=copy.deepcopy(rowsets[i]))
                        return repr((sorted(r.tags), sorted((k, repr(v)) for k, v in r.extra_fields.items())))
                    except Exception as ex:
                        return 'raises ' + type(ex).__name__
                got, want = surf(eng), surf(parse_merchants(text))
                rec.case()
                rec.count('engine_state_probes')
                if got != want:
                    rec.violation('value-carried-over-from-an-earlier-transaction', f'variable `v = {e}`: transaction {i} matched after {order[:order.index(i)]} on the same engine '
                                  f'gives {got[:160]}, a fresh engine gives {want[:160]}', {'kind': 'engine-state'})
                    break


def generator_tag_probe(rec, ep):
    """A generator expression used as a tag / field / transform value must not leak its repr into user-visible output."""
    from tally.merchant_engine import parse_merchants
    text = '[P]\nmatch: true\ncategory: C\nfield: g = (r.amt for r in rows)\ntags: {(r for r in rows)}\n'
    res = parse_merchants(text).match(copy.deepcopy(TXN), data_sources=copy.deepcopy(ROWS))
    leaks = [t for t in res.tags if 'generator object' in t or ' at 0x' in t]
    if leaks:
        rec.violation('generator-repr-in-tag', f'tags: {{(r for r in rows)}} produced the tag {leaks[0]!r}', {'kind': 'genprobe'})
    import types
    if any(isinstance(v, types.GeneratorType) for v in res.extra_fields.values()):
        rec.violation('generator-object-as-extra-field', 'field: g = (r.amt for r in rows) stores a live generator object in extra_fields '
                      '(not serialisable into the report)', {'kind': 'genprobe'})


def replay(rec, case):
    core.import_tally()
    from tally import expr_parser as ep
    prewarm(ep)
    mon.audit_install()
    mon.install_value_monitor(ep)
    mon.call_monitor_arm(ep, (ep.TransactionEvaluator, ep.ExpressionEvaluator, ep.TransactionContext, ep.ExpressionContext, ast.AST))
    if case.get('kind') == 'genprobe':
        generator_tag_probe(rec, ep)
        return
    if case.get('kind') == 'loader-rows':
        loader_rows_probe(rec, ep)
        return
    if case.get('kind') == 'engine-state':
        engine_state_probe(rec, ep)
        return
    rnd = core.rng_for('C03', 'replay')
    s = case['s']
    run_bare(rec, ep, s, {})
    run_views_bare(rec, ep, s, {})
    for _ in range(30):
        run_file_contexts(rec, ep, s, rnd)

"""C13 - the report's in-browser classification equals the command-line classification.

Differential execution: the classification block of the *current* spending_report.js is run under node
(node:vm) on the same (amount, tags) inputs as tally.classification's Python functions.
"""
import itertools
from datetime import datetime
import json
import os
import re
import shutil
import subprocess
import tempfile

from vt import core

SPEC = {
    'level': 'exploration',
    'shards': {'quick': 1, 'thorough': 4},
    'rule': ('inputs = grid of amounts (negative, -0.0, 0, tiny, fractional, large, 2^53) x tag lists (every subset of '
             '{income, investment, transfer} x 5 letter-case spellings x {alone, mixed with ordinary/non-ASCII tags, '
             'duplicated, reordered} + [], null, missing) enumerated completely, plus random pairs and random cash-flow '
             'triples; a pair is non-trivial when it carries >=2 special tags, a non-lower-case special tag, or amount <= 0; '
             'distinct = distinct (amount, tags) pairs'),
    'exhaustive': {'quick': True, 'thorough': True},
    'required_counters': ['js_pairs_evaluated', 'py_pairs_evaluated', 'cashflow_triples', 'report_level_pairs'],
    'assumptions': ['node v20 executes the block as a browser would (no DOM/Vue use inside the block)',
                    'amounts are IEEE doubles on both sides (tally parses amounts with float())'],
}

JS_DRIVER = r"""
const vm = require('node:vm'); const fs = require('node:fs');
const block = fs.readFileSync(process.argv[2], 'utf8');
const inp = JSON.parse(fs.readFileSync(process.argv[3], 'utf8'));
const stub = () => { const app = {component() { return app; }, use() { return app; }, mount() { return app; }, directive() { return app; }, config: {globalProperties: {}}}; return app; };
const Vue = new Proxy({}, {get: (t, k) => k === 'createApp' ? stub : (k === 'defineComponent' ? (x => x) : ((...a) => a[0]))});
// (argv[4] === 'whole': `block` is the ENTIRE script the page loads, evaluated the way a browser does - one script, later declarations included)
const ctx = vm.createContext(process.argv[4] === 'whole' ? {Vue, window: {}, document: {}, console} : {});
vm.runInContext(block + `
;globalThis.__api = {categorizeAmount, isExcludedFromSpending, calculateCashFlow,
  isIncome: (typeof isIncome === 'function') ? isIncome : null,
  isTransfer: (typeof isTransfer === 'function') ? isTransfer : null,
  isInvestment: (typeof isInvestment === 'function') ? isInvestment : null};`, ctx);
const api = ctx.__api;
const out = {pairs: [], flows: []};
for (const p of inp.pairs) {
  const amount = p.a === 'NEGZERO' ? -0 : p.a;
  const args = p.missing ? [amount] : [amount, p.t];
  let r;
  try {
    const c = api.categorizeAmount(...args);
    r = {c: c, ex: api.isExcludedFromSpending(p.missing ? undefined : p.t),
         inc: api.isIncome ? api.isIncome(p.missing ? undefined : p.t) : null,
         tr: api.isTransfer ? api.isTransfer(p.missing ? undefined : p.t) : null,
         inv: api.isInvestment ? api.isInvestment(p.missing ? undefined : p.t) : null};
  } catch (e) { r = {error: String(e)}; }
  out.pairs.push(r);
}
for (const f of inp.flows) out.flows.push(api.calculateCashFlow(f[0], f[1], f[2]));
process.stdout.write(JSON.stringify(out));
"""

APP_DRIVER = r"""
// The page's own script, whole, with Vue replaced by a stub that keeps the options object given to createApp(): setup() is then run once per report
// (window.spendingData = that report's data, no filter active) and the computed `filteredViewTotals` is read - the totals the page shows.
const vm = require('node:vm'); const fs = require('node:fs');
const script = fs.readFileSync(process.argv[2], 'utf8');
const reports = JSON.parse(fs.readFileSync(process.argv[3], 'utf8'));
function hole() { const f = function () { return p; }; const p = new Proxy(f, {get: (t, k) => (k === Symbol.toPrimitive ? () => '' : (k === 'length' ? 0 : p)), apply: () => p, construct: () => p, has: () => false}); return p; }
let captured = null;
const app = {component() { return app; }, use() { return app; }, mount() { return app; }, directive() { return app; }, config: {globalProperties: {}}};
const Vue = {createApp: o => { captured = o; return app; }, defineComponent: x => x, ref: v => ({value: v}), reactive: x => x, shallowRef: v => ({value: v}),
  computed: f => (typeof f === 'function' ? {get value() { return f(); }} : {get value() { return f.get(); }, set value(v) { f.set(v); }}),
  watch: () => {}, watchEffect: () => {}, onMounted: () => {}, onUnmounted: () => {}, onBeforeUnmount: () => {}, nextTick: f => (f ? f() : Promise.resolve())};
const store = {spendingData: null};
const win = new Proxy(store, {get: (t, k) => (k in t ? t[k] : hole())});
const ctx = vm.createContext({Vue, window: win, document: hole(), localStorage: {getItem: () => null, setItem() {}}, console, setTimeout: () => 0, clearTimeout() {}, Chart: hole()});
vm.runInContext(script, ctx);
const out = [];
for (const data of reports) {
  store.spendingData = data;
  try { const st = captured.setup(); out.push(st.filteredViewTotals.value); } catch (e) { out.push({error: String(e)}); }
}
process.stdout.write(JSON.stringify(out));
"""

SPECIAL = ['income', 'investment', 'transfer']
ORDINARY = ['groceries', 'Recurring', 'café', 'ÜBER', '東京', 'incomes', 'transfers', 'invest', 'in come', '',
            # ordinary words that are also property names of every JavaScript object
            'constructor', '__proto__', 'toString', 'hasOwnProperty', 'valueOf', 'CONSTRUCTOR', '__PROTO__', 'prototype', 'length', 'tostring']
# near misses: a normalisation added on one side only (trim, NFKC, strip punctuation, prefix match) shows up here
for _t in ('income', 'investment', 'transfer'):
    ORDINARY += [' ' + _t, _t + ' ', '\t' + _t.upper(), _t + '\n', '#' + _t, _t + 's', _t[:-1], _t.replace('e', 'é', 1),
                 _t[:2] + '-' + _t[2:], _t + ':2025', ''.join(chr(ord(c) + 0xFEE0) for c in _t), _t.replace('i', 'ı').replace('I', 'İ'),
                 'non' + _t, _t + '_tax',
                 # letters that only a Unicode case FOLD (not lower-casing) maps onto the word: long s, the st ligature, sharp s
                 _t.replace('s', '\u017f'), _t.upper().replace('ST', '\ufb06'), _t.replace('s', '\u00df'), _t.replace('i', '\u0130').upper(),
                 _t.upper().replace('K', '\u212a'), _t.replace('i', '\u0130', 1), _t.upper().replace('I', '\u0130', 1), _t.upper(),
                 # one tag whose text contains a comma (a tag list joined by commas must not be mistaken for it, and vice versa)
                 'bonus,' + _t, _t + ',bonus', _t + ',', ',' + _t,
                 # characters that only ONE of Python's str.strip() and JavaScript's trim() regards as white space (BOM; NEL, FS-US), and ones both / neither do
                 '\ufeff' + _t, _t.upper() + '\ufeff', _t + '\u0085', '\x1c' + _t, _t + '\x1f', '\x1d' + _t.title(), _t + '\u00a0', '\u2003' + _t, _t + '\u200b',
                 '\u180e' + _t, _t + '\u2028']


def extract_block(js):
    """From the first `const INCOME_TAG` up to the first top-level statement that uses defineComponent(."""
    start = js.find('const INCOME_TAG')
    if start < 0:
        m = re.search(r'^(const|let|var)\s+INCOME_TAG\b', js, re.M)
        if not m:
            return None
        start = m.start()
    m = re.search(r'^(const|let|var)\s+\w+\s*=\s*defineComponent\(', js[start:], re.M)
    end = start + m.start() if m else len(js)
    block = js[start:end]
    if 'function categorizeAmount' not in block and 'categorizeAmount' not in block:
        return None
    return block


def spellings(tag, rnd):
    alt = ''.join(c.upper() if i % 2 else c.lower() for i, c in enumerate(tag))
    rand = ''.join(c.upper() if rnd.random() < .5 else c for c in tag)
    return [tag, tag.upper(), tag.title(), alt, rand]


def grid(rnd, t, shard):
    amounts = [-1e12, -1234.56, -1.0, -0.01, 'NEGZERO', 0.0, 1e-9, 0.01, 1.0, 99.99, 1234.5, 1e12, float(2 ** 53 + 1), -5e-324]
    taglists = [[], None, 'MISSING']
    for r in range(1, 4):
        for sub in itertools.combinations(SPECIAL, r):
            for order in itertools.permutations(sub):
                sp = [spellings(x, rnd) for x in order]
                for combo in itertools.product(*sp):
                    combo = list(combo)
                    taglists.append(combo)
                    taglists.append([rnd.choice(ORDINARY)] + combo)
                    taglists.append(combo + [rnd.choice(ORDINARY), rnd.choice(ORDINARY)])
                    taglists.append(combo + combo[:1])
    for o in ORDINARY:
        taglists.append([o])
    # lists that coincide once joined by ',' ';' ' ' or '|' (all pairs are evaluated in ONE script context, like one page load,
    # so a memo keyed by the joined text would hand one list the other's answer), in both orders of arrival
    for sp_ in SPECIAL:
        for o in ('bonus', 'salary', 'x'):
            for sep in (',', ';', ' ', '|', ''):
                a_, b_ = [o, sp_], [o + sep + sp_]
                c_, d_ = [sp_, o + '2'], [sp_ + sep + o + '2']
                taglists += [a_, b_, d_, c_]
    pairs = [(a, tl) for a in amounts for tl in taglists]
    extra = 2000 if t == 'quick' else 60000
    for _ in range(extra):
        a = rnd.choice([round(rnd.uniform(-5000, 5000), 2), rnd.uniform(-1e6, 1e6), float(rnd.randint(-10, 10)),
                        rnd.choice(amounts)])
        k = rnd.randint(0, 4)
        tl = []
        for _ in range(k):
            if rnd.random() < .6:
                tl.append(rnd.choice(spellings(rnd.choice(SPECIAL), rnd)))
            else:
                tl.append(rnd.choice(ORDINARY))
        pairs.append((a, tl))
    return pairs


def py_side(cl, a, tl):
    amount = -0.0 if a == 'NEGZERO' else float(a)
    if tl == 'MISSING':
        tags = None
    else:
        tags = tl
    c = cl.categorize_amount(amount, tags)
    return {'c': {'income': c['income'], 'investment': c['investment'], 'transferIn': c['transfer_in'],
                  'transferOut': c['transfer_out'], 'spending': c['spending'], 'credits': c['credits']},
            'ex': bool(cl.is_excluded_from_spending(tags)), 'inc': bool(cl.is_income(tags)),
            'tr': bool(cl.is_transfer(tags)), 'inv': bool(cl.is_investment(tags))}


def classify_key(a, tl, js, py):
    if 'error' in js:
        return 'js-raises'
    for k in ('ex', 'inc', 'tr', 'inv'):
        if js.get(k) is not None and js[k] != py[k]:
            return 'predicate-differs:' + k
    jb = sorted(k for k, v in js['c'].items() if v != 0)
    pb = sorted(k for k, v in py['c'].items() if v != 0)
    if jb != pb:
        return 'bucket-differs'
    return 'bucket-value-differs'


def judge_pairs(rec, pairs, flows, py_pairs=None, label='', py_excluded=None, whole=False):
    tally = core.import_tally()
    from tally import classification as cl
    node = shutil.which('node') or shutil.which('nodejs')
    if not node:
        raise core.Inconclusive('node is not installed')
    js_path = os.path.join(os.path.dirname(tally.__file__), 'spending_report.js')
    block = open(js_path, encoding='utf-8').read() if whole else extract_block(open(js_path, encoding='utf-8').read())
    if not block:
        raise core.Inconclusive('classification block not found in spending_report.js')
    tmp = tempfile.mkdtemp(prefix='vt-c13-')
    try:
        with open(os.path.join(tmp, 'block.js'), 'w', encoding='utf-8') as f:
            f.write(block)
        with open(os.path.join(tmp, 'driver.js'), 'w') as f:
            f.write(JS_DRIVER)
        with open(os.path.join(tmp, 'in.json'), 'w') as f:
            json.dump({'pairs': [{'a': a, 't': (None if tl == 'MISSING' else tl), 'missing': tl == 'MISSING'}
                                 for a, tl in pairs], 'flows': flows}, f)
        p = subprocess.run([node, os.path.join(tmp, 'driver.js'), os.path.join(tmp, 'block.js'),
                            os.path.join(tmp, 'in.json')] + (['whole'] if whole else []), capture_output=True, text=True, timeout=600)
        if p.returncode != 0 and whole:
            rec.count('whole_script_not_evaluable_under_the_stub')
            rec.unsure('the whole spending_report.js could not be evaluated under the Vue stub: ' + p.stderr.strip()[-200:])
            return
        if p.returncode != 0:
            raise core.Inconclusive('node failed on the extracted block: ' + p.stderr.strip()[-300:])
        out = json.loads(p.stdout)
        # the report is opened on machines of every language: the same pairs evaluated by a JavaScript engine whose locale is Turkish / Lithuanian (the two
        # whose lower-casing differs from the locale-independent one) give the same answers
        for loc in ('tr_TR.UTF-8', 'lt_LT.UTF-8'):
            p2 = subprocess.run([node, os.path.join(tmp, 'driver.js'), os.path.join(tmp, 'block.js'), os.path.join(tmp, 'in.json')] + (['whole'] if whole else []),
                                capture_output=True, text=True, timeout=600, env=dict(os.environ, LC_ALL=loc, LANG=loc, LANGUAGE=loc.split('.')[0]))
            rec.count('pair_sets_evaluated_under_another_reader_locale')
            if p2.returncode == 0:
                out2 = json.loads(p2.stdout)
                bad = [(pr, a_, b_) for pr, a_, b_ in zip(pairs, out['pairs'], out2['pairs']) if a_ != b_]
                if bad:
                    rec.violation('classification-depends-on-the-readers-locale', f'JavaScript locale {loc}: amount={bad[0][0][0]!r} tags={bad[0][0][1]!r}: {bad[0][2]} there, '
                                  f'{bad[0][1]} under the default locale ({len(bad)} pairs differ)', {'kind': 'pair', 'a': bad[0][0][0], 't': bad[0][0][1], 'before': [], 'whole': whole})
    finally:
        shutil.rmtree(tmp, ignore_errors=True)
    for idx, ((a, tl), js) in enumerate(zip(pairs, out['pairs'])):
        rec.case()
        rec.count('js_pairs_evaluated')
        py = py_side(cl, *(py_pairs[idx] if py_pairs is not None else (a, tl)))
        if py_excluded is not None:
            py['ex'] = py_excluded[idx]          # the decision the command-line analysis actually TOOK for this merchant (kept out of every spending view or not)
        rec.count('py_pairs_evaluated')
        tags = [] if tl in (None, 'MISSING') else tl
        specials = [x for x in tags if x.lower() in SPECIAL]
        neg = a == 'NEGZERO' or a <= 0
        if len(specials) >= 2 or any(x != x.lower() for x in specials) or neg:
            rec.interesting(['pair', a, tl])
        bucket = next((k for k, v in py['c'].items() if v != 0), 'zero')
        rec.count('bucket:' + bucket)
        same = ('error' not in js and js['c'] == py['c'] and js['ex'] == py['ex'] and
                all(js[k] is None or js[k] == py[k] for k in ('inc', 'tr', 'inv')))
        if not same:
            rec.violation(classify_key(a, tl, js, py) + label,
                          f'amount={a!r} tags={tl!r}{(" (analysis holds " + repr(py_pairs[idx][1]) + ")") if py_pairs is not None else ""}: JS {js} != Python {py}',
                          {'kind': 'pair' if py_pairs is None else 'report-level', 'a': a, 't': tl, 'before': [list(x) for x in pairs[max(0, idx - 3):idx]], 'whole': whole})
    for f3, jv in zip(flows, out['flows']):
        rec.case()
        rec.count('cashflow_triples')
        pv = cl.calculate_cash_flow(*f3)
        if pv != jv:
            rec.violation('cashflow-differs', f'calculateCashFlow{tuple(f3)}: JS {jv} != Python {pv}',
                          {'kind': 'flow', 'f': f3})
        if f3[2] != 0 and f3[1] != f3[0]:
            rec.interesting(['flow'] + f3)


def retagged_list_probe(rec):
    """A caller keeps ONE tag list and edits it in place (a transaction re-tagged and analysed again): every classification answers for what the list holds NOW."""
    core.import_tally()
    from tally import classification as cl
    live = ['income']
    contents = [['income'], ['groceries'], ['Transfer', 'x'], [], ['investment'], ['INCOME', 'investment'], ['refund']]

    def ask(a, tags):
        return (cl.categorize_amount(a, tags), cl.normalize_amount(a, tags), cl.is_excluded_from_spending(tags), cl.is_income(tags), cl.is_transfer(tags), cl.is_investment(tags))
    wants = {(i, a): ask(a, list(c)) for i, c in enumerate(contents) for a in (250.0, -250.0)}      # (asked first: nothing but the live list is classified below)
    for step, content in enumerate(contents):
        live[:] = content
        for a in (250.0, -250.0):
            rec.case()
            rec.count('classifications_of_a_list_edited_in_place')
            got = ask(a, live)
            want = wants[(step, a)]
            if got != want:
                rec.violation('classification-remembers-an-earlier-tag-list', f'step {step}: the caller\'s list now holds {content}: amount {a} classified as {got[0]}, a fresh list '
                              f'with the same tags gives {want[0]}', {'kind': 'retagged'})
                return


def page_totals(rec, pages):
    """"... so totals recomputed in the browser agree with the totals tally prints": the page's own script is run (Vue stubbed, no filter active) over the
    data of each generated report; its `filteredViewTotals` are the analysed totals of that report."""
    if not pages:
        return
    tally = core.import_tally()
    node = shutil.which('node') or shutil.which('nodejs')
    js_path = os.path.join(os.path.dirname(tally.__file__), 'spending_report.js')
    tmp = tempfile.mkdtemp(prefix='vt-c13a-')
    try:
        with open(os.path.join(tmp, 'app.js'), 'w') as f:
            f.write(APP_DRIVER)
        with open(os.path.join(tmp, 'reports.json'), 'w') as f:
            json.dump([d for d, _ in pages], f)
        p = subprocess.run([node, os.path.join(tmp, 'app.js'), js_path, os.path.join(tmp, 'reports.json')], capture_output=True, text=True, timeout=600)
        if p.returncode != 0:
            rec.count('page_script_not_runnable_under_the_stub')
            rec.unsure('the page script could not be run under the Vue stub: ' + p.stderr.strip()[-200:])
            return
        outs = json.loads(p.stdout)
    finally:
        shutil.rmtree(tmp, ignore_errors=True)
    for (data, want), got in zip(pages, outs):
        rec.case()
        if 'error' in got:
            rec.count('page_setup_raises_under_the_stub')
            continue
        rec.count('page_total_recomputations')
        diff = {k: (got.get(k.split(' (')[0]), want[k]) for k in want if abs((got.get(k.split(' (')[0]) or 0) - want[k]) > (0.006 if '(JSON' in k else 1e-6 * (1 + abs(want[k])))}
        if diff:
            mixed = any(len({tuple(sorted(x.lower() for x in t.get('tags') or [] if x.lower() in SPECIAL)) for t in m['transactions']}) > 1
                        for cat in data['categoryView'].values() for sub in cat['subcategories'].values() for m in sub['merchants'].values())
            rec.violation('page-totals-differ-from-printed-totals' + (':merchant-with-differently-tagged-transactions' if mixed else ''),
                          f'totals the page computes from its data (no filter active) vs the totals tally prints: {diff}', {'kind': 'report-level'})
            return


def report_level(rec, rnd, n):
    """End to end for the tag lists: the (amount, tags) pairs the PAGE holds for each merchant (decoded from a real report) go to the JavaScript,
    the pairs the ANALYSIS holds for the same merchant go to Python.  Whatever the report writer does to the tag list on the way is observed."""
    import copy
    from vt.checks import c12
    tally = core.import_tally()
    from tally import analyzer as A
    tmp = tempfile.mkdtemp(prefix='vt-c13r-')
    js_pairs, py_pairs = [], []
    pages = []
    dec_js, dec_py, dec_ex = [], [], []
    from tally.section_engine import parse_sections
    everything = parse_sections('[Everything]\nfilter: true\n')
    try:
        for k in range(n):
            txns, _ = c12.gen_txns(rnd)
            if k == 1 or k == 2:
                # budgets whose printed totals are EXACTLY zero in one figure: no refund at all but an outgoing card payment tagged transfer (credits 0);
                # income that is spent to the cent (cash flow 0)
                def _t(nm, amt, tags, m):
                    return {'amount': amt, 'tags': tags, 'merchant': nm, 'category': 'Fixed', 'subcategory': 'S', 'date': datetime(2025, m, 5), 'description': nm,
                            'raw_description': nm.upper(), 'source': 'Amex', 'location': None}
                txns = [_t('Grocer', 120.0, [], 1), _t('Grocer', 80.0, [], 2), _t('Card Payment', -500.0, ['transfer'], 2), _t('Broker', -50.0, ['investment'], 3)] if k == 1 else \
                       [_t('Employer', -1450.0, ['income'], 1), _t('Rent', 1000.0, [], 1), _t('Grocer', 450.0, [], 2), _t('To Savings', 300.0, ['transfer'], 2), _t('From Savings', -300.0, ['transfer'], 3)]
                if k == 2:
                    # a payment whose OWN tag list is empty while the rule information attached to it lists a special tag: the transaction's tags are what counts, on both sides
                    txns.append(dict(_t('Side Gig', -900.0, [], 3), match_info={'pattern': 'contains("GIG")', 'source': 'user', 'tags': ['income'], 'tag_sources': {}}))
                    txns.append(dict(_t('Broker Two', 250.0, [], 3), match_info={'pattern': 'contains("BROKER")', 'source': 'user', 'tags': ['investment'], 'tag_sources': {}}))
                rec.count('reports_with_a_total_that_is_exactly_zero')
            if rnd.random() < .3:
                # a category whose merchants cancel exactly (a flight and the insurance pay-out for it): its transactions are classified one by one all the same
                a_ = rnd.choice([300.0, 45.5, 1200.0])
                for nm, sign in (('Fly Away Air', 1), ('Trip Insurance Co', -1)):
                    txns.append({'amount': sign * a_, 'tags': [], 'merchant': nm, 'category': 'Travel', 'subcategory': rnd.choice(['Flights', 'Cover']),
                                 'date': datetime(2025, rnd.randint(1, 12), rnd.randint(1, 28)), 'description': nm, 'raw_description': nm.upper() + ' 1',
                                 'source': 'Amex', 'location': None})
                rec.count('reports_with_a_category_that_nets_to_zero')
            stats = A.analyze_transactions(copy.deepcopy(txns))
            listed = {name for name, _d in A.classify_by_sections(stats['by_merchant'], everything, num_months=stats.get('num_months', 12)).get('Everything', [])}
            path = os.path.join(tmp, 'r%d.html' % k)
            A.write_summary_file_vue(stats, path, year=2025, currency_format='${amount}', sources=['Amex'], embedded_html=True)
            data, err = c12.extract_data(open(path, encoding='utf-8').read())
            os.unlink(path)
            if k % 10 == 0:
                # the report with its files beside it, written into a folder that holds an older release's script: the page must load the classification
                # code of THIS release (the one the command line just used), so the script on disk is the installed one
                d2 = os.path.join(tmp, 'ext%d' % k)
                os.makedirs(d2)
                with open(os.path.join(d2, 'spending_report.js'), 'w') as fh:
                    fh.write('// spending_report.js of an older release\nfunction categorizeAmount(a, t) { return {income: 0, investment: 0, transferIn: 0, transferOut: 0, spending: a, credits: 0}; }\n')
                A.write_summary_file_vue(stats, os.path.join(d2, 'r.html'), year=2025, currency_format='${amount}', sources=['Amex'], embedded_html=False)
                rec.count('external_reports_over_an_older_script')
                if open(os.path.join(d2, 'spending_report.js'), encoding='utf-8').read() != open(os.path.join(os.path.dirname(tally.__file__), 'spending_report.js'), encoding='utf-8').read():
                    rec.violation('page-loads-an-older-releases-classification-code', 'after writing the report again (files beside the page) the folder still holds the OLD spending_report.js: '
                                  'the browser classifies with other code than the command line', {'kind': 'report-level'})
                shutil.rmtree(d2, ignore_errors=True)
            if err:
                continue
            rec.count('reports_decoded')
            n_page = sum(len(m['transactions']) for cat in data['categoryView'].values() for sub in cat['subcategories'].values() for m in sub['merchants'].values())
            n_cli = sum(len(d.get('transactions') or []) for d in stats['by_merchant'].values())
            pages.append((data, {'income': stats['income_total'], 'spending': stats['spending_total'], 'credits': stats['credits_total'],
                                 'investment': stats['investment_total'], 'transfers': stats['transfers_in'] - stats['transfers_out']}))
            # ... and the same totals as `tally up --format json` prints them
            try:
                summ = json.loads(A.export_json(stats))['summary']
                pages[-1][1].update({'income (JSON summary)': summ['income_total'], 'credits (JSON summary)': summ['credits_total']})
                rec.count('json_summaries_compared_with_the_page')
            except Exception as e:
                rec.violation('export_json-fails', f'{type(e).__name__}: {e}', {'kind': 'report-level'})
            rec.count('page_vs_analysis_transaction_counts')
            if n_page != n_cli:
                rec.violation('transactions-missing-from-what-the-page-classifies', f'the analysis classified {n_cli} transactions, the data the page recomputes its totals from '
                              f'holds {n_page}', {'kind': 'report-level'})
            for cat in data['categoryView'].values():
                for sub in cat['subcategories'].values():
                    for m in sub['merchants'].values():
                        held = sorted(stats['by_merchant'].get(m['displayName'], {}).get('tags', set()))
                        for tx in m['transactions'][:3]:
                            js_pairs.append((tx['amount'], list(m.get('tags') or [])))
                            py_pairs.append((tx['amount'], held))
                        if m['displayName'] in stats['by_merchant']:
                            # the decision as TAKEN by the command-line analysis: a merchant excluded from spending is in no view, every other merchant is in [Everything]
                            dec_js.append((1.0, list(m.get('tags') or [])))
                            dec_py.append((1.0, held))
                            dec_ex.append(m['displayName'] not in listed)
    finally:
        shutil.rmtree(tmp, ignore_errors=True)
    rec.count('report_level_pairs', len(js_pairs))
    if js_pairs:
        judge_pairs(rec, js_pairs, [], py_pairs=py_pairs, label=':tags-as-delivered-by-the-report')
    page_totals(rec, pages)
    rec.count('excluded_decisions_taken_by_the_analysis', len(dec_js))
    rec.count('merchants_kept_out_of_views', sum(dec_ex))
    if dec_js:
        judge_pairs(rec, dec_js, [], py_pairs=dec_py, label=':decision-taken-for-the-views', py_excluded=dec_ex)


def run(rec, shard, nshards, t):
    rnd = core.rng_for('C13', shard)
    pairs = grid(rnd, t, shard)
    if shard > 0:   # other shards only add random pairs; the grid itself is fully covered by shard 0
        pairs = pairs[-(60000 if t != 'quick' else 2000):]
    flows = []
    for _ in range(3000 if t == 'quick' else 30000):
        flows.append([round(rnd.uniform(0, 1e5), 2), round(rnd.uniform(0, 1e5), 2), round(rnd.uniform(0, 1e4), 2)])
    flows += [[0.0, 0.0, 0.0], [0.1, 0.2, 0.3], [1e12, 0.01, 1e-9], [5.0, 10.0, 0.0]]
    judge_pairs(rec, pairs, flows)
    # the same pairs through the script AS THE PAGE LOADS IT (whole file, one script: a later declaration of the same name replaces an earlier one)
    wp = pairs if shard == 0 else pairs[:4000]
    judge_pairs(rec, wp, flows[:200], label=':whole-script', whole=True)
    rec.count('whole_script_pairs', len(wp))
    report_level(rec, rnd, 60 if t == 'quick' else 1500)
    if shard == 0:
        retagged_list_probe(rec)
    for p in pairs[:3] + pairs[len(pairs) // 2: len(pairs) // 2 + 2]:
        rec.sample({'amount': p[0], 'tags': p[1]})


def replay(rec, case):
    if case.get('kind') == 'retagged':
        retagged_list_probe(rec)
    elif case.get('kind') == 'report-level':
        report_level(rec, core.rng_for('C13', 'replay'), 300)
    elif case.get('kind') == 'flow':
        judge_pairs(rec, [], [case['f']])
    else:
        judge_pairs(rec, [tuple(x) for x in case.get('before', [])] + [(case['a'], case['t'])], [], whole=bool(case.get('whole')), label=':whole-script' if case.get('whole') else '')

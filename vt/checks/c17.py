"""C17 - rule files are read by structure alone; malformed ones are rejected, not trimmed.

  * layout-preserving-edit metamorphic monitors on parse_merchants / parse_sections (comments, blank lines, trailing blanks,
    CRLF, re-indented property lines, permuted distinct properties; merchants files: key letter case, indented headers);
  * section-count invariant: every [section] yields exactly one rule/view with exactly the stated properties, in file order;
  * single-point corruption monitors: each corruption class must raise the loader's parse error with a line number inside
    the corrupted section;
  * CLI monitors: `tally up` and `tally diag` on a budget whose rules / views file is corrupt must tell the user.
"""
import os
import re
import shutil
import subprocess
import tempfile

from vt import core, rules as R, matchobs as O, world

SPEC = {
    'level': 'exploration',
    'shards': {'quick': 8, 'thorough': 16},
    'rule': ('valid merchants files from the rule-file generator and valid views files from a views generator; per file ~12 random '
             'layout-preserving edits (and compositions of them) and ~10 single-point corruptions over 16 corruption classes; CLI part on '
             'generated budgets. Non-trivial = file with >=3 sections where the edit/corruption touches a section other than the last; '
             'distinct by (file digest, edit description)'),
    'exhaustive': {'quick': False, 'thorough': False},
    'required_counters': ['merchants_layout_checks', 'views_layout_checks', 'merchants_corruptions_rejected', 'views_corruptions_rejected',
                          'section_count_checks', 'cli_corrupt_runs'],
    'assumptions': ['not asserted (statement silent): garbage before the first section of a merchants file, duplicate properties, '
                    'invalid {tag} expressions, inline # comments after a value'],
}


def m_obs(text, mode='first_match'):
    eng = O.load_engine(text, mode)
    return {'rules': [(r.name, r.match_expr, r.category, r.subcategory, r.merchant, tuple(sorted(r.tags)), r.priority,
                       tuple(map(tuple, r.let_bindings)), tuple(r.fields.items())) for r in eng.rules],
            'variables': list(eng.variables.items()), 'transforms': [tuple(t) for t in eng.transforms]}


def m_obs_disk(text, mode='first_match'):
    """The same observation for a file ON DISK (written byte for byte, read the way the commands read it)."""
    from pathlib import Path
    from tally.merchant_engine import load_merchants_file
    d = tempfile.mkdtemp(prefix='vt-c17-d-')
    try:
        pth = os.path.join(d, 'merchants.rules')
        with open(pth, 'w', encoding='utf-8', newline='') as f:
            f.write(text)
        eng = load_merchants_file(Path(pth), match_mode=mode)
        return {'rules': [(r.name, r.match_expr, r.category, r.subcategory, r.merchant, tuple(sorted(r.tags)), r.priority,
                           tuple(map(tuple, r.let_bindings)), tuple(r.fields.items())) for r in eng.rules],
                'variables': list(eng.variables.items()), 'transforms': [tuple(t) for t in eng.transforms]}
    finally:
        shutil.rmtree(d, ignore_errors=True)


def v_obs(text):
    from tally.section_engine import parse_sections
    c = parse_sections(text)
    return {'globals': list(c.global_variables.items()),
            'sections': [(s.name, s.filter_expr, tuple(s.variables.items()), s.description) for s in c.sections]}


# ----------------------------------------------------------------------------------------------- structured text
def m_blocks(rf):
    """[(kind, [lines])]: preamble lines individually, then one block per rule (header + property lines)."""
    pre = ['%s = %s' % (n, e) for n, e in rf.variables] + ['%s = %s' % (p, e) for p, e in rf.transforms]
    return pre, [R.render_rule(r) for r in rf.rules]


VIEW_FILTERS = ['category == "Food"', 'months >= 6 and cv < 0.3', 'total > 1000 and months <= 3', '"business" in tags',
                'max(sum(by("month"))) > 500', 'months >= max_val(2, period("month") * 0.5)', 'true', 'avg(payments) > lim',
                'subcategory == "Grocery" or subcategory == "Delivery"', 'not (total < 0)', 'count(payments) >= 3 and is_freq',
                'stddev(payments) / avg(payments) < 0.3', 'merchant == "Netflix"', 'sum(payments) % 2 == 0',
                # blanks INSIDE a string literal are part of the text compared (a category spelled with two blanks, a tab)
                'category == "Food  Court"', '"a  b" in tags or subcategory == "x\ty"', 'merchant ==   "Big   Box"']
VIEW_VARS = [('lim', '100'), ('is_freq', 'months >= 6'), ('cvx', 'stddev(payments) / avg(payments)'), ('half', 'total / 2')]


def gen_views(rnd):
    pre = rnd.sample(['%s = %s' % v for v in VIEW_VARS], rnd.randint(0, 3))
    blocks = []
    for i in range(rnd.randint(1, 6)):
        b = ['[%s %d]' % (rnd.choice(['Every Month', 'Travel', 'Big', 'Food & Dining', 'Tagged: Business']), i)]
        props = []
        if rnd.random() < .4:
            props.append('description: %s' % rnd.choice(['Recurring stuff', 'Big one-offs: > $1,000', 'x = y (not a variable?)'][:2]))
        for v in rnd.sample(VIEW_VARS, rnd.randint(0, 2)):
            props.append('%s = %s' % (v[0] + '_l', v[1]))
        props.append('filter: %s' % rnd.choice(VIEW_FILTERS))
        b += props
        blocks.append(b)
    return pre, blocks


def assemble(pre, blocks, sep='\n'):
    lines = ['# header comment'] + pre + ['']
    for b in blocks:
        lines += b + ['']
    return sep.join(lines)


COMMENTS = ['# a comment', '#', '   # indented comment', '', '   ', '\t', '# [Not A Section]', '# match: contains("X")', '#filter: true',
            '# was:\x0ccategory: Sports', '# note\u2028[Ghost]', '# nel\x85filter: false', '# fs\x1cmatch: true',
            # a comment that ends in a backslash (a Windows path): the next line is a line of its own
            '# exported from C:\\budget\\views\\', '# continued \\']


def edit(pre, blocks, rnd, merchants):
    """Apply 1-3 layout-preserving edits; returns (pre, blocks, sep, description)."""
    pre, blocks = list(pre), [list(b) for b in blocks]
    sep, desc = '\n', []
    for _ in range(rnd.randint(1, 3)):
        k = rnd.choice(['comment', 'comment', 'trail', 'crlf', 'indent', 'permute'] + (['keycase', 'hdrindent'] if merchants else []))
        desc.append(k)
        if k == 'comment':
            for _ in range(rnd.randint(1, 4)):
                tgt = rnd.choice([pre] + blocks)
                tgt.insert(rnd.randint(0 if tgt is pre else 1, len(tgt)), rnd.choice(COMMENTS))
        elif k == 'trail':
            for tgt in [pre] + blocks:
                for i in range(len(tgt)):
                    if rnd.random() < .4 and tgt[i].strip() and not tgt[i].lstrip().startswith('#'):
                        tgt[i] = tgt[i] + rnd.choice([' ', '   ', '\t'])
        elif k == 'crlf':
            sep = '\r\n'
        elif k == 'indent':
            for b in blocks:
                for i in range(1, len(b)):
                    if rnd.random() < .6 and b[i].strip():
                        b[i] = rnd.choice(['  ', '    ', '\t', ' ']) + b[i].lstrip()
        elif k == 'permute':
            for b in blocks:
                props = b[1:]
                groups = {}
                for p in props:
                    key = p.split(':', 1)[0].strip().lower() if ':' in p.split('=')[0] else 'var'
                    groups.setdefault(key if key in ('let', 'field', 'var') or not p.strip() or p.lstrip().startswith('#') else 'single:' + key, []).append(p)
                # permute only *distinct* properties; let / field / view-variable lines keep their relative order
                order = list(groups)
                rnd.shuffle(order)
                b[1:] = [p for g in order for p in groups[g]]
        elif k == 'keycase':
            for b in blocks:
                for i in range(1, len(b)):
                    if ':' in b[i] and not b[i].lstrip().startswith('#'):
                        key, rest = b[i].split(':', 1)
                        b[i] = rnd.choice([key.upper(), key.title(), key]) + ':' + rest
        elif k == 'hdrindent':
            for b in blocks:
                if rnd.random() < .5:
                    b[0] = rnd.choice(['  ', '\t']) + b[0]
    return pre, blocks, sep, '+'.join(desc)


# ----------------------------------------------------------------------------------------------- corruptions
def corrupt_merchants(pre, blocks, rnd):
    """Returns (text, class, (lo, hi) allowed 1-based line range of the error) or None."""
    pre, blocks = list(pre), [list(b) for b in blocks]
    if not blocks:
        return None
    i = rnd.randrange(len(blocks))
    b = blocks[i]
    cls = rnd.choice(['equals-for-colon', 'no-match', 'unknown-property', 'bad-let', 'bad-field', 'bad-priority', 'bad-match-expr', 'bad-let-expr', 'bad-field-expr',
                      'no-category-no-tags', 'empty-name', 'garbage-line', 'bad-toplevel-var', 'bad-toplevel-transform', 'unsafe-match-expr', 'header-only'])
    whole_file = False
    if cls == 'header-only':
        # the body of a rule was commented out (or deleted), its header stayed: a section without a single property
        b[:] = [b[0]] + rnd.choice([[], ['# ' + l for l in b[1:]], ['', '# nothing yet']])
    elif cls == 'equals-for-colon':
        # a property of a rule written `key = value` (inside a rule only `let:` / `field:` lines assign): not a stated property, so not acceptable
        b.insert(rnd.randint(1, len(b)), rnd.choice(['priority = 90', 'subcategory = Streaming', 'tags = x', 'category = Food', 'merchant = Shop', 'zz = amount > 5']))
    elif cls == 'no-match':
        b[:] = [l for l in b if not l.lower().startswith('match:')]
    elif cls == 'unknown-property':
        b.insert(rnd.randint(1, len(b)), rnd.choice(['colour: red', 'catgory: Food', 'matches: contains("X")', 'tag: x', 'note: hello', 'sub: x', 'cat: Food', 'categor: Food', 'Merch: X',
                                                  ': value', 'ory: x', 'gory: Food', 'mat: true', 'tag s: a', 'ch: x']))
    elif cls == 'bad-let':
        b.insert(1, rnd.choice(['let: = 5', 'let: 5x = 1', 'let: x', 'let: x y = 1', 'let:']))
    elif cls == 'bad-field':
        b.insert(len(b), rnd.choice(['field: = 1', 'field: a-b = 1', 'field: x', 'field:']))
    elif cls == 'bad-priority':
        b.insert(len(b), rnd.choice(['priority: high', 'priority: 1.5', 'priority: ', 'priority: 1 2']))
    elif cls == 'bad-match-expr':
        b[:] = [('match: ' + rnd.choice(['contains("x"', 'amount >', 'and true', 'contains("x") and', '1 +* 2', '"unterminated'])) if l.lower().startswith('match:') else l for l in b]
    elif cls == 'unsafe-match-expr':
        b[:] = [('match: ' + rnd.choice(['lambda: 1', '[1, 2]', 'f"{amount}"', '{1: 2}', '2 ** 3 > 1', 'amount is None'])) if l.lower().startswith('match:') else l for l in b]
    elif cls == 'bad-let-expr':
        b.insert(1, 'let: zz = ' + rnd.choice(['((', 'lambda: 1', 'a b', '1 +']))
    elif cls == 'bad-field-expr':
        b.insert(len(b), 'field: zz = ' + rnd.choice(['((', '[1]', 'x y', '"a" "b" +']))
    elif cls == 'no-category-no-tags':
        b[:] = [l for l in b if not (l.lower().startswith('category:') or l.lower().startswith('tags:'))]
    elif cls == 'empty-name':
        b[0] = rnd.choice(['[]', '[   ]'])
    elif cls == 'garbage-line':
        b.insert(rnd.randint(1, len(b)), rnd.choice(['just some words', 'contains("X")', '???', '-- note']))
    elif cls == 'bad-toplevel-var':
        pre.insert(rnd.randint(0, len(pre)), rnd.choice(['zz = ((', 'zz = lambda: 1', 'zz = 1 +', 'zz = [1, 2]']))
        whole_file = True
    elif cls == 'bad-toplevel-transform':
        pre.insert(rnd.randint(0, len(pre)), rnd.choice(['field.description = ((', 'field.memo = lambda: 1', 'field.x = "a" +']))
        whole_file = True
    text = assemble(pre, blocks)
    lines = text.split('\n')
    if whole_file:
        lo, hi = 2, 1 + len(pre)
    else:
        start = 0
        cnt = -1
        for ln, l in enumerate(lines, 1):
            if l.startswith('[') and l.rstrip().endswith(']'):
                cnt += 1
                if cnt == i:
                    start = ln
                    break
        lo, hi = start, start + len(b)
    return text, cls, (lo, hi)


def corrupt_views(pre, blocks, rnd):
    pre, blocks = list(pre), [list(b) for b in blocks]
    i = rnd.randrange(len(blocks))
    b = blocks[i]
    cls = rnd.choice(['no-filter', 'bad-filter-expr', 'bad-var-expr', 'garbage-line', 'filter-outside', 'bad-global-expr', 'unsafe-filter-expr'])
    whole = False
    if cls == 'no-filter':
        b[:] = [l for l in b if not l.startswith('filter:')]
    elif cls == 'bad-filter-expr':
        b[:] = [('filter: ' + rnd.choice(['months >=', 'category == "Food', '((', 'and true'])) if l.startswith('filter:') else l for l in b]
    elif cls == 'unsafe-filter-expr':
        b[:] = [('filter: ' + rnd.choice(['lambda: 1', '[1] == [1]', '2 ** 2 > 1', 'f"{total}" == ""'])) if l.startswith('filter:') else l for l in b]
    elif cls == 'bad-var-expr':
        b.insert(1, 'zz = ' + rnd.choice(['((', 'lambda: 1', '1 +']))
    elif cls == 'garbage-line':
        b.insert(rnd.randint(1, len(b)), rnd.choice(['just some words', 'colour: red', '???']))
    elif cls == 'filter-outside':
        pre.insert(0, 'filter: true')
        whole = True
    elif cls == 'bad-global-expr':
        pre.insert(rnd.randint(0, len(pre)), 'zz = ' + rnd.choice(['((', '1 +', 'lambda: 1']))
        whole = True
    text = assemble(pre, blocks)
    lines = text.split('\n')
    if whole:
        lo, hi = 2, 1 + len(pre)
    else:
        cnt, start = -1, 0
        for ln, l in enumerate(lines, 1):
            if re.match(r'^\[[^\]]+\]\s*$', l):
                cnt += 1
                if cnt == i:
                    start = ln
                    break
        lo, hi = start, start + len(b)
    return text, cls, (lo, hi)


# ----------------------------------------------------------------------------------------------- judges
def judge_merchants(rec, rf, rnd, nedits, ncorr):
    from tally.merchant_engine import MerchantParseError
    pre, blocks = m_blocks(rf)
    text = assemble(pre, blocks)
    case0 = {'kind': 'm', 'rf': rf.to_json()}
    try:
        base = m_obs(text)
    except Exception as e:
        rec.violation('valid-merchants-file-rejected', f'{type(e).__name__}: {e}', case0)
        return
    rec.count('section_count_checks')
    # ... in the other rule mode as well: the mode changes how a winner is picked, not what was read from the file nor its order
    try:
        base_ms = m_obs(text, 'most_specific')
        if base_ms != base:
            diff = [k for k in base if base[k] != base_ms[k]]
            rec.violation('rules-read-depend-on-rule-mode', f'most_specific vs first_match loading of the same file differ in {diff}: '
                          f'{[r[0] for r in base_ms["rules"]]} vs {[r[0] for r in base["rules"]]}', case0)
    except Exception as e:
        rec.violation('valid-merchants-file-rejected', f'most_specific: {type(e).__name__}: {e}', case0)
    if len(base['rules']) != len(rf.rules) or [r[0] for r in base['rules']] != [r.name for r in rf.rules]:
        rec.violation('sections-not-one-to-one', f'{len(rf.rules)} sections -> {len(base["rules"])} rules', case0)
    else:
        for got, r in zip(base['rules'], rf.rules):
            want = (r.name, r.match, r.category, r.subcategory, r.merchant or r.name, tuple(sorted({t.strip() for t in r.tags if t.strip()})),
                    50 if r.priority is None else r.priority, tuple((n.lower(), e) for n, e in r.lets), tuple((n.lower(), e) for n, e in r.fields))
            if got != want:
                rec.violation('rule-properties-differ-from-file', f'section [{r.name}]: parsed {got}, file states {want}', case0)
                break
    for _ in range(nedits):
        p2, b2, sep, desc = edit(pre, blocks, rnd, True)
        t2 = assemble(p2, b2, sep)
        rec.case()
        rec.count('merchants_layout_checks')
        rec.count('edit:' + desc.split('+')[0])
        try:
            o2 = m_obs(t2)
        except Exception as e:
            rec.violation('layout-edit-rejected:' + desc.split('+')[-1] if '+' not in desc else 'layout-edit-rejected:' + desc,
                          f'edit {desc}: {type(e).__name__}: {e}', dict(case0, text=t2))
            continue
        if o2 != base:
            diff = [k for k in base if base[k] != o2[k]]
            rec.violation('layout-edit-changes-result:' + desc, f'edit {desc} changes {diff}', dict(case0, text=t2))
        if rnd.random() < .25:
            # the file on disk with the line endings of another system (CR LF, or a lone CR as old Mac tools and some exports write): the same rules
            ending = rnd.choice(['\r', '\r\n', '\r', '\n'])
            t4 = assemble(p2, b2, '\n')
            if '\r' not in t4 and '\x0c' not in t4 and '\x85' not in t4 and '\u2028' not in t4 and '\x1c' not in t4:
                rec.count('files_loaded_from_disk_with_other_line_endings')
                try:
                    o4 = m_obs_disk(t4.replace('\n', ending))
                    if o4 != base:
                        rec.violation('line-endings-on-disk-change-result:' + repr(ending), f'the file written with {ending!r} line endings loads as {[r[0] for r in o4["rules"]]} '
                                      f'instead of {[r[0] for r in base["rules"]]} (differs in {[k for k in base if base[k] != o4[k]]})', dict(case0, text=t4))
                except Exception as e:
                    rec.violation('line-endings-on-disk-rejected:' + repr(ending), f'{type(e).__name__}: {e}', dict(case0, text=t4))
        if len(blocks) >= 3:
            rec.interesting([core.digest(rf.to_json()), desc, core.digest(t2)])
    for _ in range(ncorr):
        c = corrupt_merchants(pre, blocks, rnd)
        if c is None:
            break
        t3, cls, (lo, hi) = c
        if rnd.random() < .4:
            k = rnd.randint(1, 3)
            t3, lo, hi = rnd.choice(['\n', '\n', '  \n']) * k + t3, lo + k, hi + k
        rec.case()
        try:
            m_obs(t3)
            rec.violation('corruption-accepted:' + cls, f'{cls}: corrupted file accepted', dict(case0, text=t3))
        except MerchantParseError as e:
            rec.count('merchants_corruptions_rejected')
            rec.count('corr:' + cls)
            if not e.line_number or not (lo <= e.line_number <= hi):
                rec.violation('corruption-error-line-outside-section:' + cls, f'{cls}: error "{e}" names line {e.line_number}, corrupted section spans {lo}-{hi}',
                              dict(case0, text=t3))
        except Exception as e:
            rec.violation('corruption-raises-other:' + cls, f'{cls}: {type(e).__name__}: {e}', dict(case0, text=t3))


def judge_views(rec, rnd, nedits, ncorr):
    from tally.section_engine import SectionParseError
    pre, blocks = gen_views(rnd)
    text = assemble(pre, blocks)
    case0 = {'kind': 'v', 'text0': text}
    try:
        base = v_obs(text)
    except Exception as e:
        rec.violation('valid-views-file-rejected', f'{type(e).__name__}: {e}', case0)
        return
    rec.count('section_count_checks')
    if [s[0] for s in base['sections']] != [b[0][1:-1].strip() for b in blocks]:
        rec.violation('views-sections-not-one-to-one', f'{[b[0] for b in blocks]} -> {[s[0] for s in base["sections"]]}', case0)
    else:
        # every view carries exactly the properties ITS section states (filter, description, its own local variables in order) - nothing of its neighbours
        for got, b in zip(base['sections'], blocks):
            flt = [l.split(':', 1)[1].strip() for l in b[1:] if l.startswith('filter:')][0]
            dsc = ([l.split(':', 1)[1].strip() for l in b[1:] if l.startswith('description:')] or [None])[0]
            loc = tuple(tuple(x.strip() for x in l.split('=', 1)) for l in b[1:] if not l.startswith(('filter:', 'description:')))
            rec.count('view_properties_vs_file_checks')
            got_dsc = got[3] if got[3] else None
            if got[1] != flt or tuple(got[2]) != loc or (got_dsc or None) != (dsc or None):
                rec.violation('view-properties-differ-from-file', f'section {b[0]}: parsed filter={got[1]!r} variables={got[2]} description={got[3]!r}; the file states '
                              f'filter={flt!r} variables={loc} description={dsc!r}', case0)
                break
        want_gl = [tuple(x.strip() for x in l.split('=', 1)) for l in pre]
        if [tuple(g) for g in base['globals']] != want_gl:
            rec.violation('view-globals-differ-from-file', f'{base["globals"]} vs {want_gl}', case0)
    for _ in range(nedits):
        p2, b2, sep, desc = edit(pre, blocks, rnd, False)
        t2 = assemble(p2, b2, sep)
        rec.case()
        rec.count('views_layout_checks')
        try:
            o2 = v_obs(t2)
        except Exception as e:
            rec.violation('views-layout-edit-rejected:' + desc, f'edit {desc}: {type(e).__name__}: {e}', dict(case0, text=t2))
            continue
        if o2 != base:
            rec.violation('views-layout-edit-changes-result:' + desc, f'edit {desc}: {o2} vs {base}', dict(case0, text=t2))
        if len(blocks) >= 3:
            rec.interesting(['v', core.digest(text), desc, core.digest(t2)])
    for _ in range(ncorr):
        t3, cls, (lo, hi) = corrupt_views(pre, blocks, rnd)
        if rnd.random() < .4:
            k = rnd.randint(1, 3)        # the file begins with blank lines: they count as lines
            t3, lo, hi = rnd.choice(['\n', '\n', '  \n']) * k + t3, lo + k, hi + k
        rec.case()
        try:
            v_obs(t3)
            rec.violation('views-corruption-accepted:' + cls, f'{cls}: corrupted views file accepted', dict(case0, text=t3))
        except SectionParseError as e:
            rec.count('views_corruptions_rejected')
            rec.count('vcorr:' + cls)
            if not e.line_number or not (lo <= e.line_number <= hi):
                rec.violation('views-corruption-error-line-outside-section:' + cls, f'{cls}: "{e}" names line {e.line_number}, section spans {lo}-{hi}',
                              dict(case0, text=t3))
        except Exception as e:
            rec.violation('views-corruption-raises-other:' + cls, f'{cls}: {type(e).__name__}: {e}', dict(case0, text=t3))


def views_disk_probe(rec, tmp):
    """A views file is read from disk as the text it holds: names, descriptions and string literals with characters that have look-alikes (TM sign, ellipsis,
    vulgar fraction, full-width letters) arrive unchanged, and a line whose colon is a full-width look-alike is as malformed on disk as in memory."""
    from tally.section_engine import load_sections, parse_sections, SectionParseError
    text = ('limit = 100\n\n[Kids\u2122]\ndescription: toys\u2026 and \u00bd price deals\nfilter: category == "Kids\u2122" or subcategory == "\uff21\uff22"\n\n'
            '[Caf\u00e9 \u2460]\nnote = "\ufb01ne"\nfilter: total > limit\n')
    path = os.path.join(tmp, 'views-disk.rules')
    with open(path, 'w', encoding='utf-8') as f:
        f.write(text)
    rec.case()
    rec.count('views_files_read_from_disk_checks')
    try:
        a, b = load_sections(path), parse_sections(text)
        sa = [(x.name, x.filter_expr, tuple(x.variables.items()), x.description) for x in a.sections]
        sb = [(x.name, x.filter_expr, tuple(x.variables.items()), x.description) for x in b.sections]
        if sa != sb or sa[0][0] != 'Kids\u2122':
            rec.violation('view-properties-differ-from-file:on-disk', f'views file read from disk: {sa}; the same text parsed directly: {sb}', {'kind': 'views-disk'})
            return
    except Exception as e:
        rec.violation('valid-views-file-rejected', f'{type(e).__name__}: {e}', {'kind': 'views-disk'})
        return
    for bad in (text.replace('filter: total', 'filter\uff1a total'), text.replace('[Kids\u2122]', '\uff3bKids\uff3d')):
        with open(path, 'w', encoding='utf-8') as f:
            f.write(bad)
        verdicts = []
        for fn, arg in ((load_sections, path), (parse_sections, bad)):
            try:
                fn(arg)
                verdicts.append('accepted')
            except (SectionParseError, ValueError) as e:
                verdicts.append('rejected')
        rec.count('views_files_read_from_disk_checks')
        if verdicts[0] != verdicts[1]:
            rec.violation('corruption-accepted:look-alike-punctuation-on-disk', f'a views file with a full-width look-alike in place of `:` / `[ ]` is {verdicts[0]} when read from disk and '
                          f'{verdicts[1]} when the same text is parsed directly', {'kind': 'views-disk'})
            return


def cli_corrupt(rec, rnd, tmp, k):
    """`tally up` / `tally diag` on a budget whose rules (or views) file is corrupt must tell the user."""
    gen = R.RuleGen(rnd, allow_rows=False)
    rf = gen.rule_file(nrules=rnd.randint(2, 5), transforms=False)
    pre, blocks = m_blocks(rf)
    which = rnd.choice(['rules', 'rules', 'views'])
    b = os.path.join(tmp, 'cb%d' % k)
    os.makedirs(os.path.join(b, 'config'))
    os.makedirs(os.path.join(b, 'data'))
    O.write(os.path.join(b, 'data', 'a.csv'), 'Date,Description,Amount\n2025-01-02,NETFLIX.COM,9.99\n2025-01-03,UBER EATS 42,20.00\n')
    vpre, vblocks = gen_views(rnd)
    if which == 'rules':
        text, cls, (lo, hi) = corrupt_merchants(pre, blocks, rnd)
        vtext = assemble(vpre, vblocks)
    else:
        text = assemble(pre, blocks)
        vtext, cls, (lo, hi) = corrupt_views(vpre, vblocks, rnd)
    O.write(os.path.join(b, 'config', 'merchants.rules'), text)
    O.write(os.path.join(b, 'config', 'views.rules'), vtext)
    other_notice = which == 'views' and rnd.random() < .5
    # (every other budget leaves `merchants_file` out: config/merchants.rules is then the rules file by convention - and reported like a named one)
    implicit = k % 2 == 1
    rec.count('cli_budgets_with_the_rules_file_by_convention', 1 if implicit else 0)
    O.write(os.path.join(b, 'config', 'settings.yaml'), 'year: 2025\n' + ('' if implicit else 'merchants_file: config/merchants.rules\n') + 'views_file: config/views.rules\n' +
            # (another thing to report about this budget - a mistyped rule_mode - does not hide the report about the views file)
            ('rule_mode: most-specific\n' if other_notice else '') +
            'data_sources:\n  - name: A\n    file: data/a.csv\n    format: "{date:%Y-%m-%d},{description},{amount}"\n')
    env = dict(os.environ, PYTHONPATH=core.SRC, PYTHONDONTWRITEBYTECODE='1', NO_COLOR='1')
    env.pop('TALLY_CONFIG', None)
    case = {'kind': 'cli', 'which': which, 'cls': cls, 'rules': text, 'views': vtext, 'implicit_rules_file': implicit}
    rec.case()
    # (scripts and cron jobs run `up -q`: quiet drops progress, not the report that a file of the budget cannot be loaded)
    for cmd in (['up', os.path.join(b, 'config'), '--format', 'summary'], ['diag', os.path.join(b, 'config')],
                [['up', os.path.join(b, 'config'), '-q', '--format', 'json'], ['up', os.path.join(b, 'config'), '-q'], ['up', os.path.join(b, 'config'), '--quiet', '--format', 'summary']][k % 3]):
        p = subprocess.run([core.PY, '-m', 'tally'] + cmd, cwd=b, env=env, capture_output=True, text=True, stdin=subprocess.DEVNULL, timeout=120)
        out = p.stdout + p.stderr
        rec.count('cli_corrupt_runs')
        told = bool(re.search(r'Line \d+', out)) or 'could not load' in out.lower() or 'error loading' in out.lower() or 'parse error' in out.lower() or \
            ('invalid' in out.lower() and not other_notice)
        if not told:
            rec.violation('cli-corrupt-%s-silent:%s' % (which, cmd[0] + (' -q' if ('-q' in cmd or '--quiet' in cmd) else '')), f'tally {" ".join(cmd[:1] + cmd[2:])} (exit {p.returncode}) on a budget whose {which} file has a {cls} corruption '
                          f'gives no indication: {out[-300:]!r}', case)
    rec.interesting(['cli', which, cls])
    shutil.rmtree(b, ignore_errors=True)


def run(rec, shard, nshards, t):
    core.import_tally()
    rnd = core.rng_for('C17', shard)
    gen = R.RuleGen(rnd)
    tmp = tempfile.mkdtemp(prefix='vt-c17-')
    try:
        n = (300 if t == 'quick' else 40000) // nshards
        for i in range(n):
            rf = gen.rule_file(nrules=rnd.randint(1, 7))
            if rf.rules and rnd.random() < .25:
                # a let: name bound more than once (each later binding reads the earlier one): every line is a stated property, in order
                r = rnd.choice(rf.rules)
                r.lets = list(r.lets) + rnd.choice([[('d', 'description'), ('n', 'trim(d)'), ('D', 'uppercase(n)')],
                                                    [('acc', 'amount'), ('acc', 'acc * 2'), ('Acc', 'acc + 1')],
                                                    [('w', '"a"'), ('w', '"b"')]])
                rec.count('files_with_rebound_let_names')
            judge_merchants(rec, rf, rnd, 12, 10)
            judge_views(rec, rnd, 8, 6)
            if i < 1 and shard == 0:
                p2, b2, sep, desc = edit(*m_blocks(rf), rnd, True)
                rec.sample({'edit': desc, 'edited_file': assemble(p2, b2, sep)[:600]})
        for k in range(max(1, (30 if t == 'quick' else 500) // nshards)):
            cli_corrupt(rec, rnd, tmp, k)
        if shard == 0:
            views_disk_probe(rec, tmp)
    finally:
        shutil.rmtree(tmp, ignore_errors=True)


def replay(rec, case):
    core.import_tally()
    rnd = core.rng_for('C17', 'replay')
    if case['kind'] == 'views-disk':
        tmp = tempfile.mkdtemp(prefix='vt-c17-')
        try:
            views_disk_probe(rec, tmp)
        finally:
            shutil.rmtree(tmp, ignore_errors=True)
    elif case['kind'] == 'm':
        for _ in range(10):
            judge_merchants(rec, R.RuleFile.from_json(case['rf']), rnd, 30, 30)
    elif case['kind'] == 'v':
        for _ in range(200):
            judge_views(rec, rnd, 8, 8)
    else:
        tmp = tempfile.mkdtemp(prefix='vt-c17-')
        try:
            for k in range(20):
                cli_corrupt(rec, rnd, tmp, k)
        finally:
            shutil.rmtree(tmp, ignore_errors=True)

"""C02 - tags are the union over all matching rules; tag-only rules never categorize.

Monitors on MerchantEngine.match (both modes), the production path normalize_merchant, parse_generic_csv's `tags`,
and the legacy CSV path:
  * reference tag union (vt.rules.resolve_tags_ref over the reference matching set);
  * metamorphic: tag set invariant under every permutation of the rules (all n! for n<=4) and equal in both modes;
  * neutrality: triple(F) == triple(F minus tag-only rules) == triple(F plus an inserted tag-only rule), including an
    inserted rule that is *more specific* than the winner, carries `subcategory:`/`merchant:`/`priority:`.
"""
import itertools
import os
import shutil
import tempfile

from vt import core, rules as R, matchobs as O, world, lang

SPEC = {
    'level': 'exploration',
    'shards': {'quick': 8, 'thorough': 16},
    'rule': ('tag-heavy generated .rules files (static tags in mixed case / padded, dynamic {field.x} {source} {extract()} {let var} '
             'tags, tag-only rules anywhere, subcategory:/merchant:/priority: on tag-only rules) in first_match and most_specific mode, '
             'all permutations of <=4 rules (sampled above) x 20 pool transactions; legacy CSV files with pipe tags. Non-trivial = '
             '(file, txn) where >=2 rules contribute tags or a tag-only rule matches together with a categorizing rule; distinct by digest'),
    'exhaustive': {'quick': False, 'thorough': False},
    'required_counters': ['ref_tag_checks', 'permutation_tag_checks', 'mode_tag_checks', 'neutrality_remove_checks',
                          'neutrality_insert_checks', 'production_tag_checks', 'csv_tag_checks', 'parse_generic_csv_tag_checks', 'tags_after_analysis_checks'],
    'assumptions': ['dynamic tags evaluate to strings or non-zero numbers (lists, booleans and 0 are not defined by the statement)',
                    'conditions are well-typed; letters have a simple case mapping'],
}

MATCH_ALL = ['true', 'amount > -1e12 or amount <= -1e12', 'len(description) >= 0']


def specific_tagonly(rnd, gen, k):
    """A tag-only rule that matches everything and out-ranks ordinary rules in most_specific mode."""
    r = R.Rule(name='T%d Tagger' % k, match=rnd.choice([
        'true', 'contains("") and contains("") and startswith("") and amount > -1e12 and year >= 0 and source != "zzzzzzzzzzzzzzzzzzzzzzzzzzzzzzzzzzzzzz"',
        'regex(".*") and regex("^") and normalized("") and month >= 0 and day >= 0']), tags=[rnd.choice(['flagged', 'Audit', '{source}'])])
    if rnd.random() < .6:
        r.subcategory = 'SHOULD-NOT-APPEAR'
    if rnd.random() < .5:
        r.merchant = 'Tagger Merchant'
    if rnd.random() < .5:
        r.priority = rnd.choice([51, 100, 1000])
    return r


def judge_file(rec, rf, txns, rows, tmp, rnd, perms=6):
    case0 = {'kind': 'rules', 'rf': rf.to_json(), 'rows': rows}
    text = R.render(rf)
    if rnd is not None and rnd.random() < .3:
        # the same file as its author may have spaced it: an empty line before the tags: (and field:) lines of each block
        text = text.replace('\ntags: ', '\n\ntags: ').replace('\nfield: ', '\n   \nfield: ')
        rec.count('files_with_blank_lines_inside_blocks')
    try:
        engines = {m: O.load_engine(text, m) for m in ('first_match', 'most_specific')}
    except Exception as e:
        rec.violation('valid-file-rejected', f'{type(e).__name__}: {e}', dict(case0, txns=[]))
        return
    path = O.write(os.path.join(tmp, 'm.rules'), text)
    prules, ptrans = O.production_load(path)
    n = len(rf.rules)
    if n <= 4:
        orders = list(itertools.permutations(range(n)))
    else:
        orders = [tuple(rnd.sample(range(n), n)) for _ in range(perms)]
    perm_engs = []
    for o in orders[:24]:
        if list(o) != list(range(n)):
            perm_engs.append((o, {m: O.load_engine(R.render(rf.with_rules([rf.rules[i] for i in o])), m)
                                  for m in ('first_match', 'most_specific')}))
    no_tagonly = rf.with_rules([r for r in rf.rules if r.category])
    eng_no = {m: O.load_engine(R.render(no_tagonly), m) for m in engines}
    gen = R.RuleGen(rnd)
    ins = list(rf.rules)
    inserted = specific_tagonly(rnd, gen, 1) if rnd.random() < .6 else gen.rule(tag_only=True)
    ins.insert(rnd.randint(0, len(ins)), inserted)
    eng_ins = {m: O.load_engine(R.render(rf.with_rules(ins)), m) for m in engines}
    txns = list(txns) + world.field_twins(rnd, txns)
    for txn in txns:
        rec.case()
        case = dict(case0, txns=[O.jtxn(txn)])
        try:
            ref = R.ref_match(rf, txn, rows)
        except R.OutOfDomain:
            rec.count('out_of_domain')
            continue
        tt = ref['txn']
        try:
            obs = {m: O.engine_result(engines[m], tt, rows) for m in engines}
            # 1. reference union, both modes
            for m in engines:
                rec.count('ref_tag_checks')
                if obs[m]['tags'] != ref['tags']:
                    miss, extra = ref['tags'] - obs[m]['tags'], obs[m]['tags'] - ref['tags']
                    rec.violation('tags-differ-from-union:' + ('missing' if miss else 'extra'),
                                  f'{m}: tags {sorted(obs[m]["tags"])} but union over matching rules {ref["matching"]} is {sorted(ref["tags"])} '
                                  f'for {txn.get("description")!r}', case)
            rec.count('mode_tag_checks')
            if obs['first_match']['tags'] != obs['most_specific']['tags']:
                rec.violation('tags-depend-on-mode', f'{sorted(obs["first_match"]["tags"])} vs {sorted(obs["most_specific"]["tags"])}', case)
            contrib = [i for i in ref['matching'] if [t for t in rf.rules[i].tags if t.strip()]]
            if len(contrib) >= 2 or (ref['winner'] is not None and any(not rf.rules[i].category for i in ref['matching'])):
                rec.interesting([core.digest(rf.to_json()), core.digest(O.jtxn(txn))])
            # production path (first_match): tags in match_info
            op = O.production_result(prules, ptrans, txn, rows)
            rec.count('production_tag_checks')
            if op['tags'] != ref['tags']:
                rec.violation('production-tags-differ-from-union', f'normalize_merchant tags {sorted(op["tags"])} vs union {sorted(ref["tags"])}', case)
            # 2. permutations
            for o, engs in perm_engs:
                for m in engs:
                    r2 = O.engine_result(engs[m], tt, rows)
                    rec.count('permutation_tag_checks')
                    if r2['tags'] != obs[m]['tags']:
                        rec.violation('tags-depend-on-rule-order', f'{m}: order {o}: {sorted(r2["tags"])} vs {sorted(obs[m]["tags"])}', case)
                        break
            # 3. neutrality
            for m in engines:
                r3 = O.engine_result(eng_no[m], tt, rows)
                rec.count('neutrality_remove_checks')
                if r3['raw'] != obs[m]['raw']:
                    rec.violation('tag-only-rule-changes-triple:' + m,
                                  f'{m}: with tag-only rules {obs[m]["raw"]}, without them {r3["raw"]} for {txn.get("description")!r}', case)
                r4 = O.engine_result(eng_ins[m], tt, rows)
                rec.count('neutrality_insert_checks')
                if r4['raw'] != obs[m]['raw']:
                    rec.violation('inserted-tag-only-rule-changes-triple:' + m,
                                  f'{m}: inserting tag-only rule [{inserted.name}] (match: {inserted.match}) changes {obs[m]["raw"]} -> {r4["raw"]}',
                                  dict(case, inserted=inserted.to_json()))
        except O.ImplError as e:
            rec.violation('impl-raises:' + type(e.exc).__name__, str(e)[:300], case)


def ref_csv_tags(crules, txn):
    ref = R.ref_match_csv(crules, txn)
    tags = set()
    for i in ref['matching']:
        tags |= R.resolve_tags_ref(R.Rule('x', 'true', tags=crules[i].tags), txn, {}, {})
    return ref, tags


def judge_csv(rec, crules, txns, tmp, rnd):
    from vt.checks.c01 import expression_like
    if any(expression_like(r.pattern) for r in crules):
        return   # C01's recorded finding; not this property's subject
    path = O.write(os.path.join(tmp, 'merchant_categories.csv'), R.render_csv(crules, rnd))
    prules, _ = O.production_load(path)
    case0 = {'kind': 'csv', 'rules': [r.to_json() for r in crules]}
    for txn in txns:
        rec.case()
        if any(m[0] == 'amount' and m[1] == '=' and 0 < abs(txn['amount'] - float(m[2])) < 0.02 for r in crules for m in r.mods):
            continue
        try:
            ref, tags = ref_csv_tags(crules, txn)
            obs = O.production_result(prules, [], txn, {})
        except R.OutOfDomain:
            continue
        except O.ImplError as e:
            rec.violation('impl-raises:' + type(e.exc).__name__, str(e)[:300], dict(case0, txns=[O.jtxn(txn)]))
            continue
        rec.count('csv_tag_checks')
        if obs['tags'] != tags:
            rec.violation('csv-tags-differ-from-union', f'legacy path tags {sorted(obs["tags"])} vs union {sorted(tags)} (matching rows {ref["matching"]})',
                          dict(case0, txns=[O.jtxn(txn)]))
        if len(ref['matching']) >= 2:
            rec.interesting(['csv', core.digest(case0), core.digest(O.jtxn(txn))])


def legacy_dynamic_tags_probe(rec, tmp):
    """Legacy CSV rules with {expression} tags: a tag whose expression cannot be evaluated for the transaction is dropped ON ITS OWN - the tags listed after it
    (static or dynamic) are still part of the union."""
    for cells in (['{field.kind}', '{source}', 'plain', '{extract("(FLIX)")}'], ['first', '{nosuchname}', '{source}'], ['{field.kind}', '{field.other}', '{source}', 'last'],
                  ['{source}', '{field.kind}', '{extract("(NET)")}']):
        outs = []
        for keep_failing in (True, False):
            tags = [c for c in cells if keep_failing or not (c.startswith('{field.') or c == '{nosuchname}')]
            path = O.write(os.path.join(tmp, 'merchant_categories.csv'), 'Pattern,Merchant,Category,Subcategory,Tags\nNETFLIX,Netflix,Subs,Video,%s\n' % '|'.join(tags).replace('"', '""').join('""'))
            prules, _ = O.production_load(path)
            txn = {'description': 'NETFLIX.COM', 'amount': 12.0, 'date': world.DATES[0], 'field': None, 'source': 'Card', 'location': None}
            try:
                outs.append(O.production_result(prules, [], txn, {})['tags'])
            except O.ImplError as e:
                rec.violation('impl-raises:' + type(e.exc).__name__, str(e)[:300], {'kind': 'legacy-dynamic-tags'})
                return
        rec.case()
        rec.count('legacy_dynamic_tag_checks')
        if outs[0] != outs[1] or not outs[1]:
            rec.violation('csv-tags-differ-from-union:unevaluable-tag-hides-later-tags', f'CSV rule with Tags {cells}: tags {sorted(outs[0])}; without the tags that cannot be evaluated '
                          f'for this transaction: {sorted(outs[1])}', {'kind': 'legacy-dynamic-tags'})
            return


def judge_parse_generic(rec, rf, rows, tmp, rnd, ptxns=None):
    """Tags as they reach the parsed transaction (parse_generic_csv output)."""
    path = O.write(os.path.join(tmp, 'm.rules'), R.render(rf))
    prules, ptrans = O.production_load(path)
    if ptxns is None:
        ptxns = O.pipeline_txns(world.pool(rnd, 12), rnd)
    if not ptxns:
        return
    case = {'kind': 'pipeline', 'rf': rf.to_json(), 'rows': rows, 'txns': [O.jtxn(t) for t in ptxns]}
    try:
        out = O.pipeline_results(prules, ptrans, ptxns, rows, tmp)
    except O.ImplError as e:
        rec.violation('impl-raises:' + type(e.exc).__name__, f'parse_generic_csv: {e}', case)
        return
    if not ptrans:
        try:
            n, bad = O.pipeline_reported_is_classified(prules, ptxns, rows, tmp)
            rec.count('reported_transaction_reclassified_checks', n)
            for desc, loc, carried, again in bad[:1]:
                rec.violation('tags-are-not-those-of-the-reported-transaction', f'statement without a location column: row {desc!r} is reported with location {loc!r} and '
                              f'{carried[0]} {sorted(carried[1])}, but the rules give {again[0]} {sorted(again[1])} for exactly that transaction', case)
        except O.ImplError as e:
            rec.violation('impl-raises:' + type(e.exc).__name__, f'parse_generic_csv: {e}', case)
    if len(out) != len(ptxns):
        return  # row-level fidelity is C05's subject
    for t2, o in zip(ptxns, out):
        try:
            ref = R.ref_match(rf, t2, rows)
        except R.OutOfDomain:
            continue
        rec.count('parse_generic_csv_tag_checks')
        if o['tags'] != ref['tags']:
            rec.violation('parsed-transaction-tags-differ-from-union',
                          f'{sorted(o["tags"])} vs {sorted(ref["tags"])} for {t2["description"]!r} field={t2["field"]}', case)
            break
    else:
        # ... and the analysis step that follows in `tally up` leaves every transaction's own tag set as it is
        from tally.analyzer import analyze_transactions
        before = [set(o['txn'].get('tags') or []) for o in out]
        try:
            analyze_transactions([o['txn'] for o in out])
        except Exception as e:
            rec.violation('impl-raises:' + type(e).__name__, f'analyze_transactions: {e}', case)
            return
        rec.count('tags_after_analysis_checks')
        for b4, o, t2 in zip(before, out, ptxns):
            now = set(o['txn'].get('tags') or [])
            if now != b4:
                rec.violation('analysis-changes-transaction-tags', f'{t2["description"]!r}: tags {sorted(b4)} before analyze_transactions, {sorted(now)} after', case)
                break


def tag_heavy(gen, rnd):
    rf = gen.rule_file(nrules=rnd.choice([1, 2, 3, 3, 4, 4, 5, 7]))
    for r in rf.rules:
        if rnd.random() < .6 and len(r.tags) < 2:
            r.tags = r.tags + [rnd.choice(R.STATIC_TAGS + R.DYN_TAGS)]
        if not r.category and rnd.random() < .3:
            r.subcategory = 'TagOnlySub'
        if not r.category and rnd.random() < .2:
            r.merchant = 'TagOnly Merchant'
        if rnd.random() < .2:
            r.match = rnd.choice(MATCH_ALL)
    if rnd.random() < .3:
        # tag-only rules whose conditions / dynamic tags differ ONLY in the blanks inside a string literal: two different expressions
        a, b = rnd.choice([('contains("uber   eats")', 'contains("uber eats")'), ('contains("WHOLE  FOODS")', 'contains("WHOLE FOODS")'),
                           ('startswith("star-BUCKS  *")', 'startswith("star-BUCKS *")'), ('contains("a.b-*  ")', 'contains("a.b-* ")')])
        ta, tb = rnd.choice([('wide', 'narrow'), ('{split(description, "  ", 0)}', '{split(description, " ", 0)}'), ('{trim(split(description, "  ", 1))}x', '{trim(split(description, " ", 1))}x')])
        pair = [R.Rule('Blanks A', a, '', '', tags=[ta]), R.Rule('Blanks B', b, '', '', tags=[tb])]
        rnd.shuffle(pair)
        for r in pair:
            rf.rules.insert(rnd.randint(0, len(rf.rules)), r)
    if len(rf.rules) >= 2 and rnd.random() < .3:
        # section names are labels, not keys: several [Amazon] blocks are several rules, each contributing its own tags
        a, b = rnd.sample(range(len(rf.rules)), 2)
        rf.rules[b].name = rf.rules[a].name
        if rnd.random() < .5:
            rf.rules[b].match = rf.rules[a].match
    return rf


def run(rec, shard, nshards, t):
    core.import_tally()
    rnd = core.rng_for('C02', shard)
    tmp = tempfile.mkdtemp(prefix='vt-c02-')
    try:
        gen = R.RuleGen(rnd)
        nfiles = (240 if t == 'quick' else 5000) // nshards
        for i in range(nfiles):
            rf = tag_heavy(gen, rnd)
            rows = world.ROWSETS[0] if rnd.random() < .7 else rnd.choice(world.ROWSETS)
            judge_file(rec, rf, world.pool(rnd, 16 if t == 'quick' else 20), rows, tmp, rnd)
            if i % 3 == 0:
                judge_parse_generic(rec, rf, rows, tmp, rnd)
            if i % 4 == 1:
                # the deprecated `type: amex` / `type: boa` readers hand rows to the same rules: same tag union (date conditions included)
                from vt.checks import c01
                if rnd.random() < .6:
                    d0 = rnd.choice(['2025-01-01', '2025-02-28', '2024-12-31', '2025-06-15'])
                    rf.rules.insert(rnd.randint(0, len(rf.rules)), R.Rule('DateTag', rnd.choice(['date >= "%s"', 'date < "%s"', 'date == "%s"', '"%s" <= date']) % d0, '', '',
                                                                        tags=[rnd.choice(['h2', 'early', 'On-Day'])]))
                c01.judge_legacy_parsers(rec, rf, world.pool(rnd, 16), tmp, rnd, what='tags')
            if i < 1 and shard == 0:
                rec.sample({'rules_file': R.render(rf)})
        for i in range((80 if t == 'quick' else 1500) // nshards):
            cr = R.gen_csv_rules(rnd)
            for r in cr:
                if rnd.random() < .3:
                    r.tags = r.tags + [rnd.choice(['{field.memo}', '{source}', '{field.code}', ' Padded ', '{field.nope}'])]
            judge_csv(rec, cr, world.pool(rnd, 16), tmp, rnd)
        if shard == 0:
            legacy_dynamic_tags_probe(rec, tmp)
    finally:
        shutil.rmtree(tmp, ignore_errors=True)


def replay(rec, case):
    core.import_tally()
    rnd = core.rng_for('C02', 'replay')
    tmp = tempfile.mkdtemp(prefix='vt-c02-')
    try:
        if case['kind'] == 'legacy-dynamic-tags':
            legacy_dynamic_tags_probe(rec, tmp)
            return
        txns = [O.untxn(x) for x in case['txns']]
        if case['kind'] == 'csv':
            judge_csv(rec, [R.CsvRule.from_json(r) for r in case['rules']], txns, tmp, None)
        elif case['kind'] == 'pipeline':
            judge_parse_generic(rec, R.RuleFile.from_json(case['rf']), case['rows'], tmp, rnd, ptxns=txns)
        elif case['kind'] == 'witness-most-specific':
            witness(rec)
        elif case['kind'] == 'legacy-parser':
            from vt.checks import c01
            c01.judge_legacy_parsers(rec, R.RuleFile.from_json(case['rf']), txns, tmp, rnd, what='tags')
        else:
            for _ in range(5):
                judge_file(rec, R.RuleFile.from_json(case['rf']), txns, case['rows'], tmp, rnd)
    finally:
        shutil.rmtree(tmp, ignore_errors=True)


def witness(rec):
    """Regression witness of the repaired defect: a more specific tag-only rule in most_specific mode."""
    rf = R.RuleFile(rules=[R.Rule('Netflix', 'contains("NETFLIX")', 'Subscriptions', 'Streaming'),
                           R.Rule('Big', 'contains("NETFLIX") and amount > 1 and month >= 1', '', 'Oops', tags=['large'])])
    eng = O.load_engine(R.render(rf), 'most_specific')
    txn = {'description': 'NETFLIX.COM', 'amount': 20.0, 'date': lang.date(2025, 1, 5), 'field': None, 'source': 'Amex'}
    o = O.engine_result(eng, txn, {})
    if o['raw'] != ('Netflix', 'Subscriptions', 'Streaming'):
        rec.violation('tag-only-rule-changes-triple:most_specific', f'witness: got {o["raw"]}', {'kind': 'witness-most-specific'})

"""C19 - every rule that discover suggests matches the transaction it was suggested for.

Closure monitor: the suggestion produced by the real discover code for a description (JSON `suggested_rule`, and the
`[name] / match:` block of the text format) is given a category, loaded by the real rules loader and matched by the real
engine against that very description.  End to end: `tally discover` -> append all suggestions -> `tally discover` again
must strictly shrink the Unknown list (fresh CLI processes).
"""
import csv
import json
import os
import re
import shutil
import subprocess
import tempfile

from vt import core

SPEC = {
    'level': 'exploration',
    'shards': {'quick': 8, 'thorough': 16},
    'rule': ('descriptions of 1-6 words from a vocabulary of merchant words, mixed case, digits, store numbers (#123 in the middle and at '
             'the end), long trailing ids, zip codes, state suffixes, processor prefixes (SQ *, TST*, APLPAY, SP, PP*, GOOGLE *), punctuation '
             'and regex metacharacters, quotes, brackets, backslashes, multiple blanks/tabs between words. Non-trivial = description with >=2 '
             'words or a regex metacharacter/quote/backslash; distinct by description'),
    'exhaustive': {'quick': False, 'thorough': False},
    'required_counters': ['library_suggestions_checked', 'text_format_blocks_checked', 'cli_json_suggestions_checked', 'cli_loops'],
    'assumptions': ['printable characters with a simple one-to-one case mapping only (no embedded newlines, no ß/ı-style case expansions)'],
}

WORDS = ['WHOLE', 'FOODS', 'MARKET', 'Starbucks', 'store', 'UBER', 'EATS', 'AMZN', 'Mktp', 'US', 'Netflix.com', 'COSTCO', 'WHSE', 'Shell', 'OIL',
         "O'Reilly", 'AT&T', 'T-Mobile', 'H&M', 'Café', 'ÜBER', '7-ELEVEN', 'A+', 'C++', 'what?', '(refund)', '[adj]', '{x}', 'a|b', '^top', '$5',
         "CHRISTOPHER'S", 'STEAKHOUSE', '(DOWNTOWN)', '(AIRPORT)', 'INTERNATIONAL', 'RESTAURANT+BAR', 'MARKETPLACE.COM', 'SUPERCALIFRAGILISTIC',
         'back\\slash', '"quoted"', "it's", '50%', 'x*y', 'dot.com', 'semi;colon', 'a,b', 'DES:123', 'ID:9',
         # outside the Basic Multilingual Plane (emoji, CJK extension B), other scripts, letters whose case forms differ in length
         '\U0001f355PIZZA', 'PIZZA\U0001f355', '\U00020bb7\u91ce\u5bb6', '\u6771\u4eac', 'Stra\u00dfe', '\u0130STANBUL', '\u041c\u0410\u0413\u0410\u0417\u0418\u041d', '\U0001f600',
         # brackets that do not balance within the words discover keeps; typographic quotes
         '(GAM', '[REF', 'REFUND)', 'x]', '(BAZ', 'QUX)', '{open', 'close}', 'JOE\u2019S', '\u201cBEST\u201d', '\u2018n\u2019', '\u00abX\u00bb',
         # an inch / quote mark followed later by a hash; repeated words
         '12"', "5'", 'A"B', '#4521', '#9', 'PIZZA', 'PIZZA', 'TACO', 'TO',
         # compatibility characters (trade mark, ellipsis, ordinal indicator, full-width letters, ligature)
         "JOE'S\u2122", 'PMTS\u2026', 'N.\u00ba', '\uff21\uff2d\uff21\uff3a\uff2f\uff2e', '\ufb01ne', '\u2460']
PREFIX = ['', '', '', 'SQ *', 'TST*', 'TST* ', 'APLPAY ', 'SP ', 'PP*', 'GOOGLE *', 'sq *', 'Tst*']
SUFFIX = ['', '', ' WA', ' CA', ' 98101', ' 12345678 SEATTLE', ' #1234', ' #12', ' 1234567', ' wa', ' NY 10001', ' 0042', ' x1']
MIDDLE = ['', '', '', ' #123', ' 12', ' #7', ' 00123']


def gen_desc(rnd):
    n = rnd.choice([1, 2, 2, 3, 3, 4, 6])
    words = []
    for i in range(n):
        w = rnd.choice(WORDS)
        k = rnd.random()
        w = w.upper() if k < .4 else w.lower() if k < .55 else w
        words.append(w)
        if i < n - 1 and rnd.random() < .2:
            words.append(rnd.choice(MIDDLE).strip() or w)
    seps = [rnd.choice([' ', ' ', ' ', '  ', '\t', '   ', ' ', ' ', '\u00a0']) for _ in words]
    body = ''.join(w + s for w, s in zip(words, seps)).strip()
    d = rnd.choice(PREFIX) + body + rnd.choice(SUFFIX)
    if rnd.random() < .06:
        return rnd.choice(['SQ *', 'TST* 00012345', 'PP*', 'GOOGLE *', 'SQ *  ', 'TST*'])      # nothing but a payment processor's prefix (and a number)
    if rnd.random() < .04:
        # a wire / SEPA reference: one very long unbroken token (several hundred characters) among the first words
        ref = 'WIRE/OUT-' + ';'.join('%s=%s' % (k, 'X7Q9' * rnd.randint(6, 14)) for k in ('BNF', 'OBI00', 'REF', 'IBAN', 'BIC'))
        d = rnd.choice(['ONLINE TRANSFER ' + ref, ref + ' PAYMENT', 'PAYMENT TO ' + ref + ' ' + body])
    return d.strip()


def check_rule_text(rec, where, desc, rule_text, case):
    """Give the suggestion a category, load it, match the description."""
    from tally.merchant_engine import parse_merchants, MerchantParseError
    text = rule_text.replace('category: CATEGORY', 'category: Cat').replace('subcategory: SUBCATEGORY', 'subcategory: Sub')
    try:
        eng = parse_merchants(text)
    except MerchantParseError as e:
        rec.violation('suggestion-rejected-by-loader', f'{where}: suggestion for {desc!r} is rejected: {e}; rule text {rule_text!r}', case)
        return False
    except Exception as e:
        rec.violation('suggestion-rejected-by-loader', f'{where}: {type(e).__name__}: {e}; rule text {rule_text!r}', case)
        return False
    if len(eng.rules) != 1:
        rec.violation('suggestion-is-not-one-rule', f'{where}: {len(eng.rules)} rules from {rule_text!r}', case)
        return False
    try:
        res = eng.match({'description': desc, 'amount': 12.5, 'field': None, 'source': 'S'})
    except Exception as e:
        rec.violation('suggestion-match-raises', f'{where}: {type(e).__name__}: {e}', case)
        return False
    if not res.matched:
        m = re.search(r'match:\s*(.*)', rule_text)
        expr = m.group(1) if m else ''
        key = 'suggestion-does-not-match'
        if 'contains(' in expr and '\\s*' in expr:
            key += ':regex-inside-contains'
        elif 'contains(' in expr and '\\' in expr:
            key += ':escaped-metachar-inside-contains'
        rec.violation(key, f'{where}: the rule suggested for {desc!r} does not match it: {expr!r}', case)
        return False
    # ... and through the path `tally up` / `discover` take: rules file on disk -> get_all_rules -> normalize_merchant
    from tally import merchant_utils as mu
    tmpd = tempfile.mkdtemp(prefix='vt-c19-r-')
    try:
        pth = os.path.join(tmpd, 'merchants.rules')
        # an older hand-written rule in the same file whose pattern differs from the suggested one only in the letter case of an escape
        # (\\S for \\s, \\D for \\d ...): another pattern altogether; whatever it does, the suggested rule below it still matches its transaction
        mm = re.search(r'match:\s*(.*)', text)
        twin = mm.group(1) if mm else ''
        for a_, b_ in (('\\\\s', '\\\\S'), ('\\\\d', '\\\\D'), ('\\\\b', '\\\\B'), ('\\\\w', '\\\\W')):
            twin = twin.replace(a_, '\0').replace(b_, a_).replace('\0', b_)
        older = ''
        want_cat = None
        if mm and twin != mm.group(1):
            try:
                import ast as _ast
                call = _ast.parse(twin.strip(), mode='eval').body
                if isinstance(call, _ast.Call) and getattr(call.func, 'id', '').lower() == 'regex' and len(call.args) == 1 and isinstance(call.args[0], _ast.Constant):
                    want_cat = 'Older' if re.search(call.args[0].value, desc, re.I) else 'Cat'        # first matching rule, each pattern read as written
                    older = '[Older Rule]\nmatch: %s\ncategory: Older\n\n' % twin
                    rec.count('production_path_files_with_escape_case_twin')
            except (SyntaxError, re.error):
                pass
        with open(pth, 'w', encoding='utf-8') as f:
            f.write(older + text + '\n')
        mu.clear_engine_cache()
        rules = mu.get_all_rules(pth)
        m_, c_, s_, info = mu.normalize_merchant(desc, rules, amount=12.5, txn_date=None, field=None, data_source='S')
        rec.count('production_path_suggestion_checks')
        if want_cat is not None and c_ != 'Unknown' and c_ != want_cat:
            rec.violation('suggestion-or-older-rule-read-as-another-pattern', f'{where}: file with an older rule `{twin}` above the suggested rule: {desc!r} is classified {c_!r}, '
                          f'the first rule whose pattern (as written) matches gives {want_cat!r}', case)
            return False
        if c_ == 'Unknown':
            rec.violation('suggestion-does-not-match:production-path', f'{where}: with the suggested rule on disk, normalize_merchant still leaves {desc!r} Unknown '
                          f'(rule text {rule_text!r})', case)
            return False
    except Exception as e:
        rec.violation('suggestion-match-raises', f'{where}: production path: {type(e).__name__}: {e}', case)
        return False
    finally:
        shutil.rmtree(tmpd, ignore_errors=True)
    return True


def text_block(desc):
    """The rule block exactly as the text format prints it (re-derived through the real cmd_discover output in the CLI part)."""
    return None


def library_check(rec, desc):
    from tally.commands import discover as D
    case = {'kind': 'desc', 'desc': desc}
    rec.case()
    pattern = D.suggest_pattern(desc)
    merchant = D.suggest_merchant_name(desc)
    for tags in (None, ['refund']):
        rule = D.suggest_merchants_rule(merchant, pattern, tags=tags)
        rec.count('library_suggestions_checked')
        ok = check_rule_text(rec, 'suggest_merchants_rule', desc, rule, case)
    if len(desc.split()) >= 2 or re.search(r'[.*+?^${}()|\[\]\\"\']', desc):
        rec.interesting(desc)
    return ok


def make_budget(tmp, k, descs, with_rules='', reader='format'):
    b = os.path.join(tmp, 'b%d' % k)
    os.makedirs(os.path.join(b, 'config'), exist_ok=True)
    os.makedirs(os.path.join(b, 'data'), exist_ok=True)
    if reader == 'amex':
        # the deprecated `type: amex` reader over a full card export: further columns word the merchant differently from Description
        with open(os.path.join(b, 'data', 'a.csv'), 'w', newline='', encoding='utf-8') as f:
            w = csv.writer(f)
            w.writerow(['Date', 'Description', 'Card Member', 'Account #', 'Amount', 'Extended Details', 'Appears On Your Statement As', 'Address', 'Category'])
            for i, d in enumerate(descs):
                w.writerow(['01/%02d/2025' % (1 + i % 28), d, 'A MEMBER', '-12345', '%.2f' % (5 + i), 'DETAILS %d' % i, 'STMT LINE %d %s' % (i, d[::-1][:12]), 'NOWHERE', 'Misc'])
        with open(os.path.join(b, 'config', 'merchants.rules'), 'w', encoding='utf-8') as f:
            f.write('# rules\n' + with_rules)
        with open(os.path.join(b, 'config', 'settings.yaml'), 'w') as f:
            f.write('year: 2025\nmerchants_file: config/merchants.rules\ndata_sources:\n  - name: A\n    file: data/a.csv\n    type: amex\n')
        return b
    with open(os.path.join(b, 'data', 'a.csv'), 'w', newline='', encoding='utf-8') as f:
        w = csv.writer(f)
        w.writerow(['Date', 'Description', 'Amount'])
        for i, d in enumerate(descs):
            w.writerow(['2025-01-%02d' % (1 + i % 28), d, '%.2f' % (5 + i)])
    with open(os.path.join(b, 'config', 'merchants.rules'), 'w', encoding='utf-8') as f:
        f.write('# rules\n' + with_rules)
    with open(os.path.join(b, 'config', 'settings.yaml'), 'w') as f:
        f.write('year: 2025\nmerchants_file: config/merchants.rules\ndata_sources:\n  - name: A\n    file: data/a.csv\n'
                '    format: "{date:%Y-%m-%d},{description},{amount}"\n')
    return b


def tally(b, *args, force_color=False):
    env = dict(os.environ, PYTHONPATH=core.SRC, PYTHONDONTWRITEBYTECODE='1', NO_COLOR='1')
    env.pop('TALLY_CONFIG', None)
    if force_color:
        # stdout is still a pipe (the user redirects the suggestions into a file): whatever the colour settings say, what lands there is rule text
        env.pop('NO_COLOR', None)
        env.update(FORCE_COLOR='1', CLICOLOR_FORCE='1', TERM='xterm-256color')
    return subprocess.run([core.PY, '-m', 'tally'] + list(args), cwd=b, env=env, capture_output=True, text=True, stdin=subprocess.DEVNULL, timeout=180)


def cli_loop(rec, rnd, tmp, k):
    descs = []
    while len(descs) < 6:
        d = gen_desc(rnd)
        if d and d not in descs and '\t' not in d[:1]:
            descs.append(d)
    # two descriptions that clean up to the same merchant NAME but need different patterns
    w1, w2 = rnd.choice(WORDS[:12]).upper(), rnd.choice(WORDS[:12]).upper()
    descs += ['%s #%d %s WA' % (w1, rnd.randint(100, 999), w2), '%s #%d %s WA' % (w1, rnd.randint(1000, 9999), w2)]
    if rnd.random() < .3:
        # a statement cell that spans two lines (merchant, then its address line): one description, one suggestion
        descs.append('%s STORE %d\n123 MAIN ST' % (rnd.choice(WORDS[:12]).upper(), rnd.randint(10, 99)))
        rec.count('cli_loops_with_a_two_line_description')
    reader = 'amex' if rnd.random() < .25 and all(d == d.strip() and d for d in descs) else 'format'
    rec.count('cli_loops_reader:' + reader)
    # what the user's rules file already holds when the suggestions are appended to it: a description transform (that changes none of these rows),
    # a rule that cannot be evaluated for these rows (it reads a column only another statement has)
    pre = ''
    if rnd.random() < .4:
        pre += 'field.description = regex_replace(field.description, "^ZZ-NEVER-THERE ", "")\n\n'
    if rnd.random() < .4:
        pre += '[Needs A Column]\nmatch: field.type == "DEP" and amount > 0\ncategory: Deposits\n\n'
    if rnd.random() < .4:
        # top-level variables of the user's file that happen to be named like a word of a statement line (large, gas, prime ...): a name inside the quotes
        # of a suggested pattern is text
        words = []
        for d_ in descs:
            words += [w_.lower() for w_ in re.findall(r'[A-Za-z]{3,}', d_)[:3]]
        for w_ in rnd.sample(sorted(set(words)), min(3, len(set(words)))):
            if w_.isidentifier() and w_ not in ('and', 'not', 'for', 'amount', 'description', 'month', 'year', 'day', 'date', 'source', 'true', 'false', 'none', 'field', 'txn', 'len', 'sum', 'any', 'all', 'abs', 'min', 'max', 'next'):
                pre = '%s = %s\n' % (w_, rnd.choice(['amount > 100', 'anyof("SHELL", "CHEVRON")', '"x"'])) + pre
        rec.count('cli_loops_with_variables_named_like_description_words')
    most_specific = rnd.random() < .3
    if most_specific:
        # most_specific mode and a tag-only rule that is more specific than any suggestion (it tags, it decides nothing)
        pre += '[Flag Everything]\nmatch: amount > 0 and month >= 1 and regex(".")\npriority: 60\ntags: seen\n\n'
        rec.count('cli_loops_in_most_specific_mode')
    rec.count('cli_loops_with_existing_rules', 1 if pre else 0)
    b = make_budget(tmp, k, descs, with_rules=pre, reader=reader)
    if most_specific:
        sp_ = os.path.join(b, 'config', 'settings.yaml')
        with open(sp_, 'a') as f_:
            f_.write('rule_mode: most_specific\n')
    case = {'kind': 'cli', 'descs': descs, 'reader': reader, 'existing_rules': pre}
    rec.case()
    rec.count('cli_loops')
    p = tally(b, 'discover', os.path.join(b, 'config'), '--format', 'json', '-n', '0')
    if p.returncode != 0:
        rec.violation('discover-fails', f'exit {p.returncode}: {(p.stderr or p.stdout)[-300:]}', case)
        return
    try:
        items = json.loads(p.stdout[p.stdout.index('['):])
    except Exception as e:
        rec.violation('discover-json-unparsable', f'{type(e).__name__}: {p.stdout[:200]!r}', case)
        return
    all_ok = True
    rules = []
    for it in items:
        rec.count('cli_json_suggestions_checked')
        ok = check_rule_text(rec, 'tally discover --format json', it['raw_description'], it['suggested_rule'], dict(case, desc=it['raw_description']))
        all_ok = all_ok and ok
        rules.append(it['suggested_rule'].replace('category: CATEGORY', 'category: Cat').replace('subcategory: SUBCATEGORY', 'subcategory: Sub'))
    # text format: the printed block
    forced = rnd.random() < .5
    pt = tally(b, 'discover', os.path.join(b, 'config'), '--format', 'text', '-n', '0', force_color=forced)
    if forced:
        rec.count('text_runs_with_colour_forced_on_a_pipe')
        if '\x1b[' in pt.stdout:
            rec.violation('terminal-escape-codes-in-piped-rule-text', f'discover text output on a pipe contains ANSI escape sequences inside what the user saves as rules: '
                          f'{pt.stdout[pt.stdout.index(chr(27)) - 20:pt.stdout.index(chr(27)) + 40]!r}', case)
    blocks = re.findall(r'^\d+\. (.*)\n(?:.*\n)*?\s*\[(.*)\]\n\s*match: (.*)\n\s*category: CATEGORY', pt.stdout, re.M)
    for shown, name, match in blocks:
        full = [d for d in [i['raw_description'] for i in items] if d[:60] == shown]
        if len(full) != 1:
            continue
        rec.count('text_format_blocks_checked')
        check_rule_text(rec, 'tally discover (text)', full[0], '[%s]\nmatch: %s\ncategory: CATEGORY\nsubcategory: SUBCATEGORY' % (name, match),
                        dict(case, desc=full[0]))
    # the loop: append suggestions, run discover again
    n_before = len(items)
    with open(os.path.join(b, 'config', 'merchants.rules'), 'a', encoding='utf-8') as f:
        f.write('\n\n'.join(rules) + '\n')
    p2 = tally(b, 'discover', os.path.join(b, 'config'), '--format', 'json', '-n', '0')
    if 'No unknown transactions found' in p2.stdout:
        n_after = 0
    else:
        try:
            n_after = len(json.loads(p2.stdout[p2.stdout.index('['):]))
        except Exception:
            n_after = None
    if n_after is None or p2.returncode != 0:
        rec.violation('rules-file-with-suggestions-breaks-discover', f'exit {p2.returncode}: {(p2.stderr or p2.stdout)[-300:]!r}', case)
    elif n_before > 0 and n_after >= n_before:
        rec.violation('discover-loop-does-not-shrink', f'{n_before} unknown before appending the {len(rules)} suggestions, {n_after} after', case)
    rec.interesting(['loop'] + descs[:3])
    shutil.rmtree(b, ignore_errors=True)


def judge_other_stdout_encodings(rec, tmp):
    """`tally discover` printing to a terminal / pipe whose encoding is not UTF-8 (a legacy locale, PYTHONIOENCODING): whatever rule text it does print is a
    rule for one of the budget's uncategorised descriptions - it loads and matches it.  (It may also refuse to print what it cannot encode.)"""
    from tally.merchant_engine import parse_merchants
    descs = ['PLAIN SHOP 12', 'CAF\u00c9 BLEU PARIS', '\u017bABKA Z5123 WARSZAWA', 'B\u00e4ckerei M\u00fcller 7', 'SECOND PLAIN STORE']
    b = make_budget(tmp, 7700, descs)
    case = {'kind': 'stdout-encoding'}
    for enc in ('latin-1', 'ascii', 'cp1252', 'utf-8'):
        env = dict(os.environ, PYTHONPATH=core.SRC, PYTHONDONTWRITEBYTECODE='1', NO_COLOR='1', PYTHONIOENCODING=enc)
        env.pop('TALLY_CONFIG', None)
        p = subprocess.run([core.PY, '-m', 'tally', 'discover', os.path.join(b, 'config'), '--format', 'text', '-n', '0'], cwd=b, env=env, capture_output=True,
                           stdin=subprocess.DEVNULL, timeout=180)
        out = p.stdout.decode(enc, 'replace')
        rec.case()
        rec.count('discover_runs_with_another_stdout_encoding')
        for name, match in re.findall(r'^\s*\[(.*)\]\n\s*match: (.*)\n\s*category: CATEGORY', out, re.M):
            rec.count('rule_blocks_printed_under_another_encoding')
            try:
                eng = parse_merchants('[%s]\nmatch: %s\ncategory: Cat\nsubcategory: Sub\n' % (name, match))
                hit = [d for d in descs if eng.match({'description': d, 'amount': 5.0}).matched]
            except Exception as e:
                hit = 'rejected by the loader: %s' % e
            if not hit or isinstance(hit, str):
                rec.violation('printed-suggestion-matches-no-description:stdout-encoding', f'stdout encoding {enc}: discover printed the rule [{name}] match: {match} - '
                              f'{"it matches none of the uncategorised descriptions " + repr(descs) if not hit else hit}', case)
                break
    # ... and the rules discover suggests (taken from its ASCII-safe JSON output) are written to merchants.rules and read back by a process whose locale is not
    # UTF-8: the rules file is UTF-8 whatever the locale, so the list of uncategorised descriptions empties
    lenv = dict(os.environ, PYTHONPATH=core.SRC, PYTHONDONTWRITEBYTECODE='1', NO_COLOR='1', LC_ALL='C', LANG='C', PYTHONUTF8='0', PYTHONCOERCECLOCALE='0', PYTHONIOENCODING='utf-8')
    lenv.pop('TALLY_CONFIG', None)
    b = make_budget(tmp, 7701, descs + ['WIRE/OUT-' + 'X7Q9' * 80 + ' PAYMENT'])
    p1 = subprocess.run([core.PY, '-m', 'tally', 'discover', os.path.join(b, 'config'), '--format', 'json', '-n', '0'], cwd=b, env=lenv, capture_output=True, text=True, encoding='utf-8',
                        stdin=subprocess.DEVNULL, timeout=180)
    try:
        items = json.loads(p1.stdout[p1.stdout.index('['):])
    except Exception:
        items = None
    rec.count('discover_loops_under_a_non_utf8_locale')
    if not items:
        rec.violation('discover-fails-under-a-non-utf8-locale', f'LC_ALL=C: discover --format json exits {p1.returncode}: {(p1.stderr or p1.stdout)[-200:]!r}', case)
    else:
        with open(os.path.join(b, 'config', 'merchants.rules'), 'a', encoding='utf-8') as f:
            f.write('\n\n'.join(i['suggested_rule'].replace('category: CATEGORY', 'category: Cat').replace('subcategory: SUBCATEGORY', 'subcategory: Sub') for i in items) + '\n')
        p2 = subprocess.run([core.PY, '-m', 'tally', 'discover', os.path.join(b, 'config'), '--format', 'json', '-n', '0'], cwd=b, env=lenv, capture_output=True, text=True, encoding='utf-8',
                            stdin=subprocess.DEVNULL, timeout=180)
        left = None
        if 'No unknown transactions found' in p2.stdout:
            left = []
        else:
            try:
                left = [i['raw_description'] for i in json.loads(p2.stdout[p2.stdout.index('['):])]
            except Exception:
                pass
        if left is None or left:
            rec.violation('discover-loop-does-not-shrink:non-utf8-locale', f'LC_ALL=C: {len(items)} suggestions appended to merchants.rules; the next discover '
                          f'{"fails: " + repr((p2.stderr or p2.stdout)[-200:]) if left is None else "still lists " + repr(left[:3])}', case)
    shutil.rmtree(b, ignore_errors=True)


def inprocess_loop(rec, tmp):
    """The discover loop driven by a program that stays alive (an agent calling the library): rules are suggested, appended to the SAME rules file, the file is
    loaded again and the statements are read again - the descriptions the new rules match are no longer uncategorised."""
    from tally import merchant_utils as mu
    from tally.commands import discover as D
    from tally.format_parser import parse_format_string
    from tally.parsers import parse_generic_csv
    descs = ['BLUE BOTTLE COFFEE 12', 'SQ *CORNER BAKERY', 'CITY GYM MEMBERSHIP', 'ACME HARDWARE #44']
    b = make_budget(tmp, 7702, descs)
    rules_path = os.path.join(b, 'config', 'merchants.rules')
    spec = parse_format_string('{date:%Y-%m-%d},{description},{amount}')

    def unknown():
        rules = mu.get_all_rules(rules_path)
        transforms = mu.get_transforms(rules_path)
        txns = parse_generic_csv(os.path.join(b, 'data', 'a.csv'), spec, rules, source_name='A', transforms=transforms)
        return [t['raw_description'] for t in txns if t['category'] == 'Unknown']
    try:
        before = unknown()
        with open(rules_path, 'a', encoding='utf-8') as f:
            for d in before:
                f.write('\n' + D.suggest_merchants_rule(D.suggest_merchant_name(d), D.suggest_pattern(d)).replace('category: CATEGORY', 'category: Cat').replace('subcategory: SUBCATEGORY', 'subcategory: Sub') + '\n')
        after = unknown()
    except Exception as e:
        rec.unsure('in-process discover loop could not run: %s: %s' % (type(e).__name__, e))
        shutil.rmtree(b, ignore_errors=True)
        return
    rec.case()
    rec.count('inprocess_discover_loops')
    if sorted(before) != sorted(descs) or after:
        rec.violation('discover-loop-does-not-shrink:same-process', f'one process: {len(before)} uncategorised descriptions, their suggested rules appended to the same merchants.rules, '
                      f'file loaded and statements read again: still uncategorised {after}', {'kind': 'inprocess-loop'})
    shutil.rmtree(b, ignore_errors=True)


def run(rec, shard, nshards, t):
    core.import_tally()
    rnd = core.rng_for('C19', shard)
    tmp = tempfile.mkdtemp(prefix='vt-c19-')
    try:
        for i in range((3000 if t == 'quick' else 200000) // nshards):
            d = gen_desc(rnd)
            if not d:
                continue
            library_check(rec, d)
            if i < 3 and shard == 0:
                from tally.commands import discover as D
                rec.sample({'description': d, 'suggested_rule': D.suggest_merchants_rule(D.suggest_merchant_name(d), D.suggest_pattern(d))})
        for k in range(max(1, (24 if t == 'quick' else 500) // nshards)):
            cli_loop(rec, rnd, tmp, k)
        if shard == 0:
            for d in ['WHOLE FOODS MARKET 10234 SEATTLE WA', 'STARBUCKS #123 SEATTLE', 'SQ *BLUE BOTTLE COFFEE', 'AT&T*BILL PAYMENT', 'C++ BOOKS (USED)']:
                library_check(rec, d)
            judge_other_stdout_encodings(rec, tmp)
            inprocess_loop(rec, tmp)
    finally:
        shutil.rmtree(tmp, ignore_errors=True)


def replay(rec, case):
    core.import_tally()
    if case['kind'] == 'desc' or 'desc' in case:
        library_check(rec, case['desc'])
    tmp = tempfile.mkdtemp(prefix='vt-c19-')
    try:
        rnd = core.rng_for('C19', 'replay')
        if case['kind'] == 'stdout-encoding':
            judge_other_stdout_encodings(rec, tmp)
            return
        if case['kind'] == 'inprocess-loop':
            inprocess_loop(rec, tmp)
            return
        for k in range(4):
            cli_loop(rec, rnd, tmp, k)
    finally:
        shutil.rmtree(tmp, ignore_errors=True)

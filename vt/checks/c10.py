"""C10 - a merchant appears in a view exactly when the view's filter is true of it.

Views reference model evaluated on each merchant's OWN RAW PAYMENTS (the generated transactions with their true dates),
compared with the real pipeline analyze_transactions -> classify_by_sections(parse_sections(views file)):
  * membership per (view, merchant); merchants tagged income / transfer / investment are in no view;
  * a filter that cannot be evaluated admits nobody;
  * views are independent: adding, removing or reordering OTHER views never changes a view's membership;
  * compute_section_totals(view).total == sum of its members' totals.
Comparisons whose two sides are within 1e-6 in the reference are "near boundary" and are not judged.
"""
import ast
import calendar
import copy
import statistics
from collections import defaultdict
from datetime import datetime

from vt import core

SPEC = {
    'level': 'exploration',
    'shards': {'quick': 8, 'thorough': 16},
    'rule': ('8-25 merchants with 1-40 payments over 1-30 months (two or three calendar years, so that the same calendar month repeats), '
             'mixed signs, tags incl. special tags in mixed case; views files of 6-12 views whose filters come from a grammar over the '
             'documented primitives (months total cv category subcategory merchant tags payments), aggregates with auto-mapping over by(month|'
             'year|week|day), abs round max_val min_val period(), global and view-local variables (incl. locals shadowing globals and names '
             're-used by later views), unevaluable filters. Non-trivial = (view, merchant) judgement on a merchant with >=2 payments in >=2 '
             'months for a filter with an aggregate, grouping or variable; distinct by (filter, merchant payments digest)'),
    'exhaustive': {'quick': False, 'thorough': False},
    'required_counters': ['membership_judgements', 'excluded_merchant_checks', 'independence_checks', 'section_total_checks',
                          'unevaluable_filter_checks', 'day_or_week_grouping_judgements', 'variable_filter_judgements'],
    'assumptions': ['stddev is the sample deviation (pinned by the repository tests); week grouping is judged only where Monday-start, '
                    'Sunday-start and ISO weeks agree on the verdict',
                    'period() is judged only when the excluded merchants\' months are a subset of the other merchants\' months',
                    'each merchant has a single category/subcategory'],
}

CATS = [('Food', 'Grocery'), ('Food', 'Coffee'), ('Bills', 'Rent'), ('Shopping', 'Online'), ('Subscriptions', 'Streaming'), ('Travel', ''),
        ('Cafe\u0301', 'Bar')]      # (decomposed accent, as some editors and file systems write it: the text is what it is, in the rules and in the views file)
TAGS = ['business', 'recurring', 'Large', 'S\u00fc\u00dfes', '\u039b\u039f\u0393\u0391\u03a1\u0399\u0391\u03a3\u039c\u038c\u03a3',
        # ordinary tags that merely CONTAIN a special word: only the exact words income / transfer / investment keep a merchant out of the views
        'income-tax', 'reinvestment', 'transfer-fee', 'Transferred', 'non-income']
SPECIAL = ['income', 'transfer', 'investment', 'Income', 'TRANSFER']


def gen_txns(rnd):
    txns = []
    years = rnd.choice([[2024, 2025], [2023, 2024, 2025], [2025]])
    for m in range(rnd.randint(4, 14)):
        name = 'M%d' % m
        cat, sub = rnd.choice(CATS)
        base = rnd.sample(TAGS, rnd.randint(0, 2))
        special = [rnd.choice(SPECIAL)] if rnd.random() < .15 else []
        late_special, with_info = rnd.random() < .5, rnd.random() < .5
        style = rnd.choice(['monthly', 'random', 'burst', 'single', 'yearedge'] + (['leap'] if 2024 in years else []))
        n = {'monthly': rnd.randint(3, 20), 'random': rnd.randint(1, 25), 'burst': rnd.randint(2, 10), 'single': 1, 'leap': rnd.randint(2, 5),
             'yearedge': rnd.randint(2, 6)}[style]
        y0, m0 = rnd.choice(years), rnd.randint(1, 12)
        for k in range(n):
            if style == 'monthly':
                mm = (m0 - 1 + k) % 12 + 1
                yy = min(max(years), y0 + (m0 - 1 + k) // 12)
                d = datetime(yy, mm, rnd.choice([1, 5, 15, 28]))
            elif style == 'burst':
                d = datetime(y0, m0, rnd.choice([3, 3, 4, 10, 20, 21]))
            elif style == 'yearedge':
                # the first and the last days of ONE calendar year (they share neither a week nor, in ISO terms, always a year)
                ye = rnd.choice(years)
                d = rnd.choice([datetime(ye, 1, 1), datetime(ye, 1, 3), datetime(ye, 1, 6), datetime(ye, 12, 29), datetime(ye, 12, 30), datetime(ye, 12, 31)])
            elif style == 'leap':
                d = rnd.choice([datetime(2024, 2, 29), datetime(2024, 2, 29), datetime(2024, 2, 15), datetime(2024, 2, 22), datetime(2024, 3, 1), datetime(2024, 12, 31)])
            else:
                yy, mm = rnd.choice(years), rnd.randint(1, 12)
                d = datetime(yy, mm, rnd.randint(1, calendar.monthrange(yy, mm)[1]))       # month ends and the leap day included
            if 2024 in years and rnd.random() < .04:
                d = datetime(2024, 2, rnd.choice([29, 29, 15, 28]))
            amt = round(rnd.choice([1, 1, 1, 1, -1]) * rnd.choice([5, 9.99, 25, 100, 250.5, 1200, 33.33, 50]), 2)
            if rnd.random() < .08:
                amt = rnd.choice([19.996, 0.004, 99.995, 100.004, 49.9951, 33.335])      # (statements in currencies with three decimals, fuel prices, converted amounts)
            tags = list(base) + special + (['extra'] if rnd.random() < .1 else [])
            if special and late_special and k == 0 and n > 1:
                tags = list(base)            # the special tag comes from a rule that only SOME payments match (here: not the first one)
            t = {'date': d, 'raw_description': name.upper(), 'description': name, 'amount': amt, 'merchant': name, 'category': cat,
                 'subcategory': sub, 'source': 's', 'tags': tags}
            if with_info:
                t['match_info'] = {'pattern': 'contains("%s")' % name.upper(), 'source': 'user', 'tags': list(tags), 'tag_sources': {}}   # as the readers attach it
            txns.append(t)
    # (no shuffle of a merchant's own first payment: list order is statement order, and the first payment is the one whose match_info the merchant keeps)
    first = {}
    for t in txns:
        first.setdefault(t['merchant'], t)
    rest = [t for t in txns if first[t['merchant']] is not t]
    rnd.shuffle(rest)
    heads = list(first.values())
    rnd.shuffle(heads)
    if len(years) > 1 and rnd.random() < .25:
        # statement order (oldest first) and every merchant still active in the LAST year: the earlier years are seen only in payments that are
        # not the last one of their merchant
        out = heads + rest
        for name in sorted({t['merchant'] for t in out}):
            mine = [t for t in out if t['merchant'] == name]
            if not any(t['date'].year == max(years) for t in mine):
                out.append(dict(mine[0], date=datetime(max(years), rnd.randint(1, 12), rnd.randint(1, 28)), amount=round(rnd.choice([5, 25, 100]), 2)))
        out.sort(key=lambda t: t['date'])
        return out
    return heads + rest


# ------------------------------------------------------------------------------------------------ reference
class Near(Exception):
    pass


class RefErr(Exception):
    pass


def eff(t):
    tl = {x.lower() for x in t['tags']}
    return abs(t['amount']) if ('income' in tl or 'investment' in tl) else t['amount']


WEEK_KEYS = {'mon': lambda d: d.strftime('%Y-W%W'), 'sun': lambda d: d.strftime('%Y-W%U'), 'iso': lambda d: '%d-W%02d' % d.isocalendar()[:2]}


class MerchantRef:
    def __init__(self, txns, period, week='mon'):
        self.t, self.period, self.week = txns, period, week

    def payments(self):
        return [eff(t) for t in self.t]

    def by(self, f):
        f = f.lower()
        key = {'month': lambda d: (d.year, d.month), 'year': lambda d: (d.year,), 'day': lambda d: (d.year, d.month, d.day),
               'week': WEEK_KEYS[self.week]}.get(f)
        if key is None:
            raise RefErr('unknown grouping')
        g = {}
        for t in self.t:
            g.setdefault(key(t['date']), []).append(eff(t))
        return [g[k] for k in sorted(g)]

    def months(self):
        return len({(t['date'].year, t['date'].month) for t in self.t}) or 1

    def total(self):
        return sum(self.payments())

    def cv(self):
        mt = [sum(g) for g in self.by('month')]
        if len(mt) < 2:
            return 0.0
        mu = sum(mt) / len(mt)
        scale = max(abs(x) for x in mt)
        if scale > 0 and abs(mu) <= 1e-9 * scale:
            raise Near()        # monthly totals cancel: the mean is zero or float noise around zero, so cv is 0 or astronomically large
        if mu == 0:
            return 0.0
        return (sum((x - mu) ** 2 for x in mt) / len(mt)) ** .5 / mu


def nested(v):
    return isinstance(v, list) and bool(v) and isinstance(v[0], list)


def agg(f, v):
    if not isinstance(v, list):
        raise RefErr('aggregate over a non-list')
    one = {'sum': lambda g: sum(g) if g else 0, 'count': len, 'avg': lambda g: sum(g) / len(g) if g else 0, 'max': lambda g: max(g) if g else 0,
           'min': lambda g: min(g) if g else 0, 'stddev': lambda g: statistics.stdev(g) if len(g) >= 2 else 0}[f]
    return [one(g) for g in v] if nested(v) else one(v)


def ref_eval(expr, m, first, variables):
    env = {'months': m.months(), 'total': m.total(), 'cv': (m.cv() if 'cv' in expr.lower() else 0.0), 'category': first['category'], 'subcategory': first['subcategory'],
           'merchant': first['merchant'], 'tags': {x.lower() for t in m.t for x in t['tags']}, 'payments': m.payments(), 'true': True, 'false': False}

    def ev(n):
        if isinstance(n, ast.Expression):
            return ev(n.body)
        if isinstance(n, ast.Constant):
            return n.value
        if isinstance(n, ast.Name):
            k = n.id.lower()
            if k in variables:
                return variables[k]
            if k in env:
                return env[k]
            raise RefErr('unknown variable')
        if isinstance(n, ast.BoolOp):
            if isinstance(n.op, ast.And):
                for v in n.values:
                    if not ev(v):
                        return False
                return True
            for v in n.values:
                if ev(v):
                    return True
            return False
        if isinstance(n, ast.UnaryOp):
            v = ev(n.operand)
            return (not v) if isinstance(n.op, ast.Not) else -v
        if isinstance(n, ast.IfExp):
            return ev(n.body) if ev(n.test) else ev(n.orelse)
        if isinstance(n, ast.BinOp):
            a, b, o = ev(n.left), ev(n.right), type(n.op)
            if o is ast.Add:
                return a + b
            if o is ast.Sub:
                return a - b
            if o is ast.Mult:
                return a * b
            if o is ast.Div:
                return 0 if b == 0 else a / b
            if o is ast.Mod:
                return 0 if b == 0 else a % b
        if isinstance(n, ast.Compare):
            l = ev(n.left)
            for op, c in zip(n.ops, n.comparators):
                r = ev(c)
                o = type(op)
                if (isinstance(l, (int, float)) and isinstance(r, (int, float)) and not isinstance(l, bool) and not isinstance(r, bool)
                        and abs(l - r) < 1e-6 * max(1.0, abs(l), abs(r)) and l != r):
                    raise Near()
                both = isinstance(l, str) and isinstance(r, str)
                if o is ast.Eq:
                    res = l.lower() == r.lower() if both else l == r
                elif o is ast.NotEq:
                    res = l.lower() != r.lower() if both else l != r
                elif o is ast.Lt:
                    res = l < r
                elif o is ast.LtE:
                    res = l <= r
                elif o is ast.Gt:
                    res = l > r
                elif o is ast.GtE:
                    res = l >= r
                elif o is ast.In:
                    res = (l.lower() in r) if isinstance(r, set) and isinstance(l, str) else l in r
                elif o is ast.NotIn:
                    res = (l.lower() not in r) if isinstance(r, set) and isinstance(l, str) else l not in r
                else:
                    raise RefErr('op')
                if not res:
                    return False
                l = r
            return True
        if isinstance(n, ast.Call) and isinstance(n.func, ast.Name):
            f = n.func.id.lower()
            a = [ev(x) for x in n.args]
            if f in ('sum', 'count', 'avg', 'max', 'min', 'stddev'):
                if len(a) != 1:
                    raise RefErr('arity')
                return agg(f, a[0])
            if f == 'by':
                return m.by(a[0])
            if f == 'abs':
                return abs(a[0])
            if f == 'round':
                return round(*a)
            if f == 'max_val':
                return max(a[0], a[1])
            if f == 'min_val':
                return min(a[0], a[1])
            if f == 'period':
                k = a[0].lower()
                if k in m.period:
                    return m.period[k]
                raise RefErr('period field')
            raise RefErr('unknown function')
        raise RefErr('node ' + type(n).__name__)

    try:
        return ev(ast.parse(expr, mode='eval'))
    except Near:
        raise
    except RefErr:
        raise
    except RecursionError:
        raise RefErr('recursion')
    except Exception as e:
        raise RefErr(type(e).__name__)


# ------------------------------------------------------------------------------------------------ views generator
NUMS = ['months', 'total', 'cv', 'count(payments)', 'sum(payments)', 'avg(payments)', 'max(payments)', 'min(payments)', 'stddev(payments)',
        'max(sum(by("month")))', 'avg(sum(by("month")))', 'max(count(by("day")))', 'max(count(by("week")))', 'count(sum(by("year")))',
        'min(avg(by("month")))', 'max(stddev(by("month")))', 'abs(total)', 'total / months', 'max_val(months, 3)', 'total % 7', 'count(by("day"))',
        'count(by("week"))', 'max(sum(by("day")))', 'sum(count(by("year")))', 'round(cv, 1)', 'min_val(total, 500)', 'period("month")',
        'months / period("month")', 'period("year")', 'count(by("MONTH"))', 'thr', 'per_month', 'lim', 'peak', 'visits']
BAD_FILTERS = ['sum(by("month")) > 100', 'category > 5', 'payments > 3', 'nosuchvar > 1', 'by("fortnight") == 1', 'max_val(1) > 0', '"x" in months',
               'stddev(category) > 1', 'total + category > 1', 'period("decade") > 1', 'undefined_local > 0']


def gfilter(rnd, d=2):
    c = rnd.randint(0, 13 if d > 0 else 8)
    num = lambda: rnd.choice(NUMS)
    if c <= 3:
        return '%s %s %s' % (num(), rnd.choice(['<', '<=', '>', '>=']), rnd.choice(['0', '1', '2', '3', '6', '0.3', '100', '1000', '50.5', '12', '0.5']))
    if c == 4:
        return 'category %s "%s"' % (rnd.choice(['==', '!=']), rnd.choice(['Food', 'food', 'Bills', 'X', 'TRAVEL', 'Cafe\u0301', 'Caf\u00e9', 'cafe\u0301']))
    if c == 5:
        return 'subcategory == "%s"' % rnd.choice(['Grocery', 'COFFEE', 'Rent', ''])
    if c == 6:
        return '"%s" %s tags' % (rnd.choice(['business', 'Recurring', 'large', 'zzz', 'extra', 's\u00fc\u00dfes', 'S\u00dc\u00dfES', '\u03bb\u03bf\u03b3\u03b1\u03c1\u03b9\u03b1\u03c3\u03bc\u03cc\u03c2', 'sFsses']), rnd.choice(['in', 'not in']))
    if c == 7:
        return rnd.choice(['true', 'True', 'merchant == "m1"', 'months == count(sum(by("month")))', 'is_freq', 'not is_freq', 'merchant != "M2"'])
    if c == 8:
        return '%s %s %s' % (num(), rnd.choice(['<', '>']), num())
    if c == 9:
        return '(%s and %s)' % (gfilter(rnd, d - 1), gfilter(rnd, d - 1))
    if c == 10:
        return '(%s or %s)' % (gfilter(rnd, d - 1), gfilter(rnd, d - 1))
    if c == 11:
        return 'not %s' % gfilter(rnd, d - 1)
    if c == 12:
        return '(%s if %s else %s) > %s' % (num(), gfilter(rnd, 0), num(), rnd.choice(['0', '10', '100']))
    return '%s < %s <= %s' % (rnd.choice(['0', '1', '10']), num(), rnd.choice(['100', '1000', '12']))


GLOBALS = [('thr', '100'), ('is_freq', 'months >= 3'), ('per_month', 'total / months'), ('lim', 'max_val(2, period("month") * 0.5)'),
           ('peak', 'max(sum(by("month")))'), ('visits', 'sum(count(by("day")))')]     # no primitive name in them: only aggregates over by()


def gen_views(rnd):
    gl = [g for g in GLOBALS if rnd.random() < .75]
    if rnd.random() < .3:
        # a variable that cannot be evaluated (for every merchant, or only for single-month ones) declared BEFORE variables that can
        gl.insert(rnd.randint(0, max(0, len(gl) - 1)), rnd.choice([('zbad', 'total / period("week")'), ('zbad', 'nosuchname + 1'),
                                                                   ('zbad', '(total if months > 1 else nosuchname)')]))
    views = []
    exotic = ['\u0415\u0434\u0430', '\u0414\u043e\u043c', '\u8cb7\u3044\u7269', '\u0395\u03bb\u03bb\u03b7\u03bd\u03b9\u03ba\u03ac', 'Food & Co', 'Food / Co', 'Food + Co']
    rnd.shuffle(exotic)
    for i in range(rnd.randint(6, 12)):
        loc = []
        r = rnd.random()
        if r < .2:
            loc.append(('thr', rnd.choice(['1000', '5', 'total / 2'])))          # shadows the global of the same name
        elif r < .3:
            loc.append(('lim', rnd.choice(['1', 'months'])))
        elif r < .4:
            loc.append(('is_freq', 'months >= 1'))
        elif r < .45:
            loc.append(('undefined_local', '1'))
        if loc and rnd.random() < .15:
            loc.insert(0, ('zlocbad', rnd.choice(['nosuchname * 2', 'sum(category)'])))
        f = rnd.choice(BAD_FILTERS) if rnd.random() < .12 else gfilter(rnd)
        # (view names are free text: other scripts, punctuation that only differs in one character)
        views.append({'name': (exotic.pop() if (exotic and rnd.random() < .35) else 'V%d' % i), 'locals': loc, 'filter': f})
    if any(n == 'zbad' for n, _ in gl):
        # ... and views that READ the variable that has no value (as divisor, dividend, operand of a comparison): nothing can be computed from it
        for k, f in enumerate(rnd.sample(['total / zbad < 0.5', 'count(payments) % zbad == 0', 'zbad / total <= 1', 'total > 0 and total / zbad >= 0', 'zbad == 0 or total % zbad < 1',
                                          'not (months / zbad > 1)'], rnd.randint(1, 3))):
            views.insert(rnd.randint(0, len(views)), {'name': 'ReadsBad%d' % k, 'locals': [], 'filter': f})
    if rnd.random() < .5:
        # views with the SAME filter text and the same local variable names but other values: each is judged with its own variables
        f = rnd.choice(['total > thr', 'months >= lim', 'total > thr and months >= 1', 'sum(payments) >= thr or lim > 100'])
        vals = rnd.sample(['5', '100', '1000', '2', 'months', 'total / 2', '1e9'], 3)
        for k, v in enumerate(vals[:rnd.randint(2, 3)]):
            views.insert(rnd.randint(0, len(views)), {'name': 'Twin%d' % k, 'locals': [('thr', v), ('lim', v)], 'filter': f})
    return gl, views


def render_views(gl, views):
    out = ['%s = %s' % g for g in gl] + ['']
    for v in views:
        out.append('[%s]' % v['name'])
        out += ['%s = %s' % l for l in v['locals']]
        out.append('filter: %s' % v['filter'])
        out.append('')
    return '\n'.join(out)


def ref_membership(gl, view, ts, period, week):
    """True / False / None(near boundary).  Variables: globals then locals in file order; a failing variable is unbound-or-None."""
    m = MerchantRef(ts, period, week)
    variables = {}
    for n, e in list(gl) + list(view['locals']):
        try:
            variables[n.lower()] = ref_eval(e, m, ts[0], variables)
        except RefErr:
            variables[n.lower()] = None
    try:
        return bool(ref_eval(view['filter'], m, ts[0], variables))
    except RefErr:
        return False


def judge(rec, rnd, txns, gl, views):
    from tally import analyzer as A
    from tally.section_engine import parse_sections
    from tally.classification import is_excluded_from_spending
    case = {'kind': 'views', 'txns': [dict(t, date=t['date'].isoformat()) for t in txns], 'globals': gl, 'views': views}
    st = A.analyze_transactions(copy.deepcopy(txns))
    text = render_views(gl, views)
    try:
        if len(text) % 2:
            cfg = parse_sections(text)
        else:
            # ... read from disk, the way `tally up` gets it
            import os as _os, tempfile as _tf
            from tally.section_engine import load_sections
            fd, vp = _tf.mkstemp(suffix='.rules', prefix='vt-c10-v-')
            with _os.fdopen(fd, 'w', encoding='utf-8') as f:
                f.write(text)
            try:
                cfg = load_sections(vp)
            finally:
                _os.unlink(vp)
            rec.count('views_files_loaded_from_disk')
    except Exception as e:
        rec.violation('valid-views-file-rejected', f'{type(e).__name__}: {e}', case)
        return
    try:
        res = A.classify_by_sections(st['by_merchant'], cfg, st['num_months'])
    except Exception as e:
        rec.violation('classify_by_sections-raises:' + type(e).__name__, f'{type(e).__name__}: {e}', case)
        return
    if core.rng_for('C10', 'html:' + core.digest(case)[:8]).random() < .12:
        # the same grouping as the HTML report carries it (spendingData.sections): every view that has members is there under its own title, with those members
        import os, tempfile
        from vt.checks import c12
        st2 = dict(st)
        st2['sections'] = {n: A.compute_section_totals(m) for n, m in res.items()}
        st2['_sections_config'] = cfg
        fd, pth = tempfile.mkstemp(suffix='.html', prefix='vt-c10-')
        os.close(fd)
        try:
            A.write_summary_file_vue(st2, pth, year=2025, currency_format='${amount}', sources=['s'], embedded_html=True)
            data, err = c12.extract_data(open(pth, encoding='utf-8').read())
        except Exception as e:
            data, err = None, '%s: %s' % (type(e).__name__, e)
        finally:
            os.unlink(pth)
        rec.count('html_report_view_checks')
        if err or data is None:
            rec.violation('html-report-with-views-fails', str(err)[:200], case)
        else:
            page = {}
            for sec in data.get('sections', {}).values():
                page.setdefault(sec['title'], set()).update(m['displayName'] for m in sec['merchants'].values())
            for n, members in res.items():
                want_m = {m for m, _ in members}
                if want_m and page.get(n) != want_m:
                    rec.violation('html-report-view-differs', f'view {n!r}: classify_by_sections lists {sorted(want_m)}, the HTML report carries '
                                  f'{sorted(page[n]) if n in page else "no such view"} (views in the page: {sorted(page)})', case)
                    break
    bym = defaultdict(list)
    for t in txns:
        bym[t['merchant']].append(t)
    excluded = {n for n, ts in bym.items() if {x.lower() for t in ts for x in t['tags']} & {'income', 'transfer', 'investment'}}
    inc = [t for n, ts in bym.items() if n not in excluded for t in ts]
    period = {'month': len({(t['date'].year, t['date'].month) for t in inc}) or st['num_months'], 'year': len({t['date'].year for t in inc}) or 1}
    months_ex = {(t['date'].year, t['date'].month) for n in excluded for t in bym[n]}
    months_in = {(t['date'].year, t['date'].month) for t in inc}
    period_ok = months_ex <= months_in
    for v in views:
        members = {m for m, _ in res.get(v['name'], [])}
        uses_period = 'period(' in v['filter'] or any('period(' in e for _, e in list(gl) + v['locals'] if _ in v['filter'])
        for name, ts in bym.items():
            rec.case()
            if name in excluded:
                rec.count('excluded_merchant_checks')
                if name in members:
                    rec.violation('excluded-merchant-in-view', f'{name} (tags {sorted({x for t in ts for x in t["tags"]})}) is listed in view {v["name"]}', case)
                continue
            if uses_period and not period_ok:
                rec.count('period_not_judged')
                continue
            try:
                verdicts = {w: ref_membership(gl, v, ts, period, w) for w in (('mon', 'sun', 'iso') if '"week"' in v['filter'].lower() else ('mon',))}
            except Near:
                rec.count('near_boundary_not_judged')
                continue
            if len(set(verdicts.values())) > 1:
                rec.count('week_definition_dependent_not_judged')
                continue
            exp = verdicts['mon']
            rec.count('membership_judgements')
            fl = v['filter'].lower()
            if '"day"' in fl or '"week"' in fl:
                rec.count('day_or_week_grouping_judgements')
            if any(n in fl for n in ('thr', 'is_freq', 'per_month', 'lim', 'undefined_local')):
                rec.count('variable_filter_judgements')
            if v['filter'] in BAD_FILTERS:
                rec.count('unevaluable_filter_checks')
            if len(ts) >= 2 and len({(t['date'].year, t['date'].month) for t in ts}) >= 2 and ('(' in v['filter'] or v['locals']):
                rec.interesting([v['filter'], core.digest([(t['date'].isoformat(), t['amount']) for t in ts])])
            if exp != (name in members):
                key = 'membership-differs'
                if ('"day"' in fl or '"week"' in fl):
                    # would the verdict agree if every payment were dated the 15th of its month?
                    ts15 = [dict(t, date=t['date'].replace(day=15)) for t in ts]
                    try:
                        if ref_membership(gl, v, ts15, period, 'mon') == (name in members):
                            key = 'by-day-week-collapsed-to-month'
                    except Near:
                        pass
                elif v['filter'] in BAD_FILTERS:
                    key = 'unevaluable-filter-admits-merchant'
                elif v['locals'] or any(n in fl for n in ('thr', 'is_freq', 'per_month', 'lim')):
                    key = 'membership-differs:variables'
                rec.violation(key, f'view {v["name"]} filter {v["filter"]!r} locals {v["locals"]}: merchant {name} ({len(ts)} payments) is '
                              f'{"" if name in members else "not "}listed, reference says {exp}', dict(case, view=v['name'], merchant=name))
        # section totals
        sec = A.compute_section_totals(res.get(v['name'], []))
        rec.count('section_total_checks')
        want = sum(st['by_merchant'][m]['total'] for m in members)
        if abs(sec['total'] - want) > 1e-6 * max(1, abs(want)) or sec['count'] != len(members):
            rec.violation('section-total-differs', f'view {v["name"]}: total {sec["total"]} vs sum of members {want}', case)
    # independence: remove / reorder / add other views
    for trial in range(2):
        keep = [v for v in views if rnd.random() < .6] or views[:1]
        rnd.shuffle(keep)
        extra = [{'name': 'X%d' % trial, 'locals': [('thr', '7'), ('is_freq', 'false'), ('newvar', '1')], 'filter': rnd.choice(['true', 'total > thr', 'newvar > 0'])}]
        alt = extra + keep if rnd.random() < .5 else keep + extra
        try:
            r2 = A.classify_by_sections(st['by_merchant'], parse_sections(render_views(gl, alt)), st['num_months'])
        except Exception as e:
            rec.violation('classify_by_sections-raises:' + type(e).__name__, f'{type(e).__name__}: {e}', case)
            return
        rec.count('independence_checks')
        for v in keep:
            a, b = [m for m, _ in res.get(v['name'], [])], [m for m, _ in r2.get(v['name'], [])]
            if sorted(a) != sorted(b):
                rec.violation('views-not-independent', f'view {v["name"]} ({v["filter"]!r}, locals {v["locals"]}) has members {sorted(a)} in the full file but '
                              f'{sorted(b)} when other views are added/removed/reordered ({[x["name"] for x in alt]})', dict(case, alt=[x['name'] for x in alt]))
                return


def run(rec, shard, nshards, t):
    core.import_tally()
    rnd = core.rng_for('C10', shard)
    for i in range((300 if t == 'quick' else 40000) // nshards):
        txns = gen_txns(rnd)
        gl, views = gen_views(rnd)
        judge(rec, rnd, txns, gl, views)
        if i < 1 and shard == 0:
            rec.sample({'views_file': render_views(gl, views)[:700], 'payments_of_M0': [(t['date'].isoformat()[:10], t['amount']) for t in txns if t['merchant'] == 'M0'][:8]})
    if shard == 0:
        witness_day(rec)
        witness_periods(rec)


def witness_day(rec):
    """A merchant paid on the 3rd and the 20th of one month has at most one payment per day."""
    rnd = core.rng_for('C10', 'w')
    txns = [{'date': datetime(2025, 3, d), 'raw_description': 'GYM', 'description': 'Gym', 'amount': 30.0, 'merchant': 'Gym', 'category': 'Health',
             'subcategory': '', 'source': 's', 'tags': []} for d in (3, 20)]
    judge(rec, rnd, txns, [], [{'name': 'Twice a day', 'locals': [], 'filter': 'max(count(by("day"))) >= 2'},
                               {'name': 'Weekly', 'locals': [], 'filter': 'count(by("week")) >= 2'}] + [{'name': 'P%d' % i, 'locals': [], 'filter': 'true'} for i in range(4)])


def witness_periods(rec):
    """Fixed scenarios the random generator only meets now and then: the analysis period read through a VARIABLE on data that does not span twelve months,
    and merchants paid in the same calendar month of two different years."""
    rnd = core.rng_for('C10', 'wp')

    def tx(name, y, m, d, amt, cat='Bills'):
        return {'date': datetime(y, m, d), 'raw_description': name.upper(), 'description': name, 'amount': amt, 'merchant': name, 'category': cat,
                'subcategory': '', 'source': 's', 'tags': []}
    # half a year of statements; thresholds derived from period("month") / period("year") in globals and locals
    half = [tx('Rent', 2025, m, 1, 1200.0) for m in range(1, 7)] + [tx('Gym', 2025, m, 5, 30.0) for m in (1, 2, 3, 4)] + [tx('Cafe', 2025, m, 9, 4.5) for m in (2, 5)] + \
           [tx('Gift', 2025, 3, 14, 80.0)]
    views = [{'name': 'Most months', 'locals': [], 'filter': 'months >= most'}, {'name': 'Half', 'locals': [], 'filter': 'months >= half'},
             {'name': 'Local half', 'locals': [('h', 'period("month") / 2')], 'filter': 'months >= h'},
             {'name': 'Direct', 'locals': [], 'filter': 'months >= period("month") * 0.5'},
             {'name': 'Yearly share', 'locals': [('per_year', 'count(payments) / period("year")')], 'filter': 'per_year >= 4'},
             {'name': 'Rare', 'locals': [], 'filter': 'months < half'}]
    judge(rec, rnd, half, [('half', 'period("month") * 0.5'), ('most', 'period("month") * 0.75')], views)
    # two years of statements; yearly renewals in the same calendar month, a monthly bill over 14 months
    two = [tx('Domain', 2024, 3, 10, 15.0), tx('Domain', 2025, 3, 10, 15.0), tx('Insurance', 2024, 11, 2, 600.0), tx('Insurance', 2025, 11, 2, 640.0)] + \
          [tx('Phone', 2024 + (m > 12), (m - 1) % 12 + 1, 3, 40.0) for m in range(1, 15)] + [tx('Once', 2025, 7, 7, 99.0)]
    views = [{'name': 'Two months', 'locals': [], 'filter': 'months >= 2'}, {'name': 'Over a year', 'locals': [], 'filter': 'months > 12'},
             {'name': 'Exactly', 'locals': [], 'filter': 'months == 2 and count(by("month")) == 2'}, {'name': 'Years', 'locals': [], 'filter': 'count(by("year")) == 2'},
             {'name': 'Var', 'locals': [('m2', 'months * 2')], 'filter': 'm2 >= 4'}, {'name': 'Share', 'locals': [], 'filter': 'months / period("month") >= 0.9'},
             {'name': 'Per year', 'locals': [], 'filter': 'period("year") == 2 and months >= per'}]
    judge(rec, rnd, two, [('per', 'period("year")')], views)
    # text written with a decomposed accent in the rules (category, tag) and in the views file alike; both ways of getting the views (text / file on disk)
    nfd = [dict(tx('Bistro', 2025, 1, 5, 25.0, 'Cafe\u0301'), tags=['cafe\u0301']), tx('Grocer', 2025, 1, 6, 80.0, 'Food'), dict(tx('Diner', 2025, 2, 6, 18.0, 'Caf\u00e9'), tags=['caf\u00e9'])]
    for pad in ('P', 'PP'):
        views = [{'name': 'Decomposed', 'locals': [], 'filter': 'category == "Cafe\u0301"'}, {'name': 'Composed', 'locals': [], 'filter': 'category == "Caf\u00e9"'},
                 {'name': 'Not decomposed', 'locals': [], 'filter': 'category != "cafe\u0301"'}, {'name': 'Tagged', 'locals': [], 'filter': '"cafe\u0301" in tags'},
                 {'name': pad, 'locals': [], 'filter': 'total > 50'}]
        judge(rec, rnd, nfd, [], views)
    # amounts with more than two decimals near a threshold: the views see the payments as the statements state them
    fine = [tx('Fuel', 2025, m, 3, 19.996) for m in (1, 2, 3)] + [tx('Dust', 2025, 1, 9, 0.004), tx('Dust', 2025, 2, 9, 0.004), tx('Edge', 2025, 4, 1, 99.995), tx('Round', 2025, 4, 2, 100.0)]
    views = [{'name': 'Under twenty each', 'locals': [], 'filter': 'max(payments) < 20'}, {'name': 'Under sixty', 'locals': [], 'filter': 'total < 60'},
             {'name': 'Has spend', 'locals': [], 'filter': 'total > 0.01'}, {'name': 'Hundred', 'locals': [], 'filter': 'total >= 100'},
             {'name': 'Avg', 'locals': [('a', 'avg(payments)')], 'filter': 'a < 20 and sum(payments) < 59.99'}, {'name': 'P', 'locals': [], 'filter': 'true'}]
    judge(rec, rnd, fine, [], views)
    # a month whose payments net to exactly zero (a charge refunded in full) is still a month: cv and the monthly aggregates see its 0
    zero = [tx('Refunded', 2025, 1, 5, 50.0), tx('Refunded', 2025, 1, 20, -50.0), tx('Refunded', 2025, 2, 5, 50.0), tx('Refunded', 2025, 3, 5, 50.0),
            tx('Steady', 2025, 1, 3, 40.0), tx('Steady', 2025, 2, 3, 40.0), tx('Steady', 2025, 3, 3, 41.0)]
    views = [{'name': 'Even', 'locals': [], 'filter': 'cv < 0.5'}, {'name': 'Uneven', 'locals': [], 'filter': 'not cv < 0.5'}, {'name': 'Very', 'locals': [], 'filter': 'cv > 0.9'},
             {'name': 'Zero month', 'locals': [], 'filter': 'min(sum(by("month"))) == 0 and months == 3'}, {'name': 'P', 'locals': [], 'filter': 'true'}, {'name': 'Q', 'locals': [], 'filter': 'total > 0'}]
    judge(rec, rnd, zero, [], views)
    # a variable that cannot be evaluated has no value - also when it is named like a primitive, and for every view that reads it
    views = [{'name': 'Reads bad', 'locals': [], 'filter': 'zbad / total <= 1'}, {'name': 'Reads shadow', 'locals': [], 'filter': 'months >= 1'},
             {'name': 'Local shadow', 'locals': [('total', 'nosuchname * 2')], 'filter': 'total > 0'}, {'name': 'Or', 'locals': [], 'filter': 'zbad == 0 or total > 0'},
             {'name': 'Untouched', 'locals': [], 'filter': 'total > 0'}, {'name': 'P', 'locals': [], 'filter': 'true'}]
    judge(rec, rnd, zero, [('zbad', 'total / period("week")'), ('months', 'nosuchname + 1')], views)
    rec.count('fixed_period_scenarios', 2)


def replay(rec, case):
    core.import_tally()
    rnd = core.rng_for('C10', 'replay')
    if case.get('kind') == 'witness-day':
        witness_day(rec)
        return
    txns = [dict(t, date=datetime.fromisoformat(t['date'])) for t in case['txns']]
    judge(rec, rnd, txns, [tuple(g) for g in case['globals']], [dict(v, locals=[tuple(l) for l in v['locals']]) for v in case['views']])

"""C12 - HTML, JSON, Markdown and text outputs all render and carry the same data.

Read-back monitors: every renderer is run on hostile analysis results (real analyze_transactions / classify_by_sections
output) and its output is parsed back:
  * export_json -> json;  export_markdown -> table rows;  print_summary / print_sections_summary -> labelled lines;
  * write_summary_file_vue -> html.parser (the <script> whose text starts with `window.spendingData =`) -> json.loads;
and compared with the stats dict and with each other: the flow figures, every merchant exactly once, every transaction
exactly once with equal description / amount / month / tags / source / extra fields, category sums == analysed totals.
"""
import contextlib
import io
import json
import math
import os
import re
import shutil
import tempfile
from collections import Counter
from datetime import datetime
from html.parser import HTMLParser

from vt import core

SPEC = {
    'level': 'exploration',
    'shards': {'quick': 8, 'thorough': 16},
    'rule': ('analysis results built by the real analyze_transactions from generated transactions: merchant names differing only in quotes, '
             'blanks or underscores; descriptions / names / tags / extra fields containing </script>, <!--, quotes, backslashes, U+2028, the '
             'template placeholders (/* JS_PLACEHOLDER */, /* DATA_PLACEHOLDER */, /* CSS_PLACEHOLDER */), {amount}, non-ASCII; negative, zero '
             'and mixed-sign totals; special tags in mixed case; with and without views; verbosity 0-2; embedded and --no-embedded-html; four '
             'currency formats. Non-trivial = result with >=1 hostile string and >=2 merchants; distinct by digest of the transactions'),
    'exhaustive': {'quick': False, 'thorough': False},
    'required_counters': ['json_renderings', 'markdown_renderings', 'text_renderings', 'html_renderings', 'html_transactions_compared',
                          'figure_comparisons', 'sections_renderings', 'html_type_total_checks'],
    'assumptions': ['currency formats are valid str.format templates containing {amount}',
                    'the embedded data is decoded with html.parser followed by json.loads, as the property states'],
}

HOSTILE = ['</script>', '</SCRIPT >', '<!-- x', '<script>alert(1)</script>', 'say "hi"', "it's", 'back\\slash', 'line sep', '/* JS_PLACEHOLDER */',
           '/* DATA_PLACEHOLDER */', '/* CSS_PLACEHOLDER */', '{amount}', '{0}', 'Café Ünï 東京', '&amp; <b>', '%s %d', '${x}', '`tick`', 'tab\there',
           ']]>', '\\u003c', "'); drop", '<style>/* CSS_PLACEHOLDER */</style>',
           # an emoji cut in half by a truncating export (a lone surrogate), an astral character, a NUL-free control character
           'COFFEE \ud83d', 'party \U0001f389 time', 'bell\x07']
MERCH = ['Netflix', "Joe's Diner", 'Joes Diner', 'Joe"s Diner', 'A B', 'A_B', 'A  B', "A'B", 'AB', 'Costco', 'Payroll Inc', 'Venmo', 'Fidelity', 'Uber Eats',
         'Shell </script>', 'Bank /* JS_PLACEHOLDER */', 'Über', 'X', "O'Neil_s", 'O Neils', 'Joes Diner 2', 'Joes_Diner_2', 'A B 2', 'A_B_2', 'A_B_3']
CATS = [('Food', 'Grocery'), ('Food', 'Restaurant'), ('Bills', 'Rent'), ('Income', 'Salary'), ('Finance', 'Transfer'), ('Unknown', 'Unknown'),
        ('Shopping', ''), ('Travel', 'Air'), ('We</script>ird', 'Sub"q')]
CURRENCIES = ['${amount}', '{amount} zl', '€{amount}', '£{amount}']


def gen_txns(rnd):
    merch = rnd.sample(MERCH, rnd.randint(1, 7))
    cat_of = {m: rnd.choice(CATS) for m in merch}
    # (the last three are ORDINARY tags: letters that only a Unicode case fold, not lower-casing, maps onto a special word)
    special = {m: rnd.choice([[], [], [], ['income'], ['Transfer'], ['investment'], ['INCOME', 'x'], ['recurring'], ['tran\u017ffer'], ['inve\u017ftment'],
                              ['\u0131ncome', 'q']]) for m in merch}
    out = []
    hostile = 0
    for i in range(rnd.randint(1, 30)):
        m = rnd.choice(merch)
        desc = rnd.choice(['PLAIN %d' % i, 'STORE #%d' % (i % 5)])
        if rnd.random() < .35:
            desc = rnd.choice(HOSTILE) + ' ' + desc
            hostile += 1
        tags = list(special[m])
        if rnd.random() < .25:
            tags = tags + [rnd.choice(['refund', 'q1', rnd.choice(HOSTILE)])]
        if rnd.random() < .1:
            tags = [rnd.choice(['income', 'transfer', 'investment'])] + tags     # same merchant, different bucket
        if rnd.random() < .05:
            tags = tags + ['2025', 'auto', 'bank', 'joint', 'monthly', 'recurring', 'savings', 'scheduled', 'zeta', rnd.choice(['transfer', 'income', 'weekly'])]
        amt = round(rnd.choice([1, 1, 1, -1]) * rnd.choice([0.01, 5, 12.5, 99.99, 1234.56, 250000, 0.5]), 2)
        if rnd.random() < .03:
            amt = 0.0
        elif rnd.random() < .06:
            amt = rnd.choice([1, -1]) * rnd.choice([9.705, 0.004, 99.999, 1.0005, 12.345])      # three-decimal currencies, sub-cent fees
        t = {'amount': amt, 'tags': tags, 'merchant': m, 'category': cat_of[m][0], 'subcategory': cat_of[m][1],
             'date': (datetime(2024, 2, 29) if rnd.random() < .04 else datetime(rnd.choice([2024, 2025]), 12, 31) if rnd.random() < .04 else
                      datetime(rnd.choice([2024, 2025]), rnd.randint(1, 12), rnd.randint(1, 28))), 'description': m, 'raw_description': desc,
             'source': rnd.choice(['Amex', 'Chase', 'Amex', 'Src </script>']), 'location': rnd.choice([None, 'WA', 'Seattle, WA'])}
        if rnd.random() < .2:
            t['extra_fields'] = {'items': [rnd.choice(HOSTILE), 'b'], 'n': i, 'who': rnd.choice(HOSTILE)}
            hostile += 1
        if rnd.random() < .3:
            # (the readers hand over ONE list: the transaction's tags and its match_info's tags are the same object)
            t['match_info'] = {'pattern': rnd.choice(PATTERNS + [rnd.choice(HOSTILE)]), 'source': 'user',
                               'tags': tags if rnd.random() < .5 else list(tags), 'tag_sources': {tg: {'rule': 'R', 'pattern': 'p'} for tg in tags}}
        out.append(t)
    if rnd.random() < .06:
        # income and spending cancel to the cent: a cash flow of exactly 0 is a figure like any other (every format reports 0, not a fallback)
        keep = [t for t in out if not ({x.lower() for x in t['tags']} & {'income', 'transfer', 'investment'}) and t['amount'] > 0][:3]
        spend = round(sum(t['amount'] for t in keep), 2)
        if keep and spend > 0 and round(sum(round(t['amount'], 2) for t in keep), 2) == spend and all(round(t['amount'], 2) == t['amount'] for t in keep):
            out = keep + [dict(keep[0], amount=-spend, tags=['income'], merchant='Employer Zero', description='Employer Zero', raw_description='PAYROLL ZERO', match_info=None,
                               extra_fields=None)]
            out[-1].pop('match_info'); out[-1].pop('extra_fields')
    return out, hostile


# rule texts as they reach the report's "explain" tooltip: every documented call shape, and legacy regex patterns
PATTERNS = ['contains("X")', 'regex("A|B")', 'UBER\\s(?!EATS)', 'contains(field.memo, "REF")', 'contains( "X" )', 'contains("MCDONALD\'S")',
            'startswith(field.code, "AB")', 'contains(big_word) and amount > 5', 'startswith( \'x\' )', 'anyof("A", "B", "C", "D")', 'anyof()',
            'contains("")', 'startswith("")', 'normalized("WHOLE FOODS")', 'fuzzy("STARBUCKS", 0.8)', '^(A|B', '(?i)x.*y', '[', 'A|B|C|D|E',
            'not contains("X") and STARTSWITH("Y")', 'len([r for r in orders if contains(r.item, "X")]) > 0', 'CONTAINS(description, \'a"b\')']

def gen_txns_split_category(rnd):
    """Merchants fed by two rules with different categories: the purchase in one category, a larger refund in another, so that no merchant nets
    positive while a category does."""
    out = []
    for k, m in enumerate(rnd.sample(MERCH, rnd.randint(1, 3))):
        buy = rnd.choice([20.0, 99.99, 5.0])
        for cat, sub, amt in ((('Shopping', 'Online'), 'x', buy), (('Refunds', 'Returns'), 'y', -buy - rnd.choice([0.0, 0.0, 10.0]))):
            out.append({'amount': amt, 'tags': [], 'merchant': m, 'category': cat[0], 'subcategory': cat[1],
                        'date': datetime(2025, rnd.randint(1, 12), rnd.randint(1, 28)), 'description': m, 'raw_description': 'SPLIT %s %d' % (sub, k),
                        'source': 'Amex', 'location': None})
    rnd.shuffle(out)
    return out, 0


VIEWS = '''[All]
description: everything </script> "quoted"
filter: true

[Food & Dining]
filter: category == "Food"

[Big]
filter: total > 1000

[Nothing]
filter: total > 1e15
'''


def tx_key(merchant, desc, amount, month, tags, source, extra):
    return json.dumps([merchant, desc, round(float(amount), 6), month, sorted(tags), source, extra], sort_keys=True, default=str)


class ScriptGrabber(HTMLParser):
    def __init__(self):
        super().__init__(convert_charrefs=True)
        self.in_script = False
        self.scripts = []
        self.buf = []

    def handle_starttag(self, tag, attrs):
        if tag == 'script':
            self.in_script = True
            self.buf = []

    def handle_endtag(self, tag):
        if tag == 'script' and self.in_script:
            self.scripts.append(''.join(self.buf))
            self.in_script = False

    def handle_data(self, data):
        if self.in_script:
            self.buf.append(data)


class _Scripts(HTMLParser):
    def __init__(self):
        super().__init__()
        self.srcs = []

    def handle_starttag(self, tag, attrs):
        if tag == 'script':
            self.srcs += [v for k, v in attrs if k == 'src' and v]


def extract_data(html):
    g = ScriptGrabber()
    g.feed(html)
    g.close()
    cands = [s for s in g.scripts if s.lstrip().startswith('window.spendingData =')]
    if len(cands) != 1:
        return None, 'found %d script elements starting with window.spendingData' % len(cands)
    body = cands[0].strip()[len('window.spendingData ='):].strip()
    if body.endswith(';'):
        body = body[:-1]
    try:
        return json.loads(body), None
    except ValueError as e:
        return None, 'JSON decode failed: %s (script text ends %r)' % (e, body[-60:])


def num(s):
    m = re.search(r'-?[\d,]+(?:\.\d+)?', s)
    return float(m.group(0).replace(',', '')) if m else None


def figures_from_markdown(md, cur):
    f = {}
    for label, key in (('Income', 'income'), ('Spending', 'spending'), ('Credits/Refunds', 'credits'), ('**Net Cash Flow**', 'cash_flow'),
                       ('In', 'transfers_in'), ('Out', 'transfers_out'), ('**Net Transfers**', 'transfers_net')):
        m = re.search(r'^\| %s \| (.*?) \|$' % re.escape(label), md, re.M)
        if m:
            cell = m.group(1).replace('**', '')
            neg = cell.strip().startswith('-')
            body = cell.strip().lstrip('+-')
            v = num(strip_currency(body, cur))
            f[key] = -v if (neg and v is not None) else v
    return f


def strip_currency(s, cur):
    pre, post = cur.split('{amount}')
    s = s.strip()
    if pre and s.startswith(pre):
        s = s[len(pre):]
    if post and s.endswith(post):
        s = s[:-len(post)]
    return s


def figures_from_text(txt, cur, sections):
    f = {}
    lab = ({'Income:': 'income', 'Spending:': 'spending', 'Credits:': 'credits', 'Cash Flow:': 'cash_flow'} if sections else
           {'Income:': 'income', 'Spending:': 'spending', 'Credits/Refunds:': 'credits', 'Net Cash Flow:': 'cash_flow', 'In:': 'transfers_in',
            'Out:': 'transfers_out', 'Net Transfers:': 'transfers_net'})
    for line in txt.splitlines():
        s = line.strip()
        for k, key in lab.items():
            if s.startswith(k) and key not in f:
                rest = s[len(k):].strip()
                neg = rest.startswith('-')
                v = num(strip_currency(rest.lstrip('+-').strip(), cur))
                if v is not None:
                    f[key] = -v if neg else v
    return f


def judge(rec, txns, hostile, rnd, tmp, with_views):
    from tally import analyzer as A
    from tally.section_engine import parse_sections
    import copy
    stats = A.analyze_transactions(copy.deepcopy(txns))
    case = {'kind': 'txns', 'txns': [dict(t, date=t['date'].isoformat()) for t in txns], 'views': with_views}
    rec.case()
    if with_views:
        cfg = parse_sections(VIEWS)
        res = A.classify_by_sections(stats['by_merchant'], cfg, stats['num_months'])
        stats['sections'] = {n: A.compute_section_totals(m) for n, m in res.items()}
        stats['_sections_config'] = cfg
    want = {'income': stats['income_total'], 'spending': stats['spending_total'], 'credits': stats['credits_total'], 'cash_flow': stats['cash_flow'],
            'transfers_in': stats['transfers_in'], 'transfers_out': stats['transfers_out'], 'transfers_net': stats['transfers_net']}
    cur = rnd.choice(CURRENCIES)
    # ---------------- JSON
    for v in (0, 1, 2):
        try:
            js = json.loads(A.export_json(stats, verbose=v))
            rec.count('json_renderings')
        except Exception as e:
            rec.violation('export_json-raises:' + type(e).__name__, f'verbose={v}: {type(e).__name__}: {e}', case)
            js = None
            break
    if js:
        names = Counter(m['name'] for m in js['merchants'])
        if names != Counter(stats['by_merchant'].keys()):
            rec.violation('json-merchants-not-exactly-once', f'{dict(names)} vs {list(stats["by_merchant"])}', case)
        for m in js['merchants']:
            d = stats['by_merchant'][m['name']]
            if not math.isclose(m['total'], round(d['total'], 2), abs_tol=0.005) or m['count'] != d['count'] or m['category'] != d['category']:
                rec.violation('json-merchant-figures-differ', f'{m["name"]}: {m["total"]}/{m["count"]} vs {d["total"]}/{d["count"]}', case)
                break
        sm = js['summary']
        rec.count('figure_comparisons')
        pairs = [('income_total', want['income']), ('credits_total', want['credits']), ('transfers_total', abs(want['transfers_net']))]
        if want['income'] > 0:
            pairs.append(('net_cash_flow', want['cash_flow']))
        diffs = [(k, sm.get(k), round(w, 2)) for k, w in pairs if sm.get(k) is None or not math.isclose(sm[k], round(w, 2), abs_tol=0.011)]
        if diffs:
            rec.violation('json-summary-figures-differ', f'export_json summary figures differ from the analysed flow totals the other formats print: {diffs}', case)
    # ---------------- Markdown
    for v in (0, 1, 2):
        try:
            md = A.export_markdown(stats, verbose=v, currency_format=cur)
            rec.count('markdown_renderings')
        except Exception as e:
            rec.violation('export_markdown-raises:' + type(e).__name__, f'verbose={v}: {type(e).__name__}: {e}', case)
            md = None
            break
    if md:
        f = figures_from_markdown(md, cur)
        rec.count('figure_comparisons')
        for k, w in want.items():
            exp = abs(w) if k in ('transfers_out',) else w
            exp = -w if k == 'spending' else exp
            if k not in f or f[k] is None or not math.isclose(f[k], round(exp, 2), abs_tol=0.0051):
                rec.violation('markdown-figure-differs:' + k, f'{k}: markdown {f.get(k)!r} vs analysed {exp!r} (currency {cur!r})', case)
                break
    # ---------------- text
    for sections in ([False, True] if with_views else [False]):
        buf = io.StringIO()
        try:
            with contextlib.redirect_stdout(buf):
                if sections:
                    # --only <views> restricts which views are LISTED; the cash-flow block keeps reporting the analysed figures
                    only = None
                    if rnd.random() < .5:
                        names = [n.lower() for n in stats['sections']]
                        only = rnd.sample(names, rnd.randint(1, len(names))) if names else None
                        rec.count('sections_renderings_with_only')
                    A.print_sections_summary(stats, year=2025, currency_format=cur, only_filter=only)
                    rec.count('sections_renderings')
                else:
                    A.print_summary(stats, year=2025, currency_format=cur, group_by=rnd.choice(['merchant', 'subcategory']))
            rec.count('text_renderings')
        except Exception as e:
            rec.violation(('print_sections_summary' if sections else 'print_summary') + '-raises:' + type(e).__name__, f'{type(e).__name__}: {e}', case)
            continue
        f = figures_from_text(buf.getvalue(), cur, sections)
        rec.count('figure_comparisons')
        for k, w in want.items():
            if sections and k.startswith('transfers'):
                continue
            if sections and k == 'credits' and w <= 0:
                continue
            exp = -w if k == 'spending' else w
            got = f.get(k)
            if got is None or abs(abs(got) - abs(round(exp))) > 0.51 + 1e-9 or (round(exp) != 0 and (got < 0) != (exp < 0) and k in ('cash_flow', 'transfers_net', 'spending')):
                rec.violation('text-figure-differs:' + k + (':sections' if sections else ''), f'{k}: text {got!r} vs analysed {exp!r} (currency {cur!r})', case)
                break
    # ---------------- HTML
    for embedded in rnd.sample([True, False], 2):        # either order: a report with external assets may be the first one a process writes
        out = os.path.join(tmp, 'r%d' % embedded)
        shutil.rmtree(out, ignore_errors=True)
        os.makedirs(out)
        path = os.path.join(out, 'report.html')
        stale = (not embedded) and rnd.random() < .4
        if stale:
            # the folder already holds the files of a report written by an EARLIER tally (another script, another style sheet)
            for nm in ('spending_report.js', 'spending_report.css', 'spending_data.js', 'report.html'):
                with open(os.path.join(out, nm), 'w') as fh:
                    fh.write('/* written by an older version */\n')
        try:
            A.write_summary_file_vue(stats, path, year=2025, currency_format=cur, sources=sorted({t['source'] for t in txns}), embedded_html=embedded)
            rec.count('html_renderings')
            if stale:
                rec.count('reports_written_over_an_older_versions_files')
                import tally as _t
                for nm in ('spending_report.js', 'spending_report.css'):
                    src_ = os.path.join(os.path.dirname(_t.__file__), nm)
                    if os.path.exists(src_) and open(os.path.join(out, nm), encoding='utf-8').read() != open(src_, encoding='utf-8').read():
                        rec.violation('report-folder-keeps-an-older-versions-script', f'{nm} in the report folder is not the installed one after the report was written again '
                                      f'(the page would classify with the OLD code)', case)
        except Exception as e:
            rec.violation('write_summary_file_vue-raises:' + type(e).__name__, f'embedded={embedded}: {type(e).__name__}: {e}', case)
            continue
        html = open(path, encoding='utf-8').read()
        if embedded:
            data, err = extract_data(html)
            if err:
                marks = [h for h in ('</script', '<!--', 'JS_PLACEHOLDER', 'DATA_PLACEHOLDER', 'CSS_PLACEHOLDER') if any(h.lower() in json.dumps(t, default=str).lower() for t in txns)]
                key = 'html-data-does-not-decode'
                if 'JS_PLACEHOLDER' in marks or 'DATA_PLACEHOLDER' in marks or 'CSS_PLACEHOLDER' in marks:
                    key += ':placeholder-text-in-data'
                elif '</script' in marks:
                    key += ':script-end-tag-in-data'
                rec.violation(key, f'{err}; hostile markers in the data: {marks}', case)
                continue
            for ph in ('/* JS_PLACEHOLDER */', '/* CSS_PLACEHOLDER */'):
                pass
        else:
            try:
                body = open(os.path.join(out, 'spending_data.js'), encoding='utf-8').read().strip()
                data = json.loads(body[len('window.spendingData ='):].rstrip(';'))
            except Exception as e:
                rec.violation('separate-data-file-does-not-decode', f'{type(e).__name__}: {e}', case)
                continue
            # ... and the page itself loads the three files written beside it (a page that references no data shows an empty report)
            try:
                page = open(path, encoding='utf-8').read()
                g2 = _Scripts()
                g2.feed(page)
                srcs = set(g2.srcs)
            except Exception:
                srcs = None
            rec.count('external_pages_checked_for_their_references')
            if srcs is not None and not {'spending_data.js', 'spending_report.js'} <= {os.path.basename(x) for x in srcs}:
                rec.violation('page-does-not-load-its-data-file', f'report written with its files beside it: the page references the scripts {sorted(srcs)}; '
                              f'spending_data.js and spending_report.js are both needed', case)
                continue
        check_html_data(rec, data, stats, txns, want, case, with_views)
        # ---- the report is written AGAIN to the same path after the data changed (two amounts swapped: the text keeps its length):
        #      what is on disk afterwards is the new analysis, not the old file
        if not with_views and rnd.random() < .35:
            pairs = [(i, j) for i in range(len(txns)) for j in range(i + 1, len(txns))
                     if txns[i]['amount'] != txns[j]['amount'] and len(repr(txns[i]['amount'])) == len(repr(txns[j]['amount']))
                     and (txns[i]['amount'] < 0) == (txns[j]['amount'] < 0)]
            if pairs:
                i, j = rnd.choice(pairs)
                t2 = copy.deepcopy(txns)
                t2[i]['amount'], t2[j]['amount'] = txns[j]['amount'], txns[i]['amount']
                st2 = A.analyze_transactions(copy.deepcopy(t2))
                want2 = {'income': st2['income_total'], 'spending': st2['spending_total'], 'credits': st2['credits_total'], 'cash_flow': st2['cash_flow'],
                         'transfers_in': st2['transfers_in'], 'transfers_out': st2['transfers_out'], 'transfers_net': st2['transfers_net']}
                try:
                    A.write_summary_file_vue(st2, path, year=2025, currency_format=cur, sources=sorted({t['source'] for t in txns}), embedded_html=embedded)
                    if embedded:
                        d2, err = extract_data(open(path, encoding='utf-8').read())
                    else:
                        # (the figures live in a file of their own next to the page: it is written anew as well)
                        rec.count('external_data_rewrites_to_same_folder')
                        try:
                            body2 = open(os.path.join(out, 'spending_data.js'), encoding='utf-8').read().strip()
                            d2, err = json.loads(body2[len('window.spendingData ='):].rstrip(';')), None
                        except Exception as e2:
                            d2, err = None, f'{type(e2).__name__}: {e2}'
                    rec.count('html_rewrites_to_same_path')
                    if err:
                        rec.violation('html-data-does-not-decode:rewrite', err, case)
                    else:
                        c2 = dict(case, rewrite_swaps=[i, j])
                        check_html_data(rec, d2, st2, t2, want2, c2, False, key_suffix=':after-rewrite-to-same-path')
                except Exception as e:
                    rec.violation('write_summary_file_vue-raises:' + type(e).__name__, f'rewrite: {type(e).__name__}: {e}', case)
    if hostile and len(stats['by_merchant']) >= 2:
        rec.interesting(core.digest(case['txns']))


def check_html_data(rec, data, stats, txns, want, case, with_views, key_suffix=''):
    from tally.classification import normalize_amount
    rec.count('figure_comparisons')
    for k, hk in (('income', 'incomeTotal'), ('spending', 'spendingTotal'), ('credits', 'creditsTotal'), ('cash_flow', 'cashFlow'),
                  ('transfers_in', 'transfersIn'), ('transfers_out', 'transfersOut'), ('transfers_net', 'transfersNet')):
        if not math.isclose(data.get(hk, float('nan')), want[k], rel_tol=1e-12, abs_tol=1e-9):
            rec.violation('html-figure-differs:' + k + key_suffix, f'{hk}={data.get(hk)!r} vs analysed {want[k]!r}', case)
            return
    seen_m, seen_t = Counter(), Counter()
    cat_sum = 0.0
    for cname, cat in data['categoryView'].items():
        cat_sum += cat['total']
        for sname, sub in cat['subcategories'].items():
            for mid, m in sub['merchants'].items():
                seen_m[m['displayName']] += 1
                for t in m['transactions']:
                    seen_t[tx_key(m['displayName'], t['description'], t['amount'], t['month'], t['tags'], t['source'], t.get('extra_fields'))] += 1
    # each merchant record carries the tags of its transactions - all of them (the page classifies and filters by this list)
    for cat in data['categoryView'].values():
        for sub in cat['subcategories'].values():
            for m in sub['merchants'].values():
                rec.count('html_merchant_tag_checks')
                want_tags = sorted(stats['by_merchant'].get(m['displayName'], {}).get('tags', set()))
                if sorted(m.get('tags', [])) != want_tags:
                    rec.violation('html-merchant-tags-differ' + key_suffix, f'merchant {m["displayName"]!r}: tags in the report {sorted(m.get("tags", []))} vs analysed {want_tags}', case)
                    return
    exp_m = Counter(stats['by_merchant'].keys())
    if seen_m != exp_m:
        missing = sorted(set(exp_m) - set(seen_m))
        rec.violation('html-merchants-not-exactly-once' + (':id-collision' if missing else ''),
                      f'merchants in categoryView {dict(seen_m)} vs analysed {sorted(exp_m)}; missing {missing}', case)
        return
    exp_t = Counter()
    for t in txns:
        exp_t[tx_key(t['merchant'], t.get('raw_description', t['description']), normalize_amount(t['amount'], t.get('tags', [])), t['date'].strftime('%Y-%m'),
                     t.get('tags', []), t['source'], t.get('extra_fields') or None)] += 1
    rec.count('html_transactions_compared', sum(exp_t.values()))
    if seen_t != exp_t:
        d1, d2 = list((exp_t - seen_t).elements())[:2], list((seen_t - exp_t).elements())[:2]
        rec.violation('html-transactions-not-exactly-once' + key_suffix, f'missing from the report: {d1}; unexpected in the report: {d2}', case)
        return
    tot = sum(d['total'] for d in stats['by_merchant'].values())
    if not math.isclose(cat_sum, tot, rel_tol=1e-9, abs_tol=1e-6):
        rec.violation('html-category-sums-differ', f'sum of categoryView totals {cat_sum!r} vs analysed {tot!r}', case)
    # per-category breakdown by kind (typeTotals) adds up to the analysed spending / income / investment / transfer totals
    tt = Counter()
    for cat in data['categoryView'].values():
        for k, v in (cat.get('typeTotals') or {}).items():
            tt[k] += v
    rec.count('html_type_total_checks')
    for k, wantv in (('spending', stats['spending_total']), ('income', stats['income_total']), ('investment', stats['investment_total']),
                     ('transfer', stats['transfers_in'] + stats['transfers_out'])):
        if not math.isclose(tt.get(k, 0.0), wantv, rel_tol=1e-9, abs_tol=1e-6):
            rec.violation('html-category-type-sums-differ:' + k, f'per-category {k} sums add up to {tt.get(k, 0.0)!r}, analysed {wantv!r}', case)
            break
    if with_views:
        for sid, sec in data.get('sections', {}).items():
            name = sec['title']
            exp = {m for m, _ in stats['sections'][name]['merchants']}
            got = {m['displayName'] for m in sec['merchants'].values()}
            if exp != got:
                rec.violation('html-view-members-differ', f'view {name!r}: report {sorted(got)} vs analysed {sorted(exp)}', case)
                break


def cli_formats(rec, rnd, tmp, k):
    """The four formats as `tally up` delivers them (--quiet: stdout IS the document), on a budget one of whose statement files is missing: each
    renders, and JSON, Markdown and the HTML data state the same spending total."""
    from vt import budget as B
    root = os.path.join(tmp, 'cli%d' % k)
    shutil.rmtree(root, ignore_errors=True)
    os.makedirs(os.path.join(root, 'config'))
    os.makedirs(os.path.join(root, 'data'))
    missing = rnd.choice(['first', 'last', 'none'])
    srcs = [('Card', 'data/card.csv'), ('Bank', 'data/bank.csv')]
    with open(os.path.join(root, 'config', 'settings.yaml'), 'w') as f:
        f.write('year: 2025\nmerchants_file: config/merchants.rules\ndata_sources:\n' + ''.join(
            '  - name: %s\n    file: %s\n    format: "{date:%%Y-%%m-%%d},{description},{amount}"\n' % s_ for s_ in (srcs if missing != 'first' else srcs[::-1])))
    with open(os.path.join(root, 'config', 'merchants.rules'), 'w') as f:
        f.write('[Netflix]\nmatch: contains("NETFLIX")\ncategory: Subs\nsubcategory: Video\n\n[Cafe]\nmatch: contains("CAFE")\ncategory: Food\nsubcategory: Coffee\n')
    amounts = [round(rnd.choice([4.5, 15.99, 120.0, 33.33]), 2) for _ in range(4)]
    with open(os.path.join(root, 'data', 'card.csv'), 'w') as f:
        f.write('Date,Description,Amount\n' + ''.join('2025-0%d-11,%s,%.2f\n' % (i + 1, d, a) for i, (d, a) in enumerate(zip(['NETFLIX.COM', 'CORNER CAFE', 'NETFLIX.COM', 'ODD SHOP'], amounts))))
    if missing == 'none':
        with open(os.path.join(root, 'data', 'bank.csv'), 'w') as f:
            f.write('Date,Description,Amount\n2025-02-02,CORNER CAFE,6.00\n')
    want = round(sum(amounts) + (6.0 if missing == 'none' else 0.0), 2)
    cfg = os.path.join(root, 'config')
    case = {'kind': 'cli-formats', 'missing': missing}
    rec.case()
    rec.count('cli_format_sets')
    pj = B.tally(root, 'up', cfg, '--format', 'json', '-q')
    pm = B.tally(root, 'up', cfg, '--format', 'markdown', '-q')
    ph = B.tally(root, 'up', cfg, '-q')
    ps = B.tally(root, 'up', cfg, '--format', 'summary', '-q')
    # the HTML report asked for under a bare file name (written where the command is run), into another existing folder, and by a process whose
    # locale is not UTF-8 (the other three formats are run there too)
    po = B.tally(root, 'up', cfg, '-q', '-o', ['report.html', 'my report.html'][k % 2])
    os.makedirs(os.path.join(root, 'reports 2025'))
    pn = B.tally(root, 'up', cfg, '-q', '-o', os.path.join('reports 2025', 'r.html'))
    lenv = {'LC_ALL': 'C', 'LANG': 'C', 'PYTHONUTF8': '0', 'PYTHONCOERCECLOCALE': '0', 'PYTHONIOENCODING': 'utf-8'}
    pl = B.tally(root, 'up', cfg, '-q', '-o', 'c-locale.html', env_extra=lenv)
    pl2 = B.tally(root, 'up', cfg, '-q', '--format', rnd.choice(['json', 'markdown', 'summary']), env_extra=lenv)
    # a narrow and a very wide terminal (COLUMNS): the text summary and the default run that prints it before writing the HTML report
    pw1 = B.tally(root, 'up', cfg, '--format', 'summary', env_extra={'COLUMNS': ['44', '20', '1', '500'][k % 4], 'LINES': '10'})
    pw2 = B.tally(root, 'up', cfg, env_extra={'COLUMNS': ['30', '51', '8'][k % 3], 'LINES': '5'})
    rec.count('cli_runs', 10)
    try:
        for nm, p in (('json', pj), ('markdown', pm), ('html', ph), ('summary', ps), ('html -o <bare file name>', po), ('html -o <folder>/r.html', pn),
                      ('html under LC_ALL=C', pl), ('text formats under LC_ALL=C', pl2), ('summary in a narrow / wide terminal', pw1), ('default run in a narrow terminal', pw2)):
            if p.returncode != 0:
                rec.violation('cli-format-fails:' + nm, f'missing source: {missing}; `up --format {nm} -q` exits {p.returncode}: {(p.stderr or p.stdout)[-200:]!r}', case)
                return
        try:
            js = json.loads(pj.stdout)
        except ValueError as e:
            rec.violation('cli-json-stdout-is-not-json', f'missing source: {missing}; stdout starts {pj.stdout[:100]!r} ({e})', case)
            return
        if not pm.stdout.lstrip().startswith('#'):
            rec.violation('cli-markdown-stdout-does-not-start-with-its-heading', f'missing source: {missing}; stdout starts {pm.stdout[:100]!r}', case)
            return
        data = B.html_data(os.path.join(root, 'output', 'spending_summary.html'))
        figs = {'json': js['summary']['total_spending'], 'html': data['spendingTotal']}
        for extra in ('c-locale.html', os.path.join('reports 2025', 'r.html')):
            try:
                figs['html ' + extra] = B.html_data(os.path.join(root, extra))['spendingTotal']
            except Exception as e:
                rec.violation('cli-format-fails:html-file-missing-or-unreadable', f'`up -o {extra}` exits 0 but the report cannot be read: {type(e).__name__}: {e}', case)
                return
        if any(abs(v - want) > 0.011 for v in figs.values()):
            rec.violation('cli-formats-disagree', f'missing source: {missing}; spending total: {figs}, the statements that can be read give {want}', case)
    finally:
        shutil.rmtree(root, ignore_errors=True)


def run(rec, shard, nshards, t):
    core.import_tally()
    rnd = core.rng_for('C12', shard)
    tmp = tempfile.mkdtemp(prefix='vt-c12-')
    try:
        for i in range((1200 if t == 'quick' else 60000) // nshards):
            txns, hostile = gen_txns(rnd) if rnd.random() > .04 else gen_txns_split_category(rnd)
            judge(rec, txns, hostile, rnd, tmp, with_views=rnd.random() < .5)
            if i < 1 and shard == 0:
                rec.sample([dict(x, date=x['date'].isoformat()) for x in txns[:3]])
        for k in range(max(1, (6 if t == 'quick' else 60) // nshards)):
            cli_formats(rec, rnd, tmp, k)
    finally:
        shutil.rmtree(tmp, ignore_errors=True)


def replay(rec, case):
    core.import_tally()
    rnd = core.rng_for('C12', 'replay')
    tmp = tempfile.mkdtemp(prefix='vt-c12-')
    try:
        if case.get('kind') == 'cli-formats':
            for k in range(6):
                cli_formats(rec, rnd, tmp, k)
            return
        if case.get('kind') == 'json-summary-witness':
            txns = [{'amount': a, 'tags': tg, 'merchant': 'Venmo', 'category': 'Finance', 'subcategory': 'P2P', 'date': datetime(2025, 1, 5 + i),
                     'description': 'Venmo', 'raw_description': 'VENMO %d' % i, 'source': 'Amex', 'location': None}
                    for i, (a, tg) in enumerate([(100.0, ['income']), (-40.0, []), (25.0, [])])]
            judge(rec, txns, 0, rnd, tmp, False)
            return
        txns = [dict(t, date=datetime.fromisoformat(t['date'])) for t in case['txns']]
        for cur in range(4):
            judge(rec, txns, 1, rnd, tmp, case.get('views', False))
    finally:
        shutil.rmtree(tmp, ignore_errors=True)

"""C18 - a format string maps columns by position, and inspect's suggestion round-trips.

Part 1: positional reference model vs parse_format_string over ALL column arrangements up to a width bound
        (token spellings sampled per arrangement), random wider ones; invalid arrangements must raise ValueError.
Part 2: `tally inspect` (real CLI in a fresh subprocess, and cmd_inspect in-process for volume) on generated CSV
        header rows; the printed `format:` line is fed back to the parser and compared with the reported columns.
"""
import argparse
import contextlib
import io
import itertools
import os
import re
import shutil
import subprocess
import tempfile

from vt import core

SPEC = {
    'level': 'exploration',
    'shards': {'quick': 4, 'thorough': 16},
    'rule': ('Part 1: every sequence over {date, description, amount, location, custom a, custom b, skip} of width 1..W '
             '(W=4 quick, 6 thorough; complete), each rendered with sampled spellings ({_}/{*}, letter case, blanks, date formats, '
             '+/- prefix) and paired with valid / missing / dangling description templates; random arrangements up to width 12. '
             'Part 2: CSV files whose header cells are drawn from inspect\'s detection vocabulary, near-misses, multi-role cells, '
             'duplicates and mixed case. Non-trivial = arrangement with a skip or custom column before a required column, or a '
             'header row with >=1 distractor/multi-role cell; distinct by rendered string / header row'),
    'exhaustive': {'quick': True, 'thorough': True},
    'required_counters': ['arrangements_valid', 'arrangements_invalid', 'inspect_runs', 'inspect_suggestions_roundtripped'],
    'assumptions': ['blanks are generated only around tokens, never inside braces',
                    'a date format containing a comma is not expressible and is a recorded finding (C18/comma-in-date-format)'],
}

KINDS = ['date', 'description', 'amount', 'location', 'ca', 'cb', 'skip']
DATE_FORMATS = [None, '%d  %b  %y', '%d\t%b %y', '%d %b  %y', '%b %d,  %Y', '%b %d, %Y', '%A, %d %B %Y', '%A, %B %d, %Y', '%a, %d %b, %Y, %H:%M', '%d,%m,%Y', '%m/%d/%Y', '%Y-%m-%d', '%d.%m.%Y', '%d %b %y', '%m/%d/%y', '%Y%m%d', '%d-%b-%Y %H:%M',
                # time zones (bank API exports): numeric offset and zone name
                '%Y-%m-%dT%H:%M:%S%z', '%d %b %Y %H:%M %Z', '%Y-%m-%d %H:%M:%S.%f%z']
CUSTOM_NAMES = [('type', 'merchant'), ('Cardholder', 'memo'), ('txn_type', 'Payee2'), ('a', 'b'), ('_memo', '_type'), ('_id', 'ref_'), ('__', 'x_'), ('Stra\u00dfe', 'Gr\u00f6\u00dfe'), ('\u017fee', 'o\ufb01'),
                # column names that start with a digit (pay-slip and tax exports: 401k, 1099_box, 2nd_ref)
                ('401k', '2nd_ref'), ('1099_box', 'ref2'), ('7', 'x9')]


def model(seq, template, names):
    """Return ('ok', expected dict) or ('reject', reason) for an arrangement (list of kinds)."""
    cnt = {k: seq.count(k) for k in KINDS}
    for k in ('date', 'description', 'amount', 'location'):
        if cnt[k] > 1:
            return 'reject', 'duplicate ' + k
    if cnt['ca'] > 1 or cnt['cb'] > 1 or (cnt['ca'] and cnt['cb'] and names[0].lower() == names[1].lower()):
        return 'reject', 'duplicate custom capture'
    has_desc = cnt['description'] == 1
    customs = {}
    for i, k in enumerate(seq):
        if k == 'ca':
            customs[names[0].lower()] = i
        elif k == 'cb':
            customs[names[1].lower()] = i
    if not has_desc and not customs:
        return 'reject', 'no description and no custom capture'
    if not has_desc and not template:
        return 'reject', 'custom captures without a template'
    if template:
        refs = re.findall(r'\{(\w+)\}', template)
        avail = {} if has_desc else customs
        for r in refs:
            if r not in avail:
                return 'reject', 'template names an uncaptured column'
    if cnt['date'] != 1 or cnt['amount'] != 1:
        return 'reject', 'missing required field'
    exp = {
        'date_column': seq.index('date'), 'amount_column': seq.index('amount'),
        'description_column': seq.index('description') if has_desc else None,
        'location_column': seq.index('location') if cnt['location'] else None,
        'custom_captures': None if has_desc else (customs or None),
        'extra_fields': (customs or None) if has_desc else None,
    }
    return 'ok', exp


def render(seq, rnd, names):
    toks, meta = [], {'date_format': '%m/%d/%Y', 'negate': False, 'abs': False}
    for k in seq:
        if k == 'skip':
            t = rnd.choice(['{_}', '{*}', '{_}'])
        elif k == 'date':
            f = rnd.choice(DATE_FORMATS)
            nm = rnd.choice(['date', 'Date', 'DATE'])
            t = '{%s}' % nm if f is None else '{%s:%s}' % (nm, f)
            if f:
                meta['date_format'] = f
        elif k == 'amount':
            pre = rnd.choice(['', '', '-', '+'])
            meta['negate'], meta['abs'] = pre == '-', pre == '+'
            t = '{%s%s}' % (pre, rnd.choice(['amount', 'Amount', 'AMOUNT']))
            if rnd.random() < .06:
                t = t[:-1] + rnd.choice([':.2f', ':EUR', ':>10']) + '}'      # (text after a colon in another token than the date is not a date format)
        elif k == 'description':
            t = '{%s}' % rnd.choice(['description', 'Description', 'DESCRIPTION'])
            if rnd.random() < .06:
                t = t[:-1] + rnd.choice([':40', ':s', ':<30']) + '}'
        elif k == 'location':
            t = '{%s}' % rnd.choice(['location', 'Location'])
        else:
            nm = names[0] if k == 'ca' else names[1]
            # (upper-casing is only used where it is reversible: 'ß'.upper() is 'SS', another name)
            t = '{%s}' % rnd.choice([nm, nm.lower()] + ([nm.upper()] if nm.upper().lower() == nm.lower() else []))
        pad_l, pad_r = rnd.choice(['', '', ' ', '  ']), rnd.choice(['', '', ' ', '\t'])
        toks.append(pad_l + t + pad_r)
    return ','.join(toks), meta


def check_arrangement(rec, seq, rnd, tvariant):
    from tally.format_parser import parse_format_string
    names = rnd.choice(CUSTOM_NAMES)
    text, meta = render(seq, rnd, names)
    customs = [names[0].lower() for k in seq if k == 'ca'][:1] + [names[1].lower() for k in seq if k == 'cb'][:1]
    if tvariant == 'none' or not customs:
        template = None if tvariant != 'dangling' else '{nosuchcol} x'
    elif tvariant == 'valid':
        sub = customs if rnd.random() < .6 else customs[:1]
        template = ' - '.join('{%s}' % c for c in sub)
        if rnd.random() < .15:
            template = '{{%s}} {{{%s}}}' % ('literal', sub[0])      # escaped braces around text and around a captured reference
    elif rnd.random() < .3 and customs[0].title() != customs[0]:
        template = '{%s}' % rnd.choice([customs[0].title(), customs[0].upper()])      # not the captured name: names in a template are taken literally
    elif rnd.random() < .3:
        # a reference to an uncaptured column written next to escaped (doubled) braces is still a reference
        template = rnd.choice(['{{{nosuchcol}}}', '{%s} {{{nosuchcol}}}' % customs[0], '{nosuchcol}}}', '{{ {nosuchcol} }}'])
    elif rnd.random() < .4:
        # a reference to a column the format string MAPS but does not capture as text (amount, date, location): a template is filled from the
        # custom captures only, so this is a reference to an uncaptured column like any other
        template = '{%s} {%s}' % (customs[0], rnd.choice(['amount', 'date', 'location', 'field']))
    else:
        template = '{%s} {nosuchcol}' % customs[0]
    if 'description' in seq and template and tvariant == 'valid':
        template = None   # mode 1 + template is left unspecified by the statement: not generated
    verdict, exp = model(seq, template, names)
    case = {'kind': 'arr', 'seq': seq, 'text': text, 'template': template, 'names': list(names)}
    rec.case()
    try:
        spec = parse_format_string(text, template)
        got = ('ok', spec)
    except ValueError as e:
        got = ('reject', str(e))
    except Exception as e:
        rec.violation('parser-raises-' + type(e).__name__, f'{text!r} template={template!r}: {type(e).__name__}: {e}', case)
        return
    if verdict == 'reject':
        rec.count('arrangements_invalid')
        rec.count('reject:' + exp)
        if got[0] == 'ok':
            rec.violation('accepted-invalid:' + exp.replace(' ', '-'), f'{text!r} template={template!r} accepted although: {exp}', case)
        return
    rec.count('arrangements_valid')
    if got[0] == 'reject':
        rec.violation('rejected-valid', f'{text!r} template={template!r} rejected: {got[1]}', case)
        return
    s = got[1]
    obs = {'date_column': s.date_column, 'amount_column': s.amount_column, 'description_column': s.description_column,
           'location_column': s.location_column, 'custom_captures': s.custom_captures or None,
           'extra_fields': s.extra_fields or None}
    bad = [k for k in exp if exp[k] != obs[k]]
    if s.date_format != meta['date_format']:
        bad.append('date_format')
    if bool(s.negate_amount) != meta['negate'] or bool(s.abs_amount) != meta['abs']:
        bad.append('sign_mode')
    if bad:
        rec.violation('wrong-' + bad[0], f'{text!r}: {bad} differ: expected {exp} fmt={meta}, got {obs} fmt={s.date_format} '
                      f'neg={s.negate_amount} abs={s.abs_amount}', case)
    first_req = min(exp['date_column'], exp['amount_column'])
    if any(k in ('skip', 'ca', 'cb', 'location') for k in seq[:max(exp['date_column'], exp['amount_column'])]):
        rec.interesting(text + '|' + str(template))


# ------------------------------------------------------------------------------------------- inspect part
DATE_H = ['Date', 'Trans Date', 'Transaction Date', 'Posting Date', 'trans_date', 'DATE', 'Post Date', 'Effective date']
DESC_H = ['Description', 'Merchant', 'Payee', 'Memo', 'Name', 'Merchant Name', 'DESCRIPTION', 'Original Description']
AMT_H = ['Amount', 'Debit', 'Charge', 'Transaction Amount', 'Payment', 'AMOUNT', 'Amount (USD)']
LOC_H = ['Location', 'City', 'State', 'City/State', 'Region']
DISTRACT = ['Balance', 'Reference', 'Card No.', 'Category', 'Type', 'Check #', 'Status', '', 'Currency', 'Account']
MULTI = ['Payment Date', 'Debit Date', 'Merchant City', 'Payee Name', 'Date of Payment', 'Charge Description',
         'Amount Date', 'State Name', 'Memo Amount', 'Transaction Date Amount']


def gen_header(rnd):
    n = rnd.randint(3, 9) if rnd.random() < .9 else rnd.choice([17, 18, 20, 24, 30])
    cells = []
    pools = [DATE_H, DESC_H, AMT_H]
    rnd.shuffle(pools)
    want = [rnd.choice(p) for p in pools]
    if rnd.random() < .12:
        want.pop(rnd.randrange(3))     # a required role missing -> inspect must not suggest
    if rnd.random() < .4:
        want.append(rnd.choice(LOC_H))
    if rnd.random() < .35:
        want.append(rnd.choice(MULTI))
    if rnd.random() < .25:
        want.append(rnd.choice(DATE_H + DESC_H + AMT_H))   # duplicate role
    while len(want) < n:
        want.append(rnd.choice(DISTRACT))
    rnd.shuffle(want)
    out = []
    for h in want:
        m = rnd.randint(0, 5)
        out.append(h.upper() if m == 0 else h.lower() if m == 1 else (' ' + h + ' ') if m == 2 else h)
    return out


CELL_TEXTS = ["SHAKE 'N' BAKE DINER", 'THE "BIG" STORE', 'AMAZON; MKTP US', 'A|B|C', 'TAB\tSEP', 'COFFEE SHOP #12', "O'REILLY 'S' BOOKS", 'plain', 'x y z',
              "'QUOTED' START", 'semi;colon;rich;text', 'pipe | spaced | text', 'UBER *EATS', 'a:b:c:d']


def write_csv(path, header, rnd):
    """An ordinary comma-separated file; cell texts contain other would-be delimiters and quote characters (written unquoted where legal), so
    that anything that guesses the dialect from the content has something to be confused by."""
    import csv
    rows = []
    rich = rnd.random() < .5
    for i in range(0 if rnd.random() < .08 else rnd.randint(1, 4)):      # (now and then a file that holds its header line only: an export of an empty period)
        rows.append(['01/%02d/2025' % (i + 1) if 'date' in h.lower() else ('%d.%02d' % (10 + i, i)) if any(
            k in h.lower() for k in ('amount', 'debit', 'charge', 'payment', 'balance')) else
            (rnd.choice(CELL_TEXTS) if rich else 'VAL %d %s' % (i, h[:4])) for h in header])
    with open(path, 'w', newline='', encoding='utf-8') as f:
        w = csv.writer(f)
        w.writerow(header)
        for r in rows:
            if rich and not any(',' in c or '\n' in c for c in r):
                f.write(','.join(r) + '\r\n')        # unquoted, as banks write them
            else:
                w.writerow(r)


def parse_inspect(out):
    r = {}
    m = re.search(r'- Date column: (\d+) \(format: (.*)\)', out)
    if m:
        r['date'], r['fmt'] = int(m.group(1)), m.group(2)
    for k, lab in (('description', 'Description'), ('amount', 'Amount'), ('location', 'Location')):
        m = re.search(r'- %s column: (\d+|None)' % lab, out)
        if m:
            r[k] = None if m.group(1) == 'None' else int(m.group(1))
    m = re.search(r'^\s*format: "(.*)"\s*$', out, re.M)
    if m:
        r['suggest'] = m.group(1)
    r['could_not'] = 'Could not auto-detect' in out
    return r


def judge_inspect(rec, header, out, rc, via):
    from tally.format_parser import parse_format_string
    case = {'kind': 'inspect', 'header': header}
    rec.count('inspect_runs')
    rec.count('inspect_via_' + via)
    r = parse_inspect(out)
    if rc != 0:
        rec.violation('inspect-exit-nonzero', f'tally inspect exited {rc} on header {header}: {out[-200:]}', case)
        return
    if 'Successfully detected format!' not in out:
        rec.count('inspect_no_detection')
        if not r['could_not']:
            rec.count('inspect_other_output')
        return
    if 'suggest' not in r or 'date' not in r:
        rec.violation('inspect-no-suggestion', f'detection reported but no format line for header {header}', case)
        return
    rec.count('inspect_suggestions_roundtripped')
    try:
        spec = parse_format_string(r['suggest'])
    except ValueError as e:
        rec.violation('suggestion-rejected', f'inspect suggested {r["suggest"]!r} for header {header}; parser rejects it: {e}', case)
        return
    pairs = [('date', spec.date_column), ('description', spec.description_column), ('amount', spec.amount_column)]
    if 'location' in r:
        pairs.append(('location', spec.location_column))
    bad = [(k, r.get(k), v) for k, v in pairs if r.get(k) != v]
    if spec.date_format != r['fmt']:
        bad.append(('fmt', r['fmt'], spec.date_format))
    if bad:
        rec.violation('suggestion-selects-other-columns', f'header {header}: suggestion {r["suggest"]!r} -> {bad} (reported, parsed)', case)
    low = [h.lower() for h in header]
    if any(h in [m.lower() for m in MULTI] or h.strip() in [d.lower() for d in DISTRACT] for h in low):
        rec.interesting('hdr|' + '|'.join(header))


def run_inspect_inproc(path):
    from tally.commands.inspect import cmd_inspect
    buf = io.StringIO()
    rc = 0
    with contextlib.redirect_stdout(buf), contextlib.redirect_stderr(buf):
        try:
            cmd_inspect(argparse.Namespace(file=path, rows=2))
        except SystemExit as e:
            rc = e.code or 0
    return buf.getvalue(), rc


def run_inspect_cli(path, cwd, nrows='2'):
    env = dict(os.environ, PYTHONPATH=core.SRC, PYTHONDONTWRITEBYTECODE='1', NO_COLOR='1')
    p = subprocess.run([core.PY, '-m', 'tally', 'inspect', path, '-n', nrows], cwd=cwd, env=env, capture_output=True,
                       text=True, stdin=subprocess.DEVNULL, timeout=120)
    return p.stdout + p.stderr, p.returncode


def run(rec, shard, nshards, t):
    core.import_tally()
    rnd = core.rng_for('C18', shard)
    W = 4 if t == 'quick' else 6
    # Part 1 - complete enumeration, split across shards by index
    idx = 0
    for w in range(1, W + 1):
        for seq in itertools.product(KINDS, repeat=w):
            idx += 1
            if idx % nshards != shard:
                continue
            seq = list(seq)
            has_custom = 'ca' in seq or 'cb' in seq
            variants = ['valid', 'none', 'dangling'] if has_custom and 'description' not in seq else ['none'] + (['dangling'] if idx % 7 == 0 else [])
            for tv in variants:
                check_arrangement(rec, seq, rnd, tv)
    # random wider arrangements
    for _ in range((1500 if t == 'quick' else 40000) // nshards):
        w = rnd.randint(W + 1, 12)
        if rnd.random() < .12:
            w = rnd.choice([16, 17, 18, 19, 24, 33, 41, 64, 100])      # bank and payment-processor exports with dozens of columns
            rec.count('wide_arrangements')
        base = ['date', 'amount'] + rnd.choice([['description'], ['ca'], ['ca', 'cb'], ['description', 'ca'], ['description', 'location']])
        if rnd.random() < .15:
            base.append(rnd.choice(['date', 'amount', 'description', 'location', 'ca']))   # duplicate
        if rnd.random() < .1:
            base.remove(rnd.choice(['date', 'amount']))
        seq = (base + ['skip'] * max(0, w - len(base)))[:max(w, len(base))]
        rnd.shuffle(seq)
        check_arrangement(rec, seq, rnd, rnd.choice(['valid', 'valid', 'none', 'dangling']))
    for _ in range(40 if t == 'quick' else 2000):
        whitespace_twins(rec, rnd)
    for _ in range(3):
        template_sequence(rec, rnd)
    # Part 2 - inspect
    tmp = tempfile.mkdtemp(prefix='vt-c18-')
    try:
        n_in = (240 if t == 'quick' else 6000) // nshards
        n_cli = (24 if t == 'quick' else 400) // nshards
        for i in range(n_in + n_cli):
            header = gen_header(rnd)
            path = os.path.join(tmp, 'f%d.csv' % i)
            write_csv(path, header, rnd)
            rec.case()
            if i < n_cli:
                out, rc = run_inspect_cli(path, tmp, nrows=['2', '0', '1'][i % 3])      # (how many sample rows are SHOWN does not change what is detected)
                judge_inspect(rec, header, out, rc, 'cli')
            else:
                out, rc = run_inspect_inproc(path)
                judge_inspect(rec, header, out, rc, 'inproc')
            if i < 2 and shard == 0:
                rec.sample({'header': header, 'inspect': parse_inspect(out)})
            os.unlink(path)
        if shard == 0:
            canonical_header_witness(rec, tmp)
    finally:
        shutil.rmtree(tmp, ignore_errors=True)
    if shard == 0:
        rec.sample({'arrangement': ['skip', 'date', 'ca', 'amount'], 'rendered': render(['skip', 'date', 'ca', 'amount'], rnd, ('type', 'merchant'))[0]})
        probe_comma(rec)


def canonical_header_witness(rec, tmp):
    """The header every example uses (Date, Description, Amount) over cells of several shapes - a time after the date, a blank before the amount, long lines:
    inspect reports columns 0 / 1 / 2 and its suggestion selects them."""
    shapes = {'plain': ['01/15/2025,COFFEE SHOP,4.50', '01/16/2025,BOOK STORE,14.50', '01/17/2025,GROCER,44.50'],
              'time-after-date': ['01/15/2025 08:30:12,COFFEE SHOP, 4.50', '01/16/2025 09:30:12,BOOK STORE, 14.50', '01/17/2025 10:30:12,GROCER, 44.50', '01/18/2025 11:00:00,BAKERY, 3.25'],
              'time-and-long-lines': ['01/%02d/2025 08:30:12,%s, %d.50' % (i + 1, 'A RATHER LONG DESCRIPTION OF A PURCHASE NUMBER %02d AT A STORE WITH A LONG NAME' % i, 10 + i) for i in range(6)],
              'blank-before-amount': ['01/15/2025,COFFEE SHOP, 4.50', '01/16/2025,BOOK STORE, 14.50', '01/17/2025,GROCER, 44.50']}
    for name, lines in shapes.items():
        path = os.path.join(tmp, 'canon.csv')
        with open(path, 'w') as f:
            f.write('Date,Description,Amount\n' + '\n'.join(lines) + '\n')
        out, rc = run_inspect_cli(path, tmp)
        r = parse_inspect(out)
        rec.case()
        rec.count('canonical_header_files_inspected')
        if rc != 0 or (r.get('date'), r.get('description'), r.get('amount')) != (0, 1, 2):
            rec.violation('inspect-misreads-the-canonical-header', f'Date,Description,Amount over {name} cells: inspect (exit {rc}) reports date/description/amount columns '
                          f'{(r.get("date"), r.get("description"), r.get("amount"))}, suggestion {r.get("suggest")!r}', {'kind': 'canonical'})
            return
        judge_inspect(rec, ['Date', 'Description', 'Amount'], out, rc, 'cli')


def template_sequence(rec, rnd):
    """One description template used by two sources of a settings file: each format string is checked against it on its own - the second is rejected when it
    does not capture a column the template names, whatever was parsed before."""
    from tally.format_parser import parse_format_string
    a, b = rnd.choice([('payee', 'memo'), ('type', 'merchant'), ('a', 'b')])
    template = rnd.choice(['{%s} - {%s}', '{%s} {%s}', '{%s} ({%s})']) % (a, b)
    steps = [('{date:%%m/%%d/%%Y},{amount},{%s},{%s}' % (a, b), True), ('{date:%%m/%%d/%%Y},{amount},{%s},{_}' % a, False), ('{date:%%m/%%d/%%Y},{%s},{amount},{_}' % b, False),
             ('{date:%%m/%%d/%%Y},{%s},{%s},{amount}' % (b, a), True), ('{date:%%m/%%d/%%Y},{amount},{%s},{other}' % a, False)]
    for text, ok in steps:
        rec.case()
        rec.count('template_sequence_parses')
        try:
            parse_format_string(text, template)
            accepted = True
        except ValueError:
            accepted = False
        if accepted != ok:
            rec.violation('accepted-invalid:template-names-an-uncaptured-column:after-an-earlier-parse' if accepted else 'rejected-valid', f'template {template!r}, formats parsed in this order '
                          f'{[t for t, _ in steps]}: {text!r} was {"accepted" if accepted else "rejected"}', {'kind': 'template-sequence'})
            return


def whitespace_twins(rec, rnd):
    """Format strings that differ only in the width / kind of blanks INSIDE a date format are different format strings:
    parsed one after the other in one process, each must come back with its own date format (no normalising cache)."""
    from tally.format_parser import parse_format_string
    base = rnd.choice(['{date:%s}, {description}, {amount}', '{_},{date:%s},{-amount},{description}', '{date:%s}, {merchant}, {amount}'])
    template = '{merchant}' if 'merchant' in base else None
    fmts = ['%d %b %y', '%d  %b  %y', '%d\t%b %y', '%d %b  %y', '%b %d, %Y', '%b  %d,  %Y']
    order = [rnd.choice(fmts) for _ in range(6)]
    for f in order:
        rec.case()
        rec.count('whitespace_twin_parses')
        text = (base.replace(', ', ' ,  ') if rnd.random() < .5 else base) % f
        try:
            spec = parse_format_string(text, template)
        except ValueError as e:
            rec.violation('rejected-valid', f'{text!r}: {e}', {'kind': 'twins'})
            return
        if spec.date_format != f:
            rec.violation('wrong-date_format:whitespace-twin', f'{text!r} parsed after {order}: date_format {spec.date_format!r}, written {f!r}', {'kind': 'twins'})
            return
    rec.interesting('twins|' + base + '|' + '|'.join(order))


def probe_comma(rec):
    """Known limitation probe: a date format containing a comma."""
    from tally.format_parser import parse_format_string
    text = '{date:%b %d, %Y}, {description}, {amount}'
    try:
        s = parse_format_string(text)
        if s.date_format != '%b %d, %Y' or s.description_column != 1:
            rec.violation('comma-in-date-format', f'{text!r} parsed to date_format={s.date_format!r} description_column={s.description_column}', {'kind': 'comma'})
    except ValueError as e:
        rec.violation('comma-in-date-format', f'{text!r} (date format with a comma) is rejected: {e}', {'kind': 'comma'})


def replay(rec, case):
    core.import_tally()
    rnd = core.rng_for('C18', 'replay')
    if case['kind'] == 'twins':
        for _ in range(500):
            whitespace_twins(rec, rnd)
    elif case['kind'] == 'comma':
        probe_comma(rec)
    elif case['kind'] == 'template-sequence':
        for _ in range(20):
            template_sequence(rec, rnd)
    elif case['kind'] == 'canonical':
        tmp = tempfile.mkdtemp(prefix='vt-c18-')
        try:
            canonical_header_witness(rec, tmp)
        finally:
            shutil.rmtree(tmp, ignore_errors=True)
    elif case['kind'] == 'arr':
        from tally.format_parser import parse_format_string
        for tv in ('valid', 'none', 'dangling'):
            for _ in range(30):
                check_arrangement(rec, case['seq'], rnd, tv)
    else:
        tmp = tempfile.mkdtemp(prefix='vt-c18-')
        try:
            path = os.path.join(tmp, 'f.csv')
            write_csv(path, case['header'], rnd)
            out, rc = run_inspect_cli(path, tmp)
            judge_inspect(rec, case['header'], out, rc, 'cli')
        finally:
            shutil.rmtree(tmp, ignore_errors=True)

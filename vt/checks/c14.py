"""C14 - migrating merchant_categories.csv to merchants.rules preserves classification.

Differential monitor: the real legacy CSV path (get_all_rules(csv) -> normalize_merchant) versus the real migrated paths
  B1 parse_merchants(csv_to_merchants_content(load_merchant_rules(csv))).match
  B2 cli._migrate_csv_to_rules(csv, config_dir) -> get_all_rules(merchants.rules) -> normalize_merchant
  B3 load_csv_as_engine(csv).match
on the same transactions.  The CSV reference semantics (vt.rules.ref_match_csv) arbitrates which side is wrong when they
differ, for the mechanism key only.
"""
import contextlib
import io
import os
import re
import shutil
import tempfile
from datetime import date

from vt import core, rules as R, matchobs as O, world
from vt.checks.c01 import expression_like

SPEC = {
    'level': 'exploration',
    'shards': {'quick': 8, 'thorough': 16},
    'rule': ('CSV rule files of 1-10 rows whose patterns come from a regex grammar (literals, \\d \\s \\w \\b \\B \\A \\Z, anchors, '
             'alternation, groups, back-references, lookahead/lookbehind, quantifiers, escaped metacharacters, \\\\, double and single quotes, '
             'character classes, brackets that look like modifiers) with every modifier form and combination ([amount > >= < <= = :], '
             '[date= :..], [month=]), pipe tags in mixed case with blanks, tag-only rows, comment and blank lines, empty category and/or '
             'subcategory; x 30 transactions with descriptions built to hit the patterns, amounts on modifier boundaries (v, v+-0.004, '
             'v+-0.01, range ends), dates on range and month ends. Non-trivial = (file, txn) where some row matches on the CSV side; distinct by digest'),
    'exhaustive': {'quick': False, 'thorough': False},
    'required_counters': ['files_migrated', 'content_path_checks', 'migrate_command_path_checks', 'load_csv_as_engine_checks', 'rows_matching'],
    'assumptions': ['inline (?-i:...) flags are not generated (the CSV path upper-cases the description before an IGNORECASE search, the migrated '
                    'path does not); descriptions with letters whose upper-case form is longer (ß, ligatures) ARE generated: recorded finding',
                    'merchant, category and tag texts have no surrounding blanks and tags contain no comma'],
}

LITS = ['NETFLIX', 'UBER', 'EATS', 'STAR', 'BUCKS', 'AMZN', 'MKTP', 'COSTCO', 'WHOLE', 'FOODS', 'GAS', 'CAF', 'SQ', 'STRASSE', 'FINE', 'CAF\u00c9', 'CAFE\u0301', 'ROMA', '\U0001f355', '\U0001f3e0']
DESCS = ['NETFLIX.COM Uber eats', 'star-BUCKS  *7', "O'Reilly Café AMZN Mktp", 'UBER EATS 42 SQ *COSTCO', 'Netflix', 'uber   eats', 'COSTCO GAS 100',
         'AMZN Mktp US*7 NETFLIX', 'SQ *STAR bucks REF:77', 'UBER TRIP 7', 'WHOLE FOODS MARKET #12 WA', 'STARBUCKS STORE 42', 'costco whole foods',
         'say "GAS" now', 'back\\slash COSTCO', 'UBERUBER', 'A+B COSTCO (x)', 'GASGAS 7', 'UBEREATS', 'Plain Unknown Vendor 99', 'EATS\tUBER',
         'COSTCO7', 'COSTCO x', 'NETFLIX-X', 'STAR 9', 'GAS Z',
         # letters whose upper-case form is longer than the letter (the CSV path matches against description.upper())
         'Hauptstra\u00dfe 5 UBER', 'HAUPTSTRASSE 7 GAS', '\ufb01ne FOODS market', 'Stra\u00dfe',
         # the same accented word spelled with a composed letter and as letter + combining mark (macOS / iOS exports): different texts to a pattern
         'VENMO \U0001f355 night UBER', 'rent \U0001f3e0 GAS', 'pizza \U0001f355\U0001f355 COSTCO',
         'UBER  EATS 9', 'UBER EATS 9', 'STAR   BUCKS', 'STAR BUCKS', 'COSTCO\tGAS', 'COSTCO GAS', 'SQ  *STAR',
         'CAF\u00c9 ROMA 12', 'CAFE\u0301 ROMA 12', 'caf\u00e9 roma UBER', 'cafe\u0301 roma GAS', 'WIRE [REF 123] OUT', 'CHECK [0042]', 'CHECK (0042)']


def gen_pattern(rnd):
    a, b = rnd.choice(LITS), rnd.choice(LITS)
    if rnd.random() < .08:
        # text pasted from a statement line: runs of blanks (or a tab) inside the pattern are part of the pattern
        return rnd.choice(['UBER  EATS', 'STAR   BUCKS', 'COSTCO\tGAS', 'SQ  \\*STAR', 'UBER EATS', 'STAR BUCKS', '%s  %s' % (a, b)])
    if rnd.random() < .05:
        # valid regular expressions for which Python's re module prints a FutureWarning ("possible nested set"): a literal bracket written as [[] / []]
        return rnd.choice(['WIRE [[]REF \\d+[]]', 'CHECK\\s*[[(]\\d+[])]', 'A[+&&]B', '[[:upper:]]{4} \\(x\\)'])
    k = rnd.randint(0, 31)      # the last four are not valid regular expressions: the CSV loader accepts them, such a row never matches
    return [
        a, a.lower(), '%s|%s' % (a, b), '%s\\s*%s' % (a, b), '%s\\s+%s' % (a, b), '\\b%s\\b' % a, '\\B%s' % a, '^%s' % a, '%s$' % a, '\\A%s' % a,
        '%s\\Z' % a, '%s.*%s' % (a, b), '%s(?!.*%s)' % (a, b), '(?<!%s)%s' % (a[:2], b), '(%s)\\1' % a, '(%s|%s)\\s\\d+' % (a, b), '%s\\d{2,3}' % a,
        '\\w+-\\w+', '%s\\.COM' % a, 'SQ \\*%s' % a, '%s \\d+' % a, '"%s"' % a, "O'REILLY", 'BACK\\\\SLASH', '[A-Z]{4}\\s[A-Z]{4}', 'A\\+B', '\\(X\\)',
        '%s[amount]?' % a, '%s\\' % a, 'SQ \\*%s\\' % a, '(%s' % a, '%s[' % a,
    ][k]


def gen_mods(rnd):
    mods = []
    for _ in range(rnd.choice([0, 0, 1, 1, 1, 2, 3])):
        k = rnd.randint(0, 4)
        if k == 0:
            op = rnd.choice(['>', '>=', '<', '<=', '=', '='])
            mods.append(('amount', op, rnd.choice(['100', '12', '99.99', '0.5', '500', '50', '12.5', '12345.67', '10000.25', '250000.5', '1234567.89', '15250.45', '0', '0', '5'])))
        elif k == 1:
            mods.append(('amount', ':', rnd.choice(['10', '0.5', '12', '10000.25', '0', '0']), rnd.choice(['100', '99.99', '500', '20000.75', '1234567.89'])))
        elif k == 2:
            mods.append(('date', '=', rnd.choice(['2025-01-15', '2024-12-31', '2024-02-29'])))
        elif k == 3:
            mods.append(('date', ':', rnd.choice(['2024-12-31', '2025-01-01']), rnd.choice(['2025-01-31', '2025-02-28', '2025-01-01'])))
        else:
            mods.append(('month', rnd.choice([1, 2, 6, 12])))
    return mods


def gen_file(rnd):
    rules = []
    for i in range(rnd.randint(1, 10)):
        cat, sub = rnd.choice(R.CATS + [('Kids #1', 'Unit #4'), ('Sep\u2028Cat', 'F\x0cF')])
        r = rnd.random()
        if r < .12:
            cat, sub = '', ''                      # tag-only row
        elif r < .2:
            sub = ''
        tags = [rnd.choice(['recurring', 'Business', 'INCOME', 'needs review', 'Q1', 'a-b', 'acct #2', 'ps\u2029tag', "kid's", 'Spa\u00df', '\u0394\u03b9\u03b1\u03ba\u03bf\u03c0\u03ad\u03c2']) for _ in range(rnd.choice([0, 0, 1, 2]))]
        if not cat and rnd.random() < .7 and not tags:
            tags = ['flag']                        # (a row with neither category nor tags is legal CSV and has no effect)
        rules.append(R.CsvRule(gen_pattern(rnd), gen_mods(rnd), '' if rnd.random() < .05 else rnd.choice(['Netflix', 'Uber Eats', "Joe's Diner", 'Shop & Co', 'M%d' % i, 'A: B', 'Big [Box]', 'Line\u2028Sep Co', 'Form\x0cFeed', 'Unit #4', 'Nel\x85Name']),
                               cat, sub, tags))
    if rnd.random() < .35:
        # two rows whose patterns differ only in the letter case of an escape class (\s / \S, \d / \D, \w / \W, \b / \B)
        a = rnd.choice(LITS)
        lo, hi = rnd.choice([('%s\\s', '%s\\S'), ('%s \\d+', '%s \\D+'), ('%s\\w', '%s\\W'), ('%s\\b', '%s\\B'), ('\\d%s', '\\D%s')])
        pair = [R.CsvRule(lo % a, [], 'Lower %s' % a, 'ClsLower', 'x', ['lowercls']), R.CsvRule(hi % a, [], 'Upper %s' % a, 'ClsUpper', 'y', ['uppercls'])]
        rnd.shuffle(pair)
        for r in pair:
            rules.insert(rnd.randint(0, len(rules)), r)
    if rnd.random() < .35 and rules:
        # OR over modifiers: the same row repeated with other modifiers (the only way the CSV format can say "March or April")
        src = rnd.choice(rules)
        for _ in range(rnd.randint(1, 2)):
            m2 = gen_mods(rnd)
            if m2 != src.mods:
                rules.insert(rnd.randint(0, len(rules)), R.CsvRule(src.pattern, m2, src.merchant, src.category, src.subcategory, list(src.tags)))
    return rules


def boundary_txns(rnd, rules, n):
    out = []
    amounts, dates = [12.0, -99.99, 0.5, 100, 500, 0.0, 0.0, -0.0, 0.004], [date(2025, 1, 15), date(2024, 12, 31), date(2025, 2, 28), date(2025, 1, 1), date(2024, 2, 29),
                                                      date(2025, 1, 31), date(2025, 2, 1), date(2025, 6, 30), date(2025, 12, 31), None]
    for r in rules:
        for m in r.mods:
            if m[0] == 'amount':
                for v in m[2:]:
                    v = float(v)
                    amounts += [v, v + 0.004, v - 0.004, v + 0.01, v - 0.01, v + 0.02, -v]
    for _ in range(n):
        t = {'description': rnd.choice(DESCS), 'amount': round(rnd.choice(amounts), 3), 'field': None, 'source': 'Amex', 'location': None}
        d = rnd.choice(dates)
        if d:
            t['date'] = d
        out.append(t)
    return out


def obs_engine(eng, txn):
    res = eng.match(dict(txn), data_sources={})
    return {'triple': (res.merchant, res.category, res.subcategory) if res.matched else None, 'tags': set(res.tags)}


def classify(crules, txn, a, b, ref, rerun=None):
    """Mechanism key for a CSV-vs-migrated difference (narrow: input features AND failure shape)."""
    if a['triple'] and b['triple'] and a['triple'][0] == '' and b['triple'][0] != '' and a['triple'][1:] == b['triple'][1:] and a['tags'] == b['tags']:
        # recorded finding: a CSV row with an EMPTY Merchant cell classifies with the merchant name ''; a .rules section needs a name, so the migrated
        # rule is named after its pattern - category, subcategory and tags are the same, the merchant name is not
        return 'empty-merchant-name-has-no-equivalent', True
    d = txn.get('description') or ''
    if len(d.upper()) != len(d) and rerun is not None:
        # recorded finding: the CSV path searches description.upper() ('ß' -> 'SS'), regex() in a .rules file searches the description as written.
        # Confirmed only when the migrated rules, given the upper-cased description, answer exactly as the CSV rules did.
        try:
            b2 = rerun(dict(txn, description=d.upper()))
            same_but_name = bool(a['triple'] and b2['triple'] and a['triple'][0] == '' and a['triple'][1:] == b2['triple'][1:] and a['tags'] == b2['tags'])
            if (b2['triple'], b2['tags']) == (a['triple'], a['tags']) or same_but_name:
                return 'description-with-multi-character-uppercase', True
        except Exception:
            pass
    migrated_right = (b['triple'], b['tags']) == (ref['triple'], ref['tags'])
    blame = [crules[i].pattern for i in ref['matching'] if expression_like(crules[i].pattern)]
    blame += [r.pattern for r in crules if expression_like(r.pattern) and a['triple'] and r.merchant == a['triple'][0]]
    blame += [r.pattern for r in crules if expression_like(r.pattern) and {t.strip().lower() for t in r.tags} & (a['tags'] ^ ref['tags'])]
    if migrated_right and blame:
        return 'csv-pattern-misrouted-as-expression', True   # the CSV side is the wrong one (finding recorded under C01)
    near = any(m[0] == 'amount' and m[1] == '=' and 0 < abs(txn['amount'] - float(m[2])) < 0.01 for r in crules for m in r.mods)
    if near:
        return 'amount-equals-tolerance-lost', False
    pats = ' '.join(r.pattern for r in crules)
    if re.search(r'\\[bBAZ]|\\\d|\\\\', pats):
        return 'regex-escape-mangled-in-string-literal', False
    if '"' in pats:
        return 'double-quote-in-pattern', False
    side = 'migrated-side-wrong' if (a['triple'], a['tags']) == (ref['triple'], ref['tags']) else 'csv-side-differs-from-reference'
    return 'classification-differs:' + side, False


def judge(rec, crules, txns, tmp, rnd, short_all=False):
    from tally import merchant_utils as mu, merchant_engine as me, cli
    cfg = os.path.join(tmp, 'cfg')
    shutil.rmtree(cfg, ignore_errors=True)
    os.makedirs(cfg)
    csv_path = O.write(os.path.join(cfg, 'merchant_categories.csv'), R.render_csv(crules, rnd, short_all=short_all))
    case0 = {'kind': 'csv', 'rules': [r.to_json() for r in crules]}
    rec.case()
    loaded = mu.load_merchant_rules(csv_path)
    if len(loaded) != len(crules):
        rec.violation('csv-loader-lost-rows', f'{len(loaded)} of {len(crules)} rows loaded', dict(case0, txns=[]))
        return
    # --- migrated side, three ways
    content = me.csv_to_merchants_content(loaded)
    engines = {}
    try:
        engines['content'] = me.parse_merchants(content)
    except Exception as e:
        empties = [r for r in crules if not r.category and not r.tags]
        key = 'generated-file-unloadable'
        if empties:
            key += ':row-without-category-and-tags'
        elif any('"' in r.pattern for r in crules):
            key += ':double-quote-in-pattern'
        elif any(not r.merchant.strip() for r in crules):
            key += ':empty-merchant'
        rec.violation(key, f'parse_merchants(csv_to_merchants_content(...)) fails: {e}', dict(case0, txns=[], content=content))
    try:
        engines['load_csv_as_engine'] = me.load_csv_as_engine(csv_path)
    except Exception as e:
        rec.violation('load_csv_as_engine-fails', f'{type(e).__name__}: {e}', dict(case0, txns=[]))
    rec.count('files_migrated')
    # --- CSV side first (the migration command moves the CSV away)
    mu.clear_engine_cache()
    prules = mu.get_all_rules(csv_path)
    csv_obs = []
    for txn in txns:
        try:
            csv_obs.append(O.production_result(prules, [], txn, {}))
        except O.ImplError as e:
            csv_obs.append(None)
    # --- real migration command
    O.write(os.path.join(cfg, 'settings.yaml'), 'year: 2025\ndata_sources: []\n')
    buf = io.StringIO()
    with contextlib.redirect_stdout(buf):
        ok = cli._migrate_csv_to_rules(csv_path, cfg, backup=True)
    new_file = os.path.join(cfg, 'merchants.rules')
    mig_rules = None
    if not ok or not os.path.exists(new_file):
        rec.violation('migration-command-fails', f'_migrate_csv_to_rules returned {ok}: {buf.getvalue()[-200:]}', dict(case0, txns=[]))
    else:
        mu.clear_engine_cache()
        mig_rules = mu.get_all_rules(new_file)
        if mu.get_cached_engine() is None:
            if 'content' in engines:
                rec.violation('migrated-file-not-loaded-by-get_all_rules', 'get_all_rules(merchants.rules) did not produce an engine', dict(case0, txns=[]))
            mig_rules = None
    for txn, a in zip(txns, csv_obs):
        if a is None:
            continue
        ref = R.ref_match_csv(crules, txn)
        if ref['matching']:
            rec.count('rows_matching')
            rec.interesting([core.digest(case0), core.digest(O.jtxn(txn))])
        case = dict(case0, txns=[O.jtxn(txn)])
        for name, eng in engines.items():
            try:
                b = obs_engine(eng, txn)
            except Exception as e:
                rec.violation('migrated-engine-raises:' + type(e).__name__, f'{name}: {e}', case)
                continue
            rec.count('content_path_checks' if name == 'content' else 'load_csv_as_engine_checks')
            if (a['triple'], a['tags']) != (b['triple'], b['tags']):
                key, bare = classify(crules, txn, a, b, ref, rerun=lambda t2, eng=eng: obs_engine(eng, t2))
                rec.violation(key if bare else key + ':' + name,
                              f'{name}: CSV rules give {a["triple"]} {sorted(a["tags"])}, migrated rules give {b["triple"]} {sorted(b["tags"])} for '
                              f'{txn["description"]!r} amount={txn["amount"]} date={txn.get("date")} (CSV reference semantics: {ref["triple"]} {sorted(ref["tags"])})', case)
        if mig_rules is not None:
            try:
                b = O.production_result(mig_rules, [], txn, {})
                rec.count('migrate_command_path_checks')
                if (a['triple'], a['tags']) != (b['triple'], b['tags']):
                    key, bare = classify(crules, txn, a, b, ref, rerun=lambda t2: O.production_result(mig_rules, [], t2, {}))
                    rec.violation(key if bare else key + ':migrate-command',
                                  f'_migrate_csv_to_rules: CSV {a["triple"]} {sorted(a["tags"])} vs migrated {b["triple"]} {sorted(b["tags"])} for {txn["description"]!r} '
                                  f'amount={txn["amount"]}', case)
                elif a['triple'] is None and a['fallback'] != b['fallback']:
                    rec.violation('unknown-merchant-name-differs-after-migration', f'{a["fallback"]!r} vs {b["fallback"]!r}', case)
            except O.ImplError as e:
                rec.violation('migrated-path-raises:' + type(e.exc).__name__, str(e)[:200], case)


def relative_probe(rec):
    """[date:lastNdays] has no equivalent in the expression language (recorded finding)."""
    from tally import merchant_utils as mu, merchant_engine as me
    tmp = tempfile.mkdtemp(prefix='vt-c14-')
    try:
        p = O.write(os.path.join(tmp, 'm.csv'), 'Pattern,Merchant,Category,Subcategory\nNETFLIX[date:last30days],Netflix,Subs,Streaming\nUBER[amount>5][date:last9999days],Uber,Food,Delivery\n')
        loaded = mu.load_merchant_rules(p)
        content = me.csv_to_merchants_content(loaded)
        try:
            eng = me.parse_merchants(content)
            old = {'description': 'NETFLIX.COM', 'amount': 9.99, 'date': date(2001, 1, 1), 'field': None, 'source': 'S'}
            mu.clear_engine_cache()
            a = O.production_result(mu.get_all_rules(p), [], old, {})
            b = obs_engine(eng, old)
            if a['triple'] != b['triple']:
                rec.violation('relative-date-modifier', f'[date:last30days]: CSV {a["triple"]} vs migrated {b["triple"]} for a 2001 transaction',
                              {'kind': 'relative'})
        except Exception as e:
            rec.violation('relative-date-modifier', f'[date:lastNdays] combined with another modifier yields an unloadable file: {e}', {'kind': 'relative'})
    finally:
        shutil.rmtree(tmp, ignore_errors=True)


def empty_merchant_probe(rec, tmp):
    """Witness: a row with an empty Merchant cell (fixed: the migrated file loads; open: the merchant name '' has no equivalent)."""
    cr = [R.CsvRule('RENT', [('month', 6)], '', 'Housing', 'Rent', ['recurring']), R.CsvRule('STARBUCKS', [], 'Coffee', 'Food', 'Coffee', [])]
    txns = [{'description': 'RENT JUNE', 'amount': 900.0, 'field': None, 'source': 'Amex', 'location': None, 'date': date(2025, 6, 1)},
            {'description': 'STARBUCKS 42', 'amount': 5.0, 'field': None, 'source': 'Amex', 'location': None, 'date': date(2025, 6, 2)}]
    judge(rec, cr, txns, tmp, None)


def cli_migration_run(rec, rnd, tmp, k):
    """End to end through the settings file: `tally up` on the CSV budget, `tally up --migrate`, and `tally up` again classify every transaction alike -
    under the default rule mode however the setting is spelled (a spelling that is not one of the two documented values is reported and read as first_match)."""
    import json as _json
    from vt import budget as B
    root = os.path.join(tmp, 'cli%d' % k)
    shutil.rmtree(root, ignore_errors=True)
    os.makedirs(os.path.join(root, 'config'))
    os.makedirs(os.path.join(root, 'data'))
    mode = rnd.choice([None, 'first_match', 'First_Match', 'FIRST_MATCH', 'first-match', ' first_match'])
    w = rnd.choice(['COSTCO', 'UBER', 'PRIME'])
    rows = [(w, 'General %s' % w.title(), 'Shopping', 'Wholesale', ''), ('%s GAS[amount>5]' % w, '%s Gas' % w.title(), 'Transport', 'Fuel', 'car'),
            ('%s\\s+VIDEO' % w, '%s Video' % w.title(), 'Subs', 'Video', 'tv|monthly')]
    rows.append(('%s ANNUAL[month=1]' % w, 'Caf\u00e9 %s Annual' % w.title(), 'Fees', 'Jahresgeb\u00fchr', 'annual'))
    # (a valid regular expression Python only WARNS about - a literal bracket written as a one-character set - ahead of the general rows)
    rows.append(('WIRE [[]REF \\d+[]]', 'Wire Out', 'Transfers', 'Wire', 'wire'))
    rnd.shuffle(rows)
    # the statement has a column the format string captures under the name of a date part ({month}: a billing-period label); the month modifier of a rule
    # is about the transaction's DATE before and after migration
    month_col = rnd.random() < .5
    with open(os.path.join(root, 'config', 'settings.yaml'), 'w') as f:
        f.write('year: 2025\n' + ('rule_mode: "%s"\n' % mode if mode else '') + 'data_sources:\n  - name: Card\n    file: data/card.csv\n    format: "{date:%Y-%m-%d},{description},{amount}' +
                (',{month}' if month_col else '') + '"\n')
    with open(os.path.join(root, 'config', 'merchant_categories.csv'), 'w', encoding='utf-8') as f:
        f.write('Pattern,Merchant,Category,Subcategory,Tags\n' + ''.join(','.join(r) + '\n' for r in rows))
    with open(os.path.join(root, 'data', 'card.csv'), 'w') as f:
        f.write(''.join(l + (',2025-0%d' % (1 + i % 2) if month_col else '') + '\n' for i, l in enumerate(
            ['Date,Description,Amount', '2025-01-03,%s GAS #0123,40.20' % w, '2025-01-04,%s VIDEO 9,8.99' % w, '2025-01-05,%s WHSE,120.00' % w, '2025-01-06,OTHER SHOP,3.00',
             '2025-01-20,%s ANNUAL FEE,60.00' % w, '2025-02-20,%s ANNUAL FEE,60.00' % w, '2025-02-21,WIRE [REF 123] %s,75.00' % w])))
    # (every third run in a process whose preferred encoding is not UTF-8 - a C locale, a Windows code page: the rule files are UTF-8 files whoever reads them)
    other_locale = rnd.random() < .35
    envx = {'LC_ALL': 'C', 'LANG': 'C', 'PYTHONUTF8': '0', 'PYTHONCOERCECLOCALE': '0', 'PYTHONIOENCODING': 'utf-8'} if other_locale else None
    rec.count('cli_migration_runs_in_a_non_utf8_locale', 1 if other_locale else 0)
    outs = []
    for extra in ([], ['--migrate'], []):
        p = B.tally(root, 'up', os.path.join(root, 'config'), '--format', 'json', '-v', *extra, env_extra=envx)
        rec.count('cli_runs')
        try:
            js = B.json_from_stdout(p.stdout)
            outs.append(sorted((d, m['name'], m['category'], m['subcategory'], tuple(sorted(m.get('tags') or []))) for m in js['merchants'] for d in (m.get('raw_descriptions') or {})))
        except Exception:
            outs.append('no report (exit %d): %s' % (p.returncode, (p.stderr or p.stdout)[-120:]))
    rec.case()
    rec.count('cli_migration_runs')
    if not (outs[0] == outs[1] == outs[2]):
        rec.violation('classification-differs:through-the-settings-file', f'rule_mode {mode!r}, month column {month_col}, non-UTF-8 locale {other_locale}, CSV rows {rows}: before migration {outs[0]}; the migrating run {outs[1]}; after {outs[2]}',
                      {'kind': 'cli-migration'})
    shutil.rmtree(root, ignore_errors=True)


def short_row_probe(rec, tmp):
    """Witness of the repaired defect 072d13c: lines with fewer cells than the header (no Tags, no Subcategory cell)."""
    cr = [R.CsvRule('COSTCO', [], 'Costco', 'Food', '', []), R.CsvRule('NETFLIX', [('amount', '>', '5')], 'Netflix', 'Subs', 'Video', [])]
    txns = [{'description': 'COSTCO 12', 'amount': 50.0, 'field': None, 'source': 'Amex', 'location': None, 'date': date(2025, 6, 1)},
            {'description': 'NETFLIX.COM', 'amount': 15.0, 'field': None, 'source': 'Amex', 'location': None, 'date': date(2025, 6, 2)}]
    judge(rec, cr, txns, tmp, None, short_all=True)


def bracket_set_probe(rec, tmp):
    """Valid regular expressions that Python's re module only WARNS about (a literal bracket written as [[] or []], POSIX-looking classes): they match before the
    migration and after it."""
    cr = [R.CsvRule('WIRE [[]REF \\d+[]]', [], 'Wire Out', 'Transfers', 'Wire', ['wire']), R.CsvRule('CHECK\\s*[[(]\\d+[])]', [], 'Check', 'Bills', 'Check', []),
          R.CsvRule('WIRE|CHECK', [], 'Other Bank', 'Bank', 'Misc', [])]
    txns = [{'description': d, 'amount': 50.0, 'field': None, 'source': 'Amex', 'location': None, 'date': date(2025, 6, 1)} for d in ('WIRE [REF 123] OUT', 'CHECK [0042]', 'CHECK (0042)', 'WIRE FEE')]
    judge(rec, cr, txns, tmp, None)


def sharp_s_probe(rec, tmp):
    """Witness of the recorded finding 'description-with-multi-character-uppercase'."""
    cr = [R.CsvRule('STRASSE', [], 'Street Shop', 'Shopping', 'Misc', [])]
    judge(rec, cr, [{'description': 'Hauptstra\u00dfe 5', 'amount': 5.0, 'field': None, 'source': 'Amex', 'location': None, 'date': date(2025, 1, 15)}], tmp, None)


def run(rec, shard, nshards, t):
    core.import_tally()
    rnd = core.rng_for('C14', shard)
    tmp = tempfile.mkdtemp(prefix='vt-c14-')
    try:
        for i in range((300 if t == 'quick' else 60000) // nshards):
            cr = gen_file(rnd)
            judge(rec, cr, boundary_txns(rnd, cr, 30), tmp, rnd)
            if i < 1 and shard == 0:
                rec.sample({'csv': R.render_csv(cr)})
        for k in range(max(1, (6 if t == 'quick' else 80) // nshards)):
            cli_migration_run(rec, rnd, tmp, k)
        if shard == 0:
            relative_probe(rec)
            sharp_s_probe(rec, tmp)
            empty_merchant_probe(rec, tmp)
            short_row_probe(rec, tmp)
            bracket_set_probe(rec, tmp)
    finally:
        shutil.rmtree(tmp, ignore_errors=True)


def replay(rec, case):
    core.import_tally()
    rnd = core.rng_for('C14', 'replay')
    if case['kind'] == 'relative':
        relative_probe(rec)
        return
    if case['kind'] == 'cli-migration':
        tmp = tempfile.mkdtemp(prefix='vt-c14-')
        try:
            for k in range(8):
                cli_migration_run(rec, rnd, tmp, k)
        finally:
            shutil.rmtree(tmp, ignore_errors=True)
        return
    if case['kind'] == 'empty-merchant':
        tmp = tempfile.mkdtemp(prefix='vt-c14-')
        try:
            empty_merchant_probe(rec, tmp)
        finally:
            shutil.rmtree(tmp, ignore_errors=True)
        return
    if case['kind'] in ('sharp-s', 'short-row'):
        tmp = tempfile.mkdtemp(prefix='vt-c14-')
        try:
            (sharp_s_probe if case['kind'] == 'sharp-s' else short_row_probe)(rec, tmp)
        finally:
            shutil.rmtree(tmp, ignore_errors=True)
        return
    tmp = tempfile.mkdtemp(prefix='vt-c14-')
    try:
        cr = [R.CsvRule.from_json(r) for r in case['rules']]
        txns = [O.untxn(x) for x in case['txns']] or boundary_txns(rnd, cr, 40)
        judge(rec, cr, txns, tmp, None)
    finally:
        shutil.rmtree(tmp, ignore_errors=True)

"""C15 - an interrupted or failing migration never loses rules or strands the budget.

Fault enumeration.  For every budget shape and migrating command (tally up --migrate, tally init on a folder with a legacy
CSV, tally update -y = folder-layout migration, and `tally update` with a pseudo-terminal as stdin whose prompt is answered y, Enter, Y,
n or Ctrl-D) a recording run under the child-process injector lists the file-system
effect sequence E1..En.  Then EVERY injection point is visited on a fresh copy of the budget:
   crash before Ek for each k;  for each write (close-w / close-a) additionally the in-flight file 25/50/75/97% and fully written;
   OSError(EIO) raised from each single Ek with the process continuing.
After each injected run:  (a) every pre-existing file's content still exists somewhere in the tree (settings.yaml: as a
prefix);  (b) `tally up` in a fresh process classifies as the untouched budget did, or does so after simply re-running the
same command un-faulted;  (c) it never classifies every transaction Unknown while the user's rules are on disk.
"""
import hashlib
import json
import os
import pty
import select
import shutil
import subprocess
import tempfile
import time

from vt import core, budget as B

SPEC = {
    'level': 'fault_enumeration',
    'shards': {'quick': 8, 'thorough': 16},
    'rule': ('budget shapes (old/new layout; settings with/without views; existing .bak; unreferenced merchants.rules; output dir with an old '
             'report; .rules budget) x commands {up --migrate, init, update -y, `update` at a pseudo-terminal answered y / Enter / Y / n / Ctrl-D, plain `up` on a terminal whose migration offer is answered y / n / Enter} x every effect index k of the recorded effect sequence x modes '
             '{crash-before, crash with 25/50/75/97% of the in-flight file written, crash-full (writes only), error}. quick visits 4 (shape, command) pairs completely, thorough all of '
             'them. Non-trivial = injection at an effect that touches the rules, the settings or a directory move; distinct by (shape, command, k, mode)'),
    'exhaustive': {'quick': False, 'thorough': True},
    'required_counters': ['recording_runs', 'injected_runs', 'crash_points_visited', 'error_points_visited', 'content_preservation_checks',
                          'classification_checks', 'reruns'],
    'assumptions': ['effects reach the disk in program order; a rename/move within one file system is atomic',
                    'a write reaches the disk at close (writes are held back by the injector proxy until close, then torn deterministically)',
                    'cross-device moves are observed only when the machine offers a second writable file system (/dev/shm); otherwise counted as unavailable'],
}

INJECT = os.path.join(core.VERIF, 'vt', 'inject')
CSV = 'Pattern,Merchant,Category,Subcategory,Tags\nNETFLIX,Netflix,Subscriptions,Streaming,recurring\nUBER\\s*EATS,Uber Eats,Food,Delivery,\nCOSTCO[amount>100],Costco Bulk,Shopping,Wholesale,large\nCOSTCO,Costco,Food,Grocery,\n'
RULES = '[Netflix]\nmatch: contains("NETFLIX")\ncategory: Subscriptions\nsubcategory: Streaming\ntags: recurring\n\n[Uber Eats]\nmatch: regex("UBER\\\\s*EATS")\ncategory: Food\nsubcategory: Delivery\n\n[Costco]\nmatch: contains("COSTCO")\ncategory: Food\nsubcategory: Grocery\n'
DATA = 'Date,Description,Amount\n2025-01-02,NETFLIX.COM,9.99\n2025-01-03,UBER EATS 42,20.00\n2025-01-04,COSTCO WHSE 12,250.00\n2025-02-04,COSTCO GAS,40.00\n2025-02-05,SOME UNKNOWN VENDOR,5.00\n'
VIEWS = '[All]\nfilter: true\n\n[Food]\nfilter: category == "Food"\n'

SHAPES = {
    'csv-old':            {'layout': 'old', 'rules': 'csv'},
    'csv-old-bak':        {'layout': 'old', 'rules': 'csv', 'bak': True},
    'csv-old-strayrules': {'layout': 'old', 'rules': 'csv', 'stray': True},
    'csv-old-output':     {'layout': 'old', 'rules': 'csv', 'output': True},
    # a merchants.rules the user has begun to write that holds no loadable rule yet (variables and a transform; a rule with a typo in it)
    'csv-old-stray-norules': {'layout': 'old', 'rules': 'csv', 'stray': 'norules', 'only': ('migrate', 'init')},
    'csv-old-views':      {'layout': 'old', 'rules': 'csv', 'views': True},
    'csv-new':            {'layout': 'new', 'rules': 'csv'},
    'rules-old':          {'layout': 'old', 'rules': 'rules', 'output': True},
    'csv-old-commented-key': {'layout': 'old', 'rules': 'csv', 'commented_key': True},
    'csv-old-nosettingsline-views-output': {'layout': 'old', 'rules': 'csv', 'views': True, 'output': True, 'bak': True},
    # the statement lives outside data/ and is named by an absolute path: it stays reachable in every intermediate state of a folder move
    'csv-old-empty-key':  {'layout': 'old', 'rules': 'csv', 'empty_key': True},
    'csv-old-altsettings': {'layout': 'old', 'rules': 'csv', 'altsettings': True},     # the budget is run with --settings settings-2024.yaml
    'rules-old-symlink-data': {'layout': 'old', 'rules': 'rules', 'symlink_data': True},   # data/ is an absolute symlink to a folder kept elsewhere (a synced drive)
    'rules-old-absdata':  {'layout': 'old', 'rules': 'rules', 'absdata': True},
    'csv-old-absdata':    {'layout': 'old', 'rules': 'csv', 'absdata': True},
    # the config folder has another name (tally up <dir> / TALLY_CONFIG accept any folder): only `up <dir> --migrate` applies to it
    # a budget that has been migrated back and forth many times: .bak, .bak.1 ... .bak.10 all exist (each with its own content)
    'csv-old-manybaks':   {'layout': 'old', 'rules': 'csv', 'manybaks': 11, 'only': ('migrate', 'init')},
    # the settings name the legacy CSV explicitly (merchants_file: config/merchant_categories.csv)
    'csv-old-explicit-csv': {'layout': 'old', 'rules': 'csv', 'explicit_csv': True, 'only': ('migrate', 'init')},
    # ... and two settings files side by side (the default one and settings-2024.yaml); the migration is run with the second, the budget is used with both
    'csv-old-oddname-twosettings': {'layout': 'old', 'rules': 'csv', 'cfg_name': 'cfg-2025', 'altsettings': True, 'both_settings': True, 'only': ('migrate',)},
    'csv-old-twosettings': {'layout': 'old', 'rules': 'csv', 'altsettings': True, 'both_settings': True, 'only': ('migrate',)},
    'csv-old-oddname':    {'layout': 'old', 'rules': 'csv', 'cfg_name': 'cfg-2025', 'only': ('migrate',)},
    # ... whose name holds characters that mean something to YAML when they stand unquoted in `merchants_file: <name>/merchants.rules`
    'csv-old-oddname-hash': {'layout': 'old', 'rules': 'csv', 'cfg_name': 'my config #2', 'only': ('migrate',)},
    'csv-old-oddname-punct': {'layout': 'old', 'rules': 'csv', 'cfg_name': "Anna's (2025) & co", 'only': ('migrate',)},
    # config/ is a symbolic link to a folder of another name kept elsewhere in the budget (store/realcfg): the budget folder is the parent of the LINK
    'csv-old-symlinked-config': {'layout': 'old', 'rules': 'csv', 'symlink_config': True, 'only': ('migrate', 'init')},
}
ODD_NAMES = ('cfg-2025', 'my config #2', "Anna's (2025) & co")
COMMANDS = ['migrate', 'init', 'update']
QUICK = [('csv-old', 'migrate'), ('csv-old-bak', 'init'), ('csv-old-output', 'update'), ('csv-new', 'migrate'), ('csv-old-commented-key', 'migrate'),
         ('rules-old-absdata', 'update'), ('csv-old', 'migrate', 'other-filesystem'), ('csv-old-empty-key', 'migrate'), ('csv-old-altsettings', 'migrate'),
         ('csv-old-commented-key', 'init'), ('rules-old-symlink-data', 'update'), ('csv-old-oddname', 'migrate'), ('csv-old-oddname-hash', 'migrate'), ('csv-old-oddname-punct', 'migrate'), ('csv-old-symlinked-config', 'migrate'), ('csv-old-manybaks', 'migrate'), ('csv-old-explicit-csv', 'migrate'), ('csv-old-explicit-csv', 'init'), ('csv-old-stray-norules', 'migrate'), ('csv-old-oddname-twosettings', 'migrate')]
# the folder-layout migration asked for at a terminal (`tally update` without -y, stdin a pseudo-terminal) and what the user types at its prompt
# ... and the CSV-to-.rules migration OFFERED by a plain `tally up` whose stdout is a terminal ("Migrate to new format? [y/N]")
FULL_TTY = {'migrate-tty-y': b'y\n', 'migrate-tty-n': b'n\n', 'migrate-tty-enter': b'\n'}
TTY_ANSWERS = {**FULL_TTY, 'update-tty-y': b'y\n', 'update-tty-enter': b'\n', 'update-tty-yes-upper': b'Y\n', 'update-tty-n': b'n\n', 'update-tty-eof': b'\x04'}
QUICK += [('csv-old-output', 'update-tty-y'), ('rules-old-symlink-data', 'update-tty-enter'), ('csv-old-output', 'update-tty-n'), ('rules-old-absdata', 'update-tty-eof'),
          ('csv-old-bak', 'migrate-tty-y'), ('csv-old', 'migrate-tty-n'), ('csv-old-commented-key', 'migrate-tty-y')]
OTHER_FS = '/dev/shm'        # a file system other than the one holding the system temp directory (if this machine has one)


def build(root, shape):
    sp = SHAPES[shape]
    base = os.path.join(root, 'tally') if sp['layout'] == 'new' else root
    cfg = os.path.join(base, sp.get('cfg_name', 'config'))
    if sp.get('symlink_config'):
        os.makedirs(os.path.join(base, 'store', 'realcfg'))
        os.symlink(os.path.join('store', 'realcfg'), cfg)
    else:
        os.makedirs(cfg)
    if sp.get('symlink_data'):
        ext = os.path.join(os.path.dirname(root), os.path.basename(root) + '-elsewhere', 'statements')
        shutil.rmtree(os.path.dirname(ext), ignore_errors=True)
        os.makedirs(ext)
        os.symlink(ext, os.path.join(base, 'data'))
    else:
        os.makedirs(os.path.join(base, 'data'))
    with open(os.path.join(base, 'data', 'a.csv'), 'w') as f:
        f.write(DATA)
    s = 'year: 2025\ndata_sources:\n  - name: A\n    file: data/a.csv\n    format: "{date:%Y-%m-%d},{description},{amount}"\n'
    if sp.get('absdata'):
        os.makedirs(os.path.join(root, 'statements'))
        with open(os.path.join(root, 'statements', 'a.csv'), 'w') as f:
            f.write(DATA)
        s = s.replace('file: data/a.csv', 'file: %s' % os.path.join(root, 'statements', 'a.csv'))
    if sp['rules'] == 'rules':
        s += 'merchants_file: config/merchants.rules\n'
        with open(os.path.join(cfg, 'merchants.rules'), 'w') as f:
            f.write(RULES)
    else:
        with open(os.path.join(cfg, 'merchant_categories.csv'), 'w') as f:
            f.write(CSV)
    if sp.get('explicit_csv'):
        s += 'merchants_file: config/merchant_categories.csv\n'
    if sp.get('empty_key'):
        s += rnd_free_choice(shape, ['merchants_file:\n', 'merchants_file: \n', 'merchants_file: ~\n', 'merchants_file: null\n'])
    if sp.get('commented_key'):
        s += '# merchants_file: config/merchants.rules   (not migrated yet)\n# views_file: config/views.rules\n'
    if sp.get('views'):
        s += 'views_file: config/views.rules\n'
        with open(os.path.join(cfg, 'views.rules'), 'w') as f:
            f.write(VIEWS)
    with open(os.path.join(cfg, ALT if sp.get('altsettings') else 'settings.yaml'), 'w') as f:
        f.write(s)
    if sp.get('both_settings'):
        with open(os.path.join(cfg, 'settings.yaml'), 'w') as f:
            f.write(s)
    if sp.get('bak'):
        with open(os.path.join(cfg, 'merchant_categories.csv.bak'), 'w') as f:
            f.write('Pattern,Merchant,Category,Subcategory\nOLD,Precious Old Backup,Old,Rules\n')
    for i in range(sp.get('manybaks', 0)):
        with open(os.path.join(cfg, 'merchant_categories.csv.bak' + ('.%d' % i if i else '')), 'w') as f:
            f.write('Pattern,Merchant,Category,Subcategory\nOLD%d,Backup number %d,Old,Rules\n' % (i, i))
    if sp.get('stray') == 'norules':
        with open(os.path.join(cfg, 'merchants.rules'), 'w') as f:
            f.write(rnd_free_choice(shape, ['# work in progress\nis_large = amount > 500\nfield.description = regex_replace(field.description, "^APLPAY ", "")\n',
                                            '# my rules (one typo so far)\n[Mine]\nmatch: contains("MINE"\ncategory: Mine\n\n[Other]\nmatch: contains("OTHER")\ncategory: Other\n']))
    elif sp.get('stray'):
        with open(os.path.join(cfg, 'merchants.rules'), 'w') as f:
            f.write('# my own unreferenced rules\n[Mine]\nmatch: contains("MINE")\ncategory: Mine\n')
    if sp.get('output'):
        os.makedirs(os.path.join(base, 'output'))
        with open(os.path.join(base, 'output', 'old_report.html'), 'w') as f:
            f.write('<html>old</html>')
    return base, cfg


def rnd_free_choice(key, options):
    """Deterministic pick (shape builds must be reproducible across the recording run and every injected run)."""
    return options[int(hashlib.sha256(key.encode()).hexdigest(), 16) % len(options)]


def cmd_args(cmd, shape, root):
    sp = SHAPES[shape]
    cfg_rel = 'tally/config' if sp['layout'] == 'new' else sp.get('cfg_name', 'config')
    if cmd == 'migrate':
        return ['up', cfg_rel, '--migrate', '-q'] + (['--settings', ALT] if sp.get('altsettings') else [])
    if cmd == 'init':
        return ['init'] if sp['layout'] == 'old' else ['init', 'tally']
    if cmd in FULL_TTY:
        return ['up', cfg_rel] + (['--settings', ALT] if sp.get('altsettings') else [])
    if cmd in TTY_ANSWERS:
        return ['update']
    return ['update', '-y']


def pseudo_terminal_available():
    try:
        m, sl = pty.openpty()
    except OSError:
        return False
    os.close(m)
    os.close(sl)
    return True


def tally_at_terminal(root, args, answer, env_extra=None, timeout=180, full=False):
    """`tally <args>` with a pseudo-terminal as stdin (sys.stdin.isatty() is true, so the confirmation prompts are shown); `answer` is typed ahead.
    full=True: stdout and stderr are the terminal too (what `tally up` looks at before it offers the CSV migration)."""
    env = dict(os.environ, PYTHONPATH=core.SRC, PYTHONDONTWRITEBYTECODE='1', NO_COLOR='1', PYTHONHASHSEED='0')
    env.pop('TALLY_CONFIG', None)
    if env_extra:
        env.update(env_extra)
    master, slave = pty.openpty()
    try:
        os.write(master, answer)
        if not full:
            p = subprocess.Popen([core.PY, '-m', 'tally'] + list(args), cwd=root, env=env, stdin=slave, stdout=subprocess.PIPE, stderr=subprocess.PIPE, text=True)
            try:
                out, err = p.communicate(timeout=timeout)
            except subprocess.TimeoutExpired:
                p.kill()
                out, err = p.communicate()
            return subprocess.CompletedProcess(p.args, p.returncode, out, err)
        p = subprocess.Popen([core.PY, '-m', 'tally'] + list(args), cwd=root, env=env, stdin=slave, stdout=slave, stderr=slave)
        os.close(slave)
        slave = None
        chunks, deadline = [], time.monotonic() + timeout
        while True:
            r, _, _ = select.select([master], [], [], 1.0)
            if r:
                try:
                    b = os.read(master, 65536)
                except OSError:          # EIO: the child closed its side
                    break
                if not b:
                    break
                chunks.append(b)
            elif p.poll() is not None:
                break
            if time.monotonic() > deadline:
                p.kill()
                break
        p.wait()
        return subprocess.CompletedProcess(p.args, p.returncode, b''.join(chunks).decode('utf-8', 'replace'), '')
    finally:
        if slave is not None:
            os.close(slave)
        os.close(master)


def run_cmd(cmd, root, args, env_extra=None):
    if cmd in TTY_ANSWERS:
        return tally_at_terminal(root, args, TTY_ANSWERS[cmd], env_extra=env_extra, full=cmd in FULL_TTY)
    return B.tally(root, *args, env_extra=env_extra)


def contents(root):
    out = {}
    for dp, dn, fn in os.walk(root):
        for f in fn:
            p = os.path.join(dp, f)
            with open(p, 'rb') as fh:
                out[os.path.relpath(p, root)] = fh.read()
    return out


def csv_in_use(cfgd):
    """The legacy CSV is what the budget classifies with as long as its settings name no rules file."""
    import yaml
    try:
        for nm in ('settings.yaml', ALT):
            pth = os.path.join(cfgd, nm)
            if os.path.exists(pth):
                return not (yaml.safe_load(open(pth, encoding='utf-8')) or {}).get('merchants_file')
    except Exception:
        return False
    return False


def other_filesystem():
    try:
        return os.path.isdir(OTHER_FS) and os.access(OTHER_FS, os.W_OK) and os.stat(OTHER_FS).st_dev != os.stat(tempfile.gettempdir()).st_dev
    except OSError:
        return False


ALT = 'settings-2024.yaml'


def _classification_default(root, odd):
    p = B.tally(root, 'up', *odd, '--format', 'json', '-v', '-q')
    if p.returncode != 0:
        return {'failed': (p.stderr or p.stdout).strip().splitlines()[-1][:120] if (p.stderr or p.stdout).strip() else 'exit %d' % p.returncode}
    try:
        js = B.json_from_stdout(p.stdout)
    except Exception:
        return {'failed': 'unparsable output'}
    m = {}
    for me in js['merchants']:
        for d in (me.get('raw_descriptions') or {}):
            m[d] = [me['category'], me['subcategory']] if me['category'] != 'Unknown' else ['Unknown', 'Unknown']
    return {'map': m}


def classification(root, _both=False, extra=()):
    """`tally up` as the user would run it from the budget root (auto-detected config dir), fresh process."""
    alt = ['--settings', ALT] if (os.path.exists(os.path.join(root, 'config', ALT)) or os.path.exists(os.path.join(root, 'tally', 'config', ALT))) else []
    odd = [n for n in ODD_NAMES if os.path.isdir(os.path.join(root, n))]      # a config folder tally cannot find by itself is named on the command line
    cfgd = next((d for d in [os.path.join(root, 'config'), os.path.join(root, 'tally', 'config')] + [os.path.join(root, n) for n in ODD_NAMES] if os.path.isdir(d)), None)
    if not alt and cfgd and os.path.exists(os.path.join(cfgd, ALT)):
        alt = ['--settings', ALT]
    if _both and alt and cfgd and os.path.exists(os.path.join(cfgd, 'settings.yaml')):
        # a budget kept with two settings files is used with both: they classify alike (before, during and after a migration run with either)
        one, two = classification(root, _both=False), _classification_default(root, odd)
        if one != two:
            return {'failed': 'the two settings files of the budget classify differently', 'with settings-2024.yaml': one, 'with settings.yaml': two}
        return one
    p = B.tally(root, 'up', *odd, *alt, *extra, '--format', 'json', '-v', '-q')
    if p.returncode != 0:
        return {'failed': (p.stderr or p.stdout).strip().splitlines()[-1][:120] if (p.stderr or p.stdout).strip() else 'exit %d' % p.returncode}
    try:
        js = B.json_from_stdout(p.stdout)
    except Exception as e:
        return {'failed': 'unparsable output'}
    m = {}
    for me in js['merchants']:
        for d in (me.get('raw_descriptions') or {}):
            m[d] = [me['category'], me['subcategory']] if me['category'] != 'Unknown' else ['Unknown', 'Unknown']
    return {'map': m}


def run_injected(root, args, at, mode, log, cmd=None):
    if os.path.exists(log):
        os.unlink(log)
    env = {'VT_INJECT_LOG': log, 'VT_INJECT_ROOT': root, 'PYTHONPATH': os.pathsep.join([INJECT, core.SRC]), 'VT_INJECT_MODE': mode.split(':')[0],
           'VT_INJECT_WATCH_READS': 'merchant_categories.csv',
           'VT_INJECT_AT': str(at), 'VT_INJECT_FRAC': mode.split(':')[1] if ':' in mode else '0.5'}
    p = run_cmd(cmd, root, args, env_extra=env)
    eff = [json.loads(l) for l in open(log)] if os.path.exists(log) else []
    return p, eff


def judge_point(rec, shape, cmd, k, mode, eff_k, baseline, tmp, log):
    ctx = {}
    if _judge_point(rec, shape, cmd, k, mode, eff_k, baseline, tmp, log, ctx) == 'skip':
        return
    baseline = ctx.get('expected', baseline)       # (a rule added to the CSV in the meantime is part of the budget now)
    sp = SHAPES[shape]
    if cmd in ('migrate', 'init') and sp['rules'] == 'csv' and not sp.get('both_settings') and 'map' in baseline:
        # whatever state the budget is in now: a run that is ASKED to migrate (`tally up --migrate`) either migrates or carries on with the rules in use -
        # the report of that very run classifies as the untouched budget did
        root = os.path.join(tmp, 'run')
        o = classification(root, extra=('--migrate',))
        rec.count('migrating_rerun_reports_checked')
        if o != baseline:
            rec.violation('migrating-rerun-reports-another-classification:%s/%s' % (cmd, mode.split(':')[0]), f'{shape}: after `{cmd}` with {mode} at effect {k} ({eff_k}) and the checks '
                          f'above, `tally up --migrate` reports {o}; untouched budget: {baseline}; files: {sorted(contents(root))}',
                          {'kind': 'point', 'shape': shape, 'cmd': cmd, 'k': k, 'mode': mode, 'effect': eff_k})


def _judge_point(rec, shape, cmd, k, mode, eff_k, baseline, tmp, log, ctx):
    root = os.path.join(tmp, 'run')
    shutil.rmtree(root, ignore_errors=True)
    os.makedirs(root)
    build(root, shape)
    before = contents(root)
    args = cmd_args(cmd, shape, root)
    p, eff = run_injected(root, args, k, mode, log, cmd)
    rec.case()
    rec.count('injected_runs')
    rec.count('crash_points_visited' if mode.startswith('crash') else 'error_points_visited')
    case = {'kind': 'point', 'shape': shape, 'cmd': cmd, 'k': k, 'mode': mode, 'effect': eff_k, 'exit': p.returncode}
    touched = (eff_k.get('path') or '') + ' ' + (eff_k.get('path2') or '')
    if any(x in touched for x in ('merchant', 'settings', 'config', 'data', 'tally')) and 'output/' not in touched:
        rec.interesting([shape, cmd, k, mode])
    if mode.startswith('crash') and p.returncode != 137:
        rec.unsure(f'{shape}/{cmd}: injection k={k} {mode} did not fire (exit {p.returncode})')
        return 'skip'
    step = '%s@%s' % (eff_k['kind'], os.path.basename(eff_k.get('path') or '') or 'x')
    # (a) content preservation
    after = contents(root)
    rec.count('content_preservation_checks')
    blobs = set(after.values())
    for rel, data in before.items():
        if data in blobs:
            continue
        if (rel.endswith('settings.yaml') or rel.endswith(ALT)) and any(v.startswith(data) for v in after.values()):
            continue
        rec.violation('content-lost:%s/%s/%s' % (cmd, step, mode), f'{shape}: after {mode} at effect {k} ({eff_k}), the content of {rel} exists nowhere in the tree', case)
        return 'skip'
    # (b)/(c) classification now, and after a plain re-run of the same command
    rec.count('classification_checks')
    o1 = classification(root, _both=bool(SHAPES[shape].get('both_settings')))
    if o1 == baseline:
        rec.count('classifies_as_before_immediately')
        # an interrupted migration may have left a converted merchants.rules next to the CSV that is still in use.  The user keeps working
        # (adds a rule to the CSV) and runs the command again: whatever it does then, the rule added since is in effect afterwards.
        sp = SHAPES[shape]
        cfgd = os.path.join(root, 'tally', 'config') if sp['layout'] == 'new' else os.path.join(root, sp.get('cfg_name', 'config'))
        csvp, rulesp = os.path.join(cfgd, 'merchant_categories.csv'), os.path.join(cfgd, 'merchants.rules')
        if mode.startswith('crash') and cmd in ('migrate', 'init') and sp['rules'] == 'csv' and not sp.get('stray') and not sp.get('both_settings') and os.path.exists(csvp) and os.path.exists(rulesp) \
                and 'map' in baseline and baseline['map'].get('SOME UNKNOWN VENDOR') == ['Unknown', 'Unknown'] and csv_in_use(cfgd):
            with open(csvp, 'a') as f:
                f.write('SOME UNKNOWN,Added Later,Added,Cat,\n')
            run_cmd(cmd, root, args)
            o3 = classification(root, _both=bool(SHAPES[shape].get('both_settings')))
            want = dict(baseline['map'], **{'SOME UNKNOWN VENDOR': ['Added', 'Cat']})
            ctx['expected'] = {'map': want}
            rec.count('rule_added_between_interrupted_and_repeated_run_checks')
            if o3.get('map') != want:
                rec.violation('rule-added-after-interruption-not-in-effect:%s/%s' % (cmd, step), f'{shape}: crash at effect {k} ({eff_k}) left a converted merchants.rules beside the CSV '
                              f'in use; a rule was then added to the CSV and `tally {" ".join(args)}` run again: tally up gives {o3}, expected {want}', case)
        return
    if 'map' in o1 and 'map' in baseline and o1['map'] and all(v == ['Unknown', 'Unknown'] for v in o1['map'].values()) \
            and any(v != ['Unknown', 'Unknown'] for v in baseline['map'].values()):
        rec.violation('empty-rule-set-while-rules-on-disk:%s/%s/%s' % (cmd, step, mode),
                      f'{shape}: after {mode} at effect {k} ({eff_k}) tally up classifies every transaction as Unknown; files: {sorted(after)}', case)
        return
    rec.count('reruns')
    p2 = run_cmd(cmd, root, args)
    o2 = classification(root, _both=bool(SHAPES[shape].get('both_settings')))
    if o2 != baseline:
        rec.violation('not-recoverable-by-rerun:%s/%s/%s' % (cmd, step, mode),
                      f'{shape}: after {mode} at effect {k} ({eff_k}) tally up gives {o1}; after re-running `tally {" ".join(args)}` it gives {o2}; '
                      f'untouched budget: {baseline}; files: {sorted(contents(root))}', case)
    else:
        rec.count('recovered_by_rerun')


def points_for(effects):
    pts = []
    for e in effects:
        k = e['n']
        if e['kind'] == 'open-r':
            pts.append((k, 'error', e))          # a read changes nothing on disk: only its failure is a new situation
            continue
        pts.append((k, 'crash', e))
        if e['kind'] in ('close-w', 'close-a'):
            for frac in ('0.25', '0.5', '0.75', '0.97'):
                pts.append((k, 'crash-part:' + frac, e))
            pts.append((k, 'crash-full', e))
        pts.append((k, 'error', e))
    return pts


def run(rec, shard, nshards, t):
    core.import_tally()
    tmp = tempfile.mkdtemp(prefix='vt-c15-')
    xdirs = []
    log = os.path.join(tempfile.gettempdir(), 'vt-c15-%d.log' % os.getpid())
    try:
        pairs = QUICK if t == 'quick' else [(s, c) for s in SHAPES for c in COMMANDS if c in SHAPES[s].get('only', COMMANDS)] + [
            (s, c) for s in SHAPES for c in TTY_ANSWERS if c not in FULL_TTY and 'update' in SHAPES[s].get('only', COMMANDS) and SHAPES[s]['layout'] == 'old'] + [
            (s, c) for s in SHAPES for c in FULL_TTY if 'migrate' in SHAPES[s].get('only', COMMANDS) and SHAPES[s]['rules'] == 'csv' and not SHAPES[s].get('cfg_name')] + [(s, c, 'other-filesystem') for s in ('csv-old', 'csv-new', 'csv-old-views')
                                                                                             for c in ('migrate', 'init')]
        idx = 0
        tmp_home = tmp
        have_pty = pseudo_terminal_available()
        tty_pairs = tty_prompts = 0
        for item in pairs:
            shape, cmd = item[:2]
            tmp = tmp_home
            if cmd in TTY_ANSWERS and not have_pty:
                rec.count('pseudo_terminal_unavailable')
                continue
            if len(item) > 2:
                # the budget on another file system than the temp directory: a "rename" from the temp directory degrades to copy + delete
                if not other_filesystem():
                    rec.count('other_filesystem_unavailable')
                    continue
                tmp = tempfile.mkdtemp(prefix='vt-c15x-', dir=OTHER_FS)
                xdirs.append(tmp)
                rec.count('other_filesystem_pairs')
            # baseline + recording run (every shard repeats them: cheap, and it keeps shards independent)
            root = os.path.join(tmp, 'base')
            shutil.rmtree(root, ignore_errors=True)
            os.makedirs(root)
            build(root, shape)
            baseline = classification(root, _both=bool(SHAPES[shape].get('both_settings')))
            shutil.rmtree(os.path.join(root, 'output'), ignore_errors=True) if not SHAPES[shape].get('output') else None
            root2 = os.path.join(tmp, 'rec')
            shutil.rmtree(root2, ignore_errors=True)
            os.makedirs(root2)
            build(root2, shape)
            before2 = contents(root2) if cmd in TTY_ANSWERS else None
            p, effects = run_injected(root2, cmd_args(cmd, shape, root2), 0, 'record', log, cmd)
            rec.count('recording_runs')
            if cmd in TTY_ANSWERS and shard == 0:
                # the prompt was really shown (otherwise this pair observed the silent non-interactive skip, not the terminal path)
                tty_pairs += 1
                if ('Migrate to new format?' if cmd in FULL_TTY else 'Migrate to new layout?') not in (p.stdout or ''):
                    # some budgets are legitimately not offered a migration (e.g. the settings name the CSV themselves): counted, and inconclusive only if NO pair saw a prompt
                    rec.count('terminal_prompt_not_shown')
                    rec.sample({'shape': shape, 'command': cmd, 'prompt_not_shown': (p.stdout or '')[-200:]})
                else:
                    rec.count('terminal_prompts_answered')
                    tty_prompts += 1
                    declined = cmd in ('update-tty-n', 'update-tty-eof', 'migrate-tty-n', 'migrate-tty-enter')
                    rec.count('terminal_migrations_declined' if declined else 'terminal_migrations_confirmed')
                    # (a declined `tally up` still writes its report: output/ is not part of the comparison there)
                    now2 = {r: v for r, v in contents(root2).items() if not (cmd in FULL_TTY and (r.startswith('output' + os.sep) or (os.sep + 'output' + os.sep) in r))}
                    before2 = {r: v for r, v in before2.items() if not (cmd in FULL_TTY and (r.startswith('output' + os.sep) or (os.sep + 'output' + os.sep) in r))}
                    if declined and now2 != before2:
                        rec.violation('declined-migration-changes-the-budget:' + cmd, f'{shape}: the user answered {TTY_ANSWERS[cmd]!r} at the prompt; the tree changed: '
                                      f'{sorted(k for k in set(now2) | set(before2) if now2.get(k) != before2.get(k))}', {'kind': 'point', 'shape': shape, 'cmd': cmd, 'k': 0, 'mode': 'record'})
            if shard == 0:
                rec.count('effects_in_sequences', len(effects))
                rec.sample({'shape': shape, 'command': cmd, 'effects': ['%d %s %s%s' % (e['n'], e['kind'], e['path'], ' -> ' + e['path2'] if e.get('path2') else '') for e in effects]})
                # the un-faulted run itself must leave the budget classifying as before
                o = classification(root2, _both=bool(SHAPES[shape].get('both_settings')))
                rec.case()
                if o != baseline:
                    rec.violation('unfaulted-run-changes-classification:' + cmd, f'{shape}: after a normal `{cmd}` tally up gives {o}, before {baseline}',
                                  {'kind': 'point', 'shape': shape, 'cmd': cmd, 'k': 0, 'mode': 'record'})
            for k, mode, e in points_for(effects):
                idx += 1
                if idx % nshards != shard:
                    continue
                judge_point(rec, shape, cmd, k, mode, e, baseline, tmp, log)
        if tty_pairs and not tty_prompts:
            rec.unsure(f'none of the {tty_pairs} terminal-driven runs showed a confirmation prompt: the terminal path was not observed')
    finally:
        shutil.rmtree(tmp_home if 'tmp_home' in dir() else tmp, ignore_errors=True)
        for d in xdirs:
            shutil.rmtree(d, ignore_errors=True)
        if os.path.exists(log):
            os.unlink(log)


def replay(rec, case):
    core.import_tally()
    tmp = tempfile.mkdtemp(prefix='vt-c15-')
    log = os.path.join(tempfile.gettempdir(), 'vt-c15-%d.log' % os.getpid())
    try:
        root = os.path.join(tmp, 'base')
        os.makedirs(root)
        build(root, case['shape'])
        baseline = classification(root, _both=bool(SHAPES[case['shape']].get('both_settings')))
        judge_point(rec, case['shape'], case['cmd'], case['k'], case['mode'], case.get('effect') or {'kind': '?', 'path': ''}, baseline, tmp, log)
    finally:
        shutil.rmtree(tmp, ignore_errors=True)
        if os.path.exists(log):
            os.unlink(log)

"""C06 - totals conserve money: each transaction is counted once, in exactly one bucket.

Monitors on analyze_transactions (the real function, called on generated transaction lists):
  * exact-arithmetic (Fraction) money model: six buckets, cash_flow, transfers_net, count
  * conservation: sum of buckets == sum |amount|; sums of by_merchant / by_category / by_month agree, counts agree
  * per-group figures vs model (which transaction belongs to which group)
  * metamorphic: permutations and partitions ("split across data sources") leave every figure unchanged
  * exhaustive enumeration of the finite bucket function (tag subsets x letter cases x sign/zero)
"""
import itertools
import os
from collections import defaultdict
from datetime import datetime
from fractions import Fraction

from vt import core

SPEC = {
    'level': 'exploration',
    'shards': {'quick': 4, 'thorough': 16},
    'rule': ('random transaction lists (1-60 txns; amounts with <=2 decimals incl. 0, +-0.01, large, plus arbitrary floats; '
             'tags drawn from special tags in random letter case mixed with ordinary tags; merchants/categories/months from '
             'small pools so that groups collide), each analysed as given, under 3-6 permutations and 2-4 partitions; plus the '
             'complete grid of the bucket function. Non-trivial = list with >=2 distinct buckets hit and a merchant or month '
             'shared by >=2 transactions; distinct by digest of the list'),
    'exhaustive': {'quick': False, 'thorough': False},
    'required_counters': ['analyze_calls', 'bucket_model_checks', 'permutation_checks', 'partition_checks', 'grid_cells', 'cli_partition_checks', 'repeated_analysis_checks'],
    'assumptions': ['amounts are finite floats (non-finite amounts are kept out by the parser, property C05)',
                    'order independence is asserted up to float rounding: tolerance 1e-9*(1+sum|amount|)'],
}

SPECIAL = ['income', 'investment', 'transfer']
ORD = ['groceries', 'recurring', 'Business', 'refund', 'incomes', 'transfers', ' income', 'invest', 'café']
MERCH = ['Netflix', 'Costco', 'Uber', 'Venmo', 'Payroll', 'Fidelity', 'Shell', "Joe's Diner", 'Joes Diner', 'A B', 'A_B']
CATS = [('Food', 'Grocery'), ('Food', 'Restaurant'), ('Bills', 'Rent'), ('Income', 'Salary'), ('Finance', 'Transfer'),
        ('Unknown', 'Unknown'), ('Shopping', ''), ('Travel', 'Air')]


def casey(rnd, s):
    m = rnd.randint(0, 3)
    if m == 0:
        return s
    if m == 1:
        return s.upper()
    if m == 2:
        return s.title()
    return ''.join(c.upper() if rnd.random() < .5 else c for c in s)


def gen_amount(rnd):
    k = rnd.randint(0, 11)
    if k == 0:
        return rnd.choice([0.0, 0.01, -0.01, 0.005, -0.005, 1e-9])
    if k == 1:
        return rnd.choice([1e9, -1e9, 123456789.12, -99999999.99])
    if k == 2:
        return rnd.uniform(-5000, 5000)
    if k == 3:
        return float(rnd.randint(-500, 500))
    return round(rnd.uniform(-3000, 3000), 2)


def gen_tags(rnd):
    k = rnd.randint(0, 9)
    if k <= 2:
        return []
    tags = []
    for _ in range(rnd.randint(1, 4)):
        if rnd.random() < .55:
            tags.append(casey(rnd, rnd.choice(SPECIAL)))
        else:
            tags.append(rnd.choice(ORD))
    return tags


def gen_list(rnd, n):
    months = [(2024, 11), (2024, 12), (2025, 1), (2025, 2), (2025, 12), (2023, 1)]
    merch = rnd.sample(MERCH, rnd.randint(1, 5))
    out = []
    for i in range(n):
        y, mo = rnd.choice(months)
        cat, sub = rnd.choice(CATS)
        t = {'amount': gen_amount(rnd), 'tags': gen_tags(rnd), 'merchant': rnd.choice(merch), 'category': cat,
             'subcategory': sub, 'date': datetime(y, mo, rnd.randint(1, 28)), 'description': f'D{i}',
             'raw_description': f'RAW {i % 7}', 'source': rnd.choice(['Amex', 'Chase'])}
        if rnd.random() < .08:
            # the caller cleared (or never set) the transaction's own tags; the rule that matched it lists special tags in match_info: the BUCKET follows the
            # transaction's tags and its sign, nothing else
            t['match_info'] = {'pattern': 'p', 'source': 'user', 'tags': [rnd.choice(['income', 'Transfer', 'investment'])], 'tag_sources': {}}
            if rnd.random() < .5:
                del t['tags']
            else:
                t['tags'] = []
        elif rnd.random() < .1:
            del t['tags']
        elif rnd.random() < .4:
            # as the statement readers build it: the transaction's tag list IS the list inside its match_info (one object, two names)
            t['match_info'] = {'pattern': 'p', 'source': 'user', 'tags': t['tags'], 'tag_sources': {}}
        out.append(t)
    return out


def to_case(lst):
    return [dict(t, date=t['date'].isoformat()) for t in lst]


def from_case(lst):
    return [dict(t, date=datetime.fromisoformat(t['date'])) for t in lst]


def bucket_of(amount, tags):
    tl = {t.lower() for t in (tags or [])}
    if 'income' in tl:
        return 'income'
    if 'investment' in tl:
        return 'investment'
    if 'transfer' in tl:
        return 'transfer_in' if amount > 0 else 'transfer_out'
    return 'spending' if amount > 0 else 'credits'


def effective(amount, tags):
    tl = {t.lower() for t in (tags or [])}
    return abs(amount) if ('income' in tl or 'investment' in tl) else amount


def model(lst):
    F = Fraction
    b = defaultdict(F)
    gm, gc, gmo = defaultdict(F), defaultdict(F), defaultdict(F)
    cm, cc = defaultdict(int), defaultdict(int)
    for t in lst:
        tags = t.get('tags', [])
        a = F(t['amount'])
        b[bucket_of(t['amount'], tags)] += abs(a)
        e = F(effective(t['amount'], tags))
        gm[t['merchant']] += e
        cm[t['merchant']] += 1
        key = (t['category'], t['subcategory'])
        gc[key] += e
        cc[key] += 1
        gmo[t['date'].strftime('%Y-%m')] += e
    return b, gm, gc, gmo, cm, cc


STATKEY = {'income': 'income_total', 'investment': 'investment_total', 'transfer_in': 'transfers_in',
           'transfer_out': 'transfers_out', 'spending': 'spending_total', 'credits': 'credits_total'}


def figures(stats):
    f = {k: stats[k] for k in ('income_total', 'investment_total', 'transfers_in', 'transfers_out', 'spending_total',
                               'credits_total', 'cash_flow', 'transfers_net', 'count')}
    for m, d in stats['by_merchant'].items():
        f['m:' + m] = d['total']
        f['mc:' + m] = d['count']
    for k, d in stats['by_category'].items():
        f['c:%s/%s' % k] = d['total']
        f['cc:%s/%s' % k] = d['count']
    for k, v in stats['by_month'].items():
        f['mo:' + k] = v
    return f


def close(a, b, tol):
    return abs(float(a) - float(b)) <= tol


def judge(rec, lst, rnd, perms=3, parts=2):
    from tally.analyzer import analyze_transactions
    import copy
    tol = 1e-9 * (1 + sum(abs(t['amount']) for t in lst))
    case = {'kind': 'list', 'txns': to_case(lst)}
    stats = analyze_transactions(copy.deepcopy(lst))
    rec.count('analyze_calls')
    b, gm, gc, gmo, cm, cc = model(lst)
    # 0. analysing is a pure reading of the list: the same OBJECTS analysed a second time (another order) give the same figures, and are unchanged
    live = copy.deepcopy(lst)
    snap = repr([(t.get('tags'), t['amount']) for t in live])
    f1 = figures(analyze_transactions(live))
    live_rev = list(reversed(live))
    f2 = figures(analyze_transactions(live_rev))
    rec.count('repeated_analysis_checks')
    if repr([(t.get('tags'), t['amount']) for t in live]) != snap:
        rec.violation('analysis-mutates-transactions', 'analyze_transactions changed the tags / amounts of the transactions it was given', case)
    else:
        bad0 = [kk for kk in set(f1) | set(f2) if kk not in f1 or kk not in f2 or not close(f1[kk], f2[kk], tol * 4)]
        if bad0:
            rec.violation('repeated-analysis-differs', f'figures {sorted(bad0)[:5]} differ between two analyses of the same transaction objects', case)
    # 1. buckets vs model
    rec.count('bucket_model_checks')
    for name, sk in STATKEY.items():
        if not close(stats[sk], b[name], tol):
            rec.violation('bucket-total:' + name, f'{sk}={stats[sk]!r} model={float(b[name])!r}', case)
    if not close(stats['cash_flow'], b['income'] - b['spending'] + b['credits'], tol):
        rec.violation('cash-flow-formula', f"cash_flow={stats['cash_flow']!r}", case)
    if not close(stats['transfers_net'], b['transfer_in'] - b['transfer_out'], tol):
        rec.violation('transfers-net-formula', f"transfers_net={stats['transfers_net']!r}", case)
    if stats['count'] != len(lst):
        rec.violation('count', f"count={stats['count']} len={len(lst)}", case)
    # 2. conservation
    six = sum(stats[sk] for sk in STATKEY.values())
    if not close(six, sum(abs(Fraction(t['amount'])) for t in lst), tol):
        rec.violation('conservation-sum-abs', f'sum of buckets {six!r} != sum |amount|', case)
    sm = sum(d['total'] for d in stats['by_merchant'].values())
    sc = sum(d['total'] for d in stats['by_category'].values())
    smo = sum(stats['by_month'].values())
    if not (close(sm, sc, tol) and close(sc, smo, tol)):
        rec.violation('grouping-sums-disagree', f'by_merchant={sm!r} by_category={sc!r} by_month={smo!r}', case)
    nm = sum(d['count'] for d in stats['by_merchant'].values())
    nc = sum(d['count'] for d in stats['by_category'].values())
    if not (nm == nc == len(lst)):
        rec.violation('grouping-counts-disagree', f'merchant counts={nm} category counts={nc} n={len(lst)}', case)
    # 3. per-group vs model
    rec.count('group_model_checks')
    for m, v in gm.items():
        d = stats['by_merchant'].get(m)
        if d is None or not close(d['total'], v, tol) or d['count'] != cm[m]:
            rec.violation('merchant-group', f'merchant {m!r}: impl {d and (d["total"], d["count"])} model {(float(v), cm[m])}', case)
    if set(stats['by_merchant']) != set(gm):
        rec.violation('merchant-group', 'merchant key set differs', case)
    # the per-merchant payment list (what the report page, the per-category breakdown and the views are computed from) holds EVERY payment that is in the count
    for m, d in stats['by_merchant'].items():
        if 'transactions' in d and len(d['transactions']) != d['count']:
            rec.violation('merchant-payment-list-incomplete', f'merchant {m!r}: count {d["count"]}, {len(d["transactions"])} payments in its list', case)
            break
    for k, v in gc.items():
        d = stats['by_category'].get(k)
        if d is None or not close(d['total'], v, tol) or d['count'] != cc[k]:
            rec.violation('category-group', f'category {k!r}: impl {d} model {(float(v), cc[k])}', case)
    for k, v in gmo.items():
        if k not in stats['by_month'] or not close(stats['by_month'][k], v, tol):
            rec.violation('month-group', f'month {k}: impl {stats["by_month"].get(k)!r} model {float(v)!r}', case)
    if set(stats['by_month']) != set(gmo):
        rec.violation('month-group', 'month key set differs', case)
    base = figures(stats)
    # 4. permutations
    for _ in range(perms):
        p = lst[:]
        rnd.shuffle(p)
        f2 = figures(analyze_transactions(copy.deepcopy(p)))
        rec.count('analyze_calls')
        rec.count('permutation_checks')
        bad = [k for k in set(base) | set(f2) if k not in base or k not in f2 or not close(base[k], f2[k], tol)]
        if bad:
            rec.violation('order-dependence', f'figures {sorted(bad)[:5]} change under a permutation',
                          {'kind': 'perm', 'txns': to_case(lst), 'perm': to_case(p)})
            break
    # 5. partitions
    for _ in range(parts):
        k = rnd.randint(2, 4)
        groups = [[] for _ in range(k)]
        for t in lst:
            groups[rnd.randrange(k)].append(t)
        acc = defaultdict(float)
        for g in groups:
            if not g:
                continue
            for kk, v in figures(analyze_transactions(copy.deepcopy(g))).items():
                acc[kk] += v
            rec.count('analyze_calls')
        rec.count('partition_checks')
        bad = [kk for kk in set(base) | set(acc) if kk not in base or kk not in acc or not close(base[kk], acc[kk], tol * 4)]
        if bad:
            rec.violation('partition-dependence', f'figures {sorted(bad)[:5]} change when the list is split into {k} sources',
                          {'kind': 'list', 'txns': to_case(lst)})
            break
    return b


def grid(rec):
    """Complete enumeration of the bucket function."""
    from tally.classification import categorize_amount, normalize_amount
    from tally.analyzer import analyze_transactions
    spell = lambda s: [s, s.upper(), s.title(), s[0] + s[1:].upper()]
    amounts = [-1234.56, -0.01, -0.0, 0.0, 0.01, 77.0]
    n = 0
    for r in range(0, 4):
        for sub in itertools.combinations(SPECIAL, r):
            for order in itertools.permutations(sub):
                for combo in itertools.product(*[spell(x) for x in order]):
                    for extra in ([], ['misc'], ['incomes', 'Transfers ']):
                        tags = list(combo) + extra
                        for a in amounts:
                            n += 1
                            want = bucket_of(a, tags)
                            got = categorize_amount(a, tags)
                            nz = {k: v for k, v in got.items() if v != 0}
                            ok = (set(got) == set(STATKEY)) and (nz == ({want: abs(a)} if a != 0 else {}))
                            if not ok:
                                rec.violation('bucket-function', f'categorize_amount({a}, {tags}) = {got}, expected only {want}={abs(a)}',
                                              {'kind': 'cell', 'a': a, 'tags': tags})
                            if normalize_amount(a, tags) != effective(a, tags):
                                rec.violation('effective-amount', f'normalize_amount({a}, {tags}) = {normalize_amount(a, tags)}',
                                              {'kind': 'cell', 'a': a, 'tags': tags})
                            st = analyze_transactions([{'amount': a, 'tags': tags, 'merchant': 'M', 'category': 'C', 'subcategory': 'S',
                                                        'date': datetime(2025, 1, 2), 'description': 'd', 'source': 's'}])
                            if a != 0 and abs(st[STATKEY[want]] - abs(a)) > 1e-12:
                                rec.violation('bucket-function', f'analyze_transactions single txn {a} {tags}: {STATKEY[want]}={st[STATKEY[want]]}',
                                              {'kind': 'cell', 'a': a, 'tags': tags})
                            rec.interesting(['cell', a, tags])
    rec.count('grid_cells', n)
    rec.case(n)


HASHSEED_CHILD = """
import json, sys
sys.path.insert(0, sys.argv[1])
from tally.classification import categorize_amount, normalize_amount
from tally.analyzer import analyze_transactions
from datetime import datetime
tagsets = [['income', 'transfer'], ['transfer', 'income'], ['investment', 'transfer'], ['transfer', 'investment'], ['income', 'investment'], ['investment', 'income', 'transfer'],
           ['Transfer', 'INCOME', 'x'], ['refund', 'investment', 'Income']]
out = []
for tags in tagsets:
    for a in (1234.56, -1234.56):
        st = analyze_transactions([{'amount': a, 'tags': list(tags), 'merchant': 'M', 'category': 'C', 'subcategory': 'S', 'date': datetime(2025, 1, 2), 'description': 'd', 'source': 's'}])
        out.append([tags, a, categorize_amount(a, tags), normalize_amount(a, tags), {k: st[k] for k in sorted(st) if k.endswith('_total') or k.startswith('transfers_')}])
print(json.dumps(out, sort_keys=True))
"""


def hashseed_probe(rec):
    """Every process hashes strings differently (PYTHONHASHSEED): the bucket of a transaction that carries two special tags is the same in all of them."""
    import subprocess
    outs = {}
    for seed in range(8):
        p = subprocess.run([core.PY, '-c', HASHSEED_CHILD, core.SRC], capture_output=True, text=True, env=dict(os.environ, PYTHONHASHSEED=str(seed)), timeout=120)
        outs[seed] = p.stdout.strip() if p.returncode == 0 else 'exit %d: %s' % (p.returncode, p.stderr[-200:])
        rec.count('bucket_tables_computed_under_another_hash_seed')
    rec.case()
    if len(set(outs.values())) != 1 or not outs[0].startswith('['):
        a = outs[0]
        other = next(s_ for s_ in outs if outs[s_] != a)
        import json as _json
        try:
            diff = [(x, y) for x, y in zip(_json.loads(a), _json.loads(outs[other])) if x != y][:1]
        except Exception:
            diff = [a[:200], outs[other][:200]]
        rec.violation('bucket-depends-on-the-process-hash-seed', f'PYTHONHASHSEED=0 vs {other}: {str(diff)[:500]}', {'kind': 'hashseed'})


def cli_partition(rec, rnd, tmp, k):
    """`tally up` on the same statement rows kept in ONE source versus split over several sources (in another order, with an unreadable or
    missing source in between): the figures of the JSON report must not depend on the split."""
    import json as _json
    import os
    import shutil
    from vt import budget as B
    words = ['NETFLIX', 'PAYROLL ACME', 'VENMO', 'FIDELITY 401K', 'COSTCO', 'RENT', 'UBER']
    rows = []
    for i in range(rnd.randint(3, 14)):
        rows.append('%04d-%02d-%02d,%s %d,%.2f' % (rnd.choice([2024, 2025]), rnd.randint(1, 12), rnd.randint(1, 28), rnd.choice(words), i % 3,
                                                 rnd.choice([1, 1, 1, -1]) * rnd.choice([5, 12.5, 99.99, 1234.56, 0.01, 250])))
    if rnd.random() < .5:
        # the same purchase made twice on one day (two coffees, two fares): identical lines are two transactions wherever the split puts them
        for r in rnd.sample(rows, min(len(rows), rnd.randint(1, 3))):
            rows += [r] * rnd.randint(1, 2)
        rnd.shuffle(rows)
        rec.count('cli_partitions_with_identical_rows')
    if rnd.random() < .4:
        a = rnd.choice([500.0, 120.5])
        rows += ['2025-03-01,CHASE AUTOPAY,%.2f' % a, '2025-03-02,CHASE AUTOPAY,%.2f' % -a, '2025-03-03,CHASE ANNUAL FEE,95.00']
    rules = ('[Chase pay]\nmatch: contains("CHASE AUTOPAY")\nmerchant: Chase\ncategory: Transfers\nsubcategory: Card\ntags: transfer\n\n'
             '[Chase fee]\nmatch: contains("CHASE ANNUAL")\nmerchant: Chase\ncategory: Fees\nsubcategory: Card\n\n'
             '[Pay]\nmatch: contains("PAYROLL")\ncategory: Income\nsubcategory: Salary\ntags: income\n\n[Venmo]\nmatch: contains("VENMO")\ncategory: Transfers\n'
             'subcategory: P2P\ntags: Transfer\n\n[Fid]\nmatch: contains("FIDELITY")\ncategory: Savings\nsubcategory: 401k\ntags: investment\n\n'
             '[Netflix]\nmatch: contains("NETFLIX")\ncategory: Subs\nsubcategory: Video\n\n[Big]\nmatch: amount > 1000\ntags: large\n')
    nparts = rnd.randint(2, 4)
    parts = [[] for _ in range(nparts)]
    for r in rows:
        parts[rnd.randrange(nparts)].append(r)
    # every file also writes dates its own way (stated in its own format string); two files may spell DIFFERENT days identically (04/03/2025)
    dconvs = [rnd.choice(['iso', 'iso', 'dmy', 'mdy']) for _ in range(nparts)]
    if rnd.random() < .5:
        dconvs[0], dconvs[1] = rnd.sample(['dmy', 'mdy'], 2)
        amb = ['2025-03-04,NETFLIX 0,12.50', '2025-04-03,COSTCO 1,99.99', '2025-01-12,UBER 2,20.00', '2025-12-01,UBER 2,21.00']
        rows += amb
        for r in amb:
            iso = r.split(',')[0]
            parts[0 if (dconvs[0] == 'dmy') == (iso in ('2025-03-04', '2025-01-12')) else 1].append(r)
        rec.count('cli_partitions_with_identically_spelled_different_days')
    dfmt = {'iso': '%Y-%m-%d', 'dmy': '%d/%m/%Y', 'mdy': '%m/%d/%Y'}
    fault_at = rnd.randrange(nparts + 1)
    fault = rnd.choice(['missing', 'invalid-utf8', 'none'])
    # every file of the split keeps the same format string but its own conventions (delimiter, header line, sign), stated in its source entry
    convs = [rnd.choice(['plain', 'plain', 'semi', 'nohdr', 'neg']) for _ in range(nparts)]
    same_name = rnd.random() < .3          # yearly files of one account, all listed under the account's name
    results = {}
    for variant in ('one', 'split'):
        root = os.path.join(tmp, 'p%d-%s' % (k, variant))
        os.makedirs(os.path.join(root, 'config'))
        os.makedirs(os.path.join(root, 'data'))
        srcs = []
        if variant == 'one':
            with open(os.path.join(root, 'data', 'all.csv'), 'w') as f:
                f.write('Date,Description,Amount\n' + '\n'.join(rows) + '\n')
            srcs.append(('All', 'data/all.csv', '', '%Y-%m-%d'))
        else:
            for j, prt in enumerate(parts):
                if j == fault_at and fault != 'none':
                    srcs.append(('Broken', 'data/broken.csv', '', '%Y-%m-%d'))
                conv = convs[j]
                lines = list(prt)
                if dconvs[j] != 'iso':
                    lines = [','.join([datetime.strptime(l.split(',')[0], '%Y-%m-%d').strftime(dfmt[dconvs[j]])] + l.split(',')[1:]) for l in lines]
                if conv == 'neg':           # this file writes charges as negatives; its source entry says negate_amount: true
                    lines = [','.join(l.split(',')[:2] + ['%.2f' % -float(l.split(',')[2])]) for l in lines]
                if conv == 'semi':
                    lines = [l.replace(',', ';') for l in lines]
                hdr = '' if conv == 'nohdr' else ('Date;Description;Amount\n' if conv == 'semi' else 'Date,Description,Amount\n')
                with open(os.path.join(root, 'data', 's%d.csv' % j), 'w') as f:
                    f.write(hdr + '\n'.join(lines) + ('\n' if lines else ''))
                srcs.append(('Checking' if same_name else 'S%d' % j, 'data/s%d.csv' % j, {'plain': '', 'semi': '    delimiter: ";"\n', 'nohdr': '    has_header: false\n',
                                                             'neg': '    negate_amount: true\n'}[conv], dfmt[dconvs[j]]))
            if fault_at == nparts and fault != 'none':
                srcs.append(('Broken', 'data/broken.csv', '', '%Y-%m-%d'))
            if fault == 'invalid-utf8':
                with open(os.path.join(root, 'data', 'broken.csv'), 'wb') as f:
                    f.write(b'Date,Description,Amount\n2025-01-01,caf\xe9 \xff,5.00\n')
        with open(os.path.join(root, 'config', 'settings.yaml'), 'w') as f:
            f.write('year: 2025\nmerchants_file: config/merchants.rules\ndata_sources:\n' + ''.join(
                '  - name: %s\n    file: %s\n    format: "{date:%s},{description},{amount}"\n%s' % (s_[0], s_[1], s_[3], s_[2]) for s_ in srcs))
        with open(os.path.join(root, 'config', 'merchants.rules'), 'w') as f:
            f.write(rules)
        p = B.tally(root, 'up', os.path.join(root, 'config'), '--format', 'json', '-q')
        rec.count('cli_runs')
        if p.returncode != 0:
            results[variant] = ('exit', p.returncode, (p.stderr or p.stdout)[-200:])
        else:
            try:
                js = B.json_from_stdout(p.stdout)
                results[variant] = ('ok', dict({kk: v for kk, v in js.get('summary', {}).items()}, **{'mo:' + mk: mv.get('total') for mk, mv in (js.get('by_month') or {}).items()}),
                                    sorted((m['name'], round(m['total'], 2), m['count']) for m in js.get('merchants', [])))   # (the category LABEL of a merchant fed by two rules is not a figure)
            except Exception as e:
                results[variant] = ('unparsable', str(e)[:100])
            if variant == 'split' and results[variant][0] == 'ok' and results[variant][2]:
                # the per-merchant figures `tally explain <merchant>` gives for the split budget cover ALL its sources, like the report's
                name, tot, cnt = rnd.choice(results[variant][2])
                pe = B.tally(root, 'explain', name, os.path.join(root, 'config'), '--format', 'json')
                rec.count('cli_runs')
                try:
                    ej = _json.loads(pe.stdout[pe.stdout.index('{'):])
                    rec.count('explain_figures_on_split_budgets')
                    if ej.get('name') == name and (abs(ej.get('total', 0) - tot) > 0.011 or ej.get('count') != cnt):
                        results['explain'] = (name, ej.get('total'), ej.get('count'), tot, cnt)
                except Exception:
                    pass
        shutil.rmtree(root, ignore_errors=True)
    rec.count('cli_partition_checks')
    case = {'kind': 'cli-partition', 'rows': rows, 'parts': parts, 'fault': fault, 'fault_at': fault_at, 'conventions': convs, 'date_conventions': dconvs, 'same_name': same_name}
    a, b = results['one'], results['split']
    if 'explain' in results:
        x = results['explain']
        rec.violation('explain-figures-cover-only-some-sources', f'{nparts} sources: tally explain {x[0]!r} reports total {x[1]} / count {x[2]}, the report of the same budget {x[3]} / {x[4]}', case)
    if a[0] != 'ok':
        return
    # the summary's income and net-transfer figures against the bucket model of the rows themselves
    amt = lambda r: float(r.rsplit(',', 1)[1])
    desc = lambda r: r.split(',')[1]
    want_inc = sum(abs(amt(r)) for r in rows if 'PAYROLL' in desc(r))
    want_tr = abs(sum(amt(r) for r in rows if ('VENMO' in desc(r) or 'CHASE AUTOPAY' in desc(r))))
    rec.count('cli_summary_vs_model_checks')
    for key, want in (('income_total', want_inc), ('transfers_total', want_tr)):
        if key in a[1] and abs(a[1][key] - want) > 0.011:
            rec.violation('cli-summary-figure-differs:' + key, f'{key}={a[1][key]} in the JSON summary, the rows give {want:.2f}', case)
    if b[0] != 'ok':
        rec.violation('cli-partition:split-run-fails', f'all rows in one source: ok; split over {nparts} sources with a {fault} source: {b}', case)
        return
    diff = [kk for kk in set(a[1]) | set(b[1]) if not (isinstance(a[1].get(kk), (int, float)) and isinstance(b[1].get(kk), (int, float))
                                                       and abs(a[1][kk] - b[1][kk]) <= 0.011) and a[1].get(kk) != b[1].get(kk)]
    if diff or a[2] != b[2]:
        rec.violation('cli-partition-dependence', f'figures {diff or "per-merchant"} differ between one source and {nparts} sources (fault {fault} at {fault_at}): '
                      f'{ {kk: (a[1].get(kk), b[1].get(kk)) for kk in diff} } merchants {[x for x in a[2] if x not in b[2]][:2]} vs {[x for x in b[2] if x not in a[2]][:2]}', case)
    rec.interesting(['cli', len(rows), nparts, fault, fault_at])


def run(rec, shard, nshards, t):
    core.import_tally()
    rnd = core.rng_for('C06', shard)
    import shutil
    import tempfile
    tmp = tempfile.mkdtemp(prefix='vt-c06-')
    try:
        for k in range(max(1, (16 if t == 'quick' else 400) // nshards)):
            rec.case()
            cli_partition(rec, rnd, tmp, k)
    finally:
        shutil.rmtree(tmp, ignore_errors=True)
    if shard == 0:
        grid(rec)
        hashseed_probe(rec)
        if t != 'quick':
            core.repo_tests_with_monitors(rec, 'C06')
    if shard == 0:
        # one merchant with very many payments (a transit card, a coffee habit over several years) among ordinary ones
        big = gen_list(rnd, 40)
        for i in range(1300):
            big.append(dict(big[i % 40], merchant=big[0]['merchant'], category=big[0]['category'], subcategory=big[0]['subcategory'], amount=round(2.5 + (i % 7) * 0.25, 2)))
        rec.case()
        judge(rec, big, rnd, perms=1, parts=1)
        rec.count('lists_with_a_merchant_of_over_a_thousand_payments')
    total = 4000 if t == 'quick' else 100000
    n = total // nshards
    for i in range(n):
        size = rnd.choice([1, 2, 3, 5, 8, 13, 21, 34, 60]) if rnd.random() < .5 else rnd.randint(1, 60)
        lst = gen_list(rnd, size)
        rec.case()
        b = judge(rec, lst, rnd, perms=3 if t == 'quick' else 4, parts=2)
        hit = sum(1 for v in b.values() if v != 0)
        rec.count('buckets_hit_%d' % hit)
        merch = [x['merchant'] for x in lst]
        if hit >= 2 and len(set(merch)) < len(merch):
            rec.interesting(to_case(lst))
        if i < 2 and shard == 0:
            rec.sample(to_case(lst)[:4])


def replay(rec, case):
    core.import_tally()
    rnd = core.rng_for('C06', 'replay')
    if case['kind'] == 'hashseed':
        hashseed_probe(rec)
        return
    if case['kind'] == 'cell':
        grid(rec)
    elif case['kind'] == 'cli-partition':
        import shutil
        import tempfile
        tmp = tempfile.mkdtemp(prefix='vt-c06-')
        try:
            for k in range(12):
                cli_partition(rec, rnd, tmp, k)
        finally:
            shutil.rmtree(tmp, ignore_errors=True)
    else:
        judge(rec, from_case(case['txns']), rnd, perms=6, parts=4)

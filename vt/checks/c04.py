"""C04 - expressions mean what the reference says.

Monitors, all on the real evaluate_transaction / matches_transaction / single-rule MerchantEngine:
  1. reference interpreter (vt.lang.Ref, written from the documentation) compared value-by-value;
  2. equivalence laws, implementation vs implementation: double negation, De Morgan, operand swap of error-free
     and/or, chain vs conjunction, IfExp vs Boolean encoding, letter case of ASCII text / names;
  3. short-circuit made observable by planting an erroring operand on the side that must not be evaluated;
  4. cache-confusion probes: variants of an expression differing only in letter case of case-sensitive literals or in
     trailing blanks are each compared with the (cache-free) reference.
Exhaustive for the core grammar up to 4 (quick) / 5 (thorough) AST nodes on a boundary transaction set; random above.
"""
import ast
import re
from datetime import date

from vt import core, lang

SPEC = {
    'level': 'exploration',
    'shards': {'quick': 8, 'thorough': 16},
    'rule': ('well-typed expressions from a typed grammar over the documented language (match/extraction/transform functions, '
             'comparisons incl. dates vs ISO strings, arithmetic with zero guards, if-else, comprehensions/generators/any/all/sum/'
             'len/next/min/max/subscripts/:= over two supplemental row sets, user variables, field.*, txn.*): complete enumeration '
             'of the core grammar up to 4 (quick) / 5 (thorough) AST nodes x boundary transactions, random to depth 5 x 8 '
             'transactions. Non-trivial = expression with >=3 AST operator/call nodes whose value differs between at least two of the '
             'transactions it was run on; distinct by expression text'),
    'exhaustive': {'quick': True, 'thorough': True},
    'required_counters': ['ref_vs_impl_agree', 'law_checks', 'shortcircuit_checks', 'engine_single_rule_checks', 'enumerated_exprs'],
    'assumptions': ['letters are ASCII or have a simple one-to-one case mapping (the property promises ASCII case-insensitivity)',
                    'fuzzy() is judged through equivalence laws only; split/substring with non-negative indices; no str-in-list membership',
                    "python's re, str and float arithmetic are the trusted base of the reference"],
}

ROWS = {
    'rows': [{'amt': 12.0, 'item': 'NETFLIX.COM Uber eats', 'qty': 1}, {'amt': 5, 'item': 'star', 'qty': 0},
             {'amt': 100, 'item': '', 'qty': 3}, {'amt': -99.99, 'item': 'STAR-bucks', 'qty': 2}],
    'orders': [{'amt': 100.0, 'item': 'COSTCO whole Foods', 'qty': 2}, {'amt': 0.5, 'item': 'AMZN', 'qty': 5}],
}
ROWSETS = [ROWS, {'rows': [], 'orders': []}, {'rows': [{'amt': 0.01, 'item': "O'R", 'qty': 7}], 'orders': ROWS['rows']}]
VARS = {'big': 500, 'is_big': False, 'label': 'Amex'}
VARS2 = {'big': 0.5, 'is_big': True, 'label': 'net'}

TXNS = [
    {'description': 'NETFLIX.COM Uber eats', 'amount': 12.0, 'date': date(2025, 1, 15), 'field': {'memo': ' x ', 'code': 'AB-cd-3'}, 'source': 'Amex', 'location': 'WA'},
    {'description': 'star-BUCKS  *7', 'amount': -99.99, 'date': date(2024, 12, 31), 'field': {'memo': '', 'code': 'x'}, 'source': None, 'location': None},
    {'description': '', 'amount': 0.5, 'field': None, 'source': 'amex'},
    {'description': "O'Reilly Café AMZN Mktp", 'amount': 100, 'date': date(2025, 2, 28), 'field': {'memo': 'NETFLIX', 'code': 'REF:123 #45'}, 'source': 'Chase'},
    {'description': 'UBER EATS 42 SQ *COSTCO', 'amount': 0.01, 'date': date(2025, 1, 1), 'field': {'memo': 'Uber', 'code': ''}, 'source': 'AMEX', 'location': 'Seattle, WA'},
    {'description': 'ÜBER whole Foods #12', 'amount': -0.01, 'date': date(2024, 2, 29), 'field': {'memo': 'a.b', 'code': '--'}, 'source': 'net'},
    {'description': 'Netflix', 'amount': 500, 'date': date(2025, 12, 31), 'field': {'memo': 'netflix', 'code': 'AB'}, 'source': ''},
    {'description': 'uber   eats', 'amount': 99.99, 'date': date(2023, 6, 30), 'field': {'memo': 'REF:9', 'code': 'A-B'}, 'source': 'Amex'},
    {'description': 'COSTCO GAS 100', 'amount': 100.0, 'date': date(2025, 6, 1), 'field': {'memo': '100', 'code': '0'}, 'source': 'x'},
    {'description': 'AMZN Mktp US*7 NETFLIX', 'amount': 2025, 'date': date(2025, 1, 31), 'field': {'memo': 'x', 'code': 'x'}, 'source': 'Amex'},
    {'description': 'a.b-*  ', 'amount': 0, 'date': date(2025, 3, 2), 'field': {'memo': '  ', 'code': ' AB '}, 'source': 'Amex'},
    {'description': 'net', 'amount': 1e9, 'date': date(2024, 12, 1), 'field': {'memo': 'NET', 'code': 'net'}, 'source': 'NET'},
    {'description': 'DISNEY+ (EU), STORE 7', 'amount': 7.0, 'date': date(2025, 12, 30), 'field': {'memo': 'A+B', 'code': '(x),y'}, 'source': 'Amex'},
    {'description': 'DISNEY STORE 7', 'amount': 8.0, 'date': date(2024, 12, 30), 'field': {'memo': 'AB', 'code': 'xy'}, 'source': 'Chase'},
]

ERRS = ['field.nope == "x"', 'rows[99].amt > 0', 'no_such_name', 'txn.nope == 1']


def jtxn(t):
    return {k: (v.isoformat() if isinstance(v, date) else v) for k, v in t.items()}


def untxn(t):
    t = dict(t)
    if isinstance(t.get('date'), str):
        t['date'] = date.fromisoformat(t['date'])
    return t


def copy_rows(rows):
    return {k: [dict(r) for r in v] for k, v in rows.items()}


def ref_eval(expr, txn, variables, rows):
    try:
        return ('v', lang.norm(lang.Ref(txn, variables, rows).eval_str(expr)))
    except lang.RefError as e:
        return ('err', str(e))
    except lang.Unmodelled:
        return ('skip',)
    except RecursionError:
        return ('skip',)
    except Exception as e:
        return ('pyerr', type(e).__name__)


def impl_eval(ep, expr, txn, variables, rows):
    try:
        return ('v', lang.norm(ep.evaluate_transaction(expr, dict(txn), dict(variables), copy_rows(rows))))
    except ep.ExpressionError as e:
        return ('err', str(e)[:80])
    except RecursionError:
        return ('skip',)
    except Exception as e:
        return ('pyerr', type(e).__name__ + ': ' + str(e)[:60])


def kind_of(expr):
    """Mechanism key for a disagreement: the outermost distinguishing construct names found in the expression."""
    try:
        tree = ast.parse(expr, mode='eval')
    except SyntaxError:
        return 'unparsable'
    names = set()
    for n in ast.walk(tree):
        if isinstance(n, ast.Call) and isinstance(n.func, ast.Name):
            names.add(n.func.id.lower())
        elif isinstance(n, ast.Call) and isinstance(n.func, ast.Attribute):
            names.add('.' + n.func.attr.lower())
        elif isinstance(n, (ast.ListComp, ast.GeneratorExp, ast.NamedExpr, ast.IfExp, ast.Subscript)):
            names.add(type(n).__name__)
        elif isinstance(n, ast.Compare):
            names.add('chain' if len(n.ops) > 1 else 'cmp')
        elif isinstance(n, ast.BoolOp):
            names.add(type(n.op).__name__.lower())
        elif isinstance(n, ast.BinOp):
            names.add(type(n.op).__name__.lower())
    return '+'.join(sorted(names))[:60] or 'atom'


def judge(rec, ep, expr, txn, variables, rows, engine=False, laws=None, rnd=None):
    """Compare one (expression, transaction) observation with the reference; returns the impl outcome."""
    rec.case()
    rv = ref_eval(expr, txn, variables, rows)
    iv = impl_eval(ep, expr, txn, variables, rows)
    case = {'kind': 'eval', 'expr': expr, 'txn': jtxn(txn), 'vars': variables, 'rows': rows}
    if rv[0] == 'skip' or iv[0] == 'skip':
        rec.count('skipped_unmodelled')
        return iv
    if rv[0] == 'pyerr':
        rec.count('ref_pyerr_out_of_domain')
        return iv
    if rv[0] == 'err':
        if iv[0] == 'v':
            rec.violation('value-where-reference-has-none:' + kind_of(expr),
                          f'{expr!r} on {txn.get("description")!r}: reference gives no value ({rv[1]}), implementation returns {iv[1]}', case)
        else:
            rec.count('both_no_value' if iv[0] == 'err' else 'impl_python_error_where_no_value')
        return iv
    if iv[0] != 'v':
        if iv[0] == 'pyerr':
            rec.violation('python-error-on-well-typed:' + kind_of(expr),
                          f'{expr!r} on {txn.get("description")!r}: reference value {rv[1]}, implementation raises {iv[1]}', case)
        else:
            rec.violation('error-where-reference-has-value:' + kind_of(expr),
                          f'{expr!r} on {txn.get("description")!r}: reference value {rv[1]}, implementation error {iv[1]}', case)
        return iv
    if rv[1] != iv[1]:
        rec.violation('value-differs:' + kind_of(expr),
                      f'{expr!r} on {txn.get("description")!r} amount={txn.get("amount")} date={txn.get("date")}: reference {rv[1]}, implementation {iv[1]}', case)
        return iv
    rec.count('ref_vs_impl_agree')
    # matches_transaction must be bool(value)
    try:
        mt = ep.matches_transaction(expr, dict(txn), dict(variables), copy_rows(rows))
        truth = bool(lang.Ref(txn, variables, rows).eval_str(expr)) if rv[1][0] != 'l' else None
        if truth is not None and mt is not truth:
            rec.violation('matches_transaction-not-bool-of-value', f'{expr!r}: matches_transaction={mt!r} value truth={truth!r}', case)
        rec.count('matches_transaction_checks')
    except Exception:
        pass
    if engine:
        engine_check(rec, expr, txn, variables, rows, rv)
    return iv


def engine_check(rec, expr, txn, variables, rows, rv):
    """The same expression as the match: of a single-rule file, variables as top-level definitions."""
    from tally.merchant_engine import parse_merchants, MerchantParseError
    if '\n' in expr or rv[0] != 'v' or rv[1][0] == 'l':
        return
    text = ''.join('%s = %s\n' % (k, repr(v) if not isinstance(v, bool) else ('true' if v else 'false')) for k, v in variables.items())
    text += '[R]\nmatch: %s\ncategory: C\n' % expr
    try:
        eng = parse_merchants(text)
    except MerchantParseError as e:
        rec.violation('engine-rejects-valid-expression', f'{expr!r}: {e}', {'kind': 'eval', 'expr': expr, 'txn': jtxn(txn), 'vars': variables, 'rows': rows})
        return
    res = eng.match(dict(txn), data_sources=copy_rows(rows))
    rec.count('engine_single_rule_checks')
    truth = bool(lang.Ref(txn, variables, rows).eval_str(expr))
    if res.matched != truth:
        rec.violation('engine-single-rule-differs:' + kind_of(expr),
                      f'single-rule file with match: {expr!r} matched={res.matched}, reference truth={truth}',
                      {'kind': 'eval', 'expr': expr, 'txn': jtxn(txn), 'vars': variables, 'rows': rows})


def engine_variable_sequence(rec, g, rnd):
    """A top-level variable is re-evaluated for every transaction, however its expression is spelled: ONE engine, a variable defined with
    case-flipped names, matched against the transactions one after the other; each answer is the reference truth for that transaction."""
    from tally.merchant_engine import parse_merchants, MerchantParseError
    e = g.expr('B', rnd.randint(1, 2)) if rnd.random() < .6 else rnd.choice(['amount > 50', 'month >= 6', 'date >= "2025-01-15"', 'year == 2025 and day > 15',
                                                                            'weekday < 3', 'amount < 0 or amount > 99', 'description == "netflix"', 'source == "amex"'])
    if re.search(r'\b(big|is_big|label)\b', e, re.I):
        return
    try:
        e2, changed = lang.case_flip(e, rnd)
    except SyntaxError:
        return
    text = 'v = %s\n\n[R]\nmatch: v\ncategory: C\n' % e2
    if rnd.random() < .5:
        # an EARLIER rule binds the same name with let: (its own, local meaning) and does not match: the later rule still reads the top-level variable
        text = 'v = %s\n\n[Shadow]\nlet: v = %s\nmatch: contains("zzzz-never") and v\ncategory: S\n\n[R]\nmatch: v\ncategory: C\n' % \
            (e2, rnd.choice(['not (%s)' % e2, 'false', 'true', '"text"', 'amount * 0']))
        rec.count('engine_variable_sequences_with_a_shadowing_let_in_an_earlier_rule')
    try:
        eng = parse_merchants(text)
    except MerchantParseError:
        return
    order = list(TXNS)
    rnd.shuffle(order)
    rec.count('engine_variable_sequences')
    for k, txn in enumerate(order):
        try:
            truth = bool(lang.Ref(txn, {}, ROWS).eval_str(e))
        except lang.RefError:
            truth = False          # the variable has no value for this transaction: the rule that reads it is skipped
        except (lang.Unmodelled, Exception):
            continue
        try:
            got = eng.match(dict(txn), data_sources=copy_rows(ROWS)).matched
        except Exception as ex:
            rec.violation('engine-variable-sequence-raises', f'variable `v = {e2}`: {type(ex).__name__}: {ex}', {'kind': 'varseq', 'expr': e, 'flipped': e2})
            return
        rec.count('engine_variable_sequence_checks')
        if got != truth:
            rec.violation('engine-variable-differs-in-sequence:' + kind_of(e),
                          f'one engine, variable `v = {e2}`, rule `match: v`: transaction #{k} {txn.get("description")!r} amount={txn.get("amount")} date={txn.get("date")} '
                          f'matched={got}, reference truth of {e!r} is {truth}', {'kind': 'varseq', 'expr': e, 'flipped': e2})
            return


def law(rec, ep, name, e1, e2, txn, variables, rows, as_bool=False):
    a = impl_eval(ep, e1, txn, variables, rows)
    b = impl_eval(ep, e2, txn, variables, rows)
    rec.count('law_checks')
    rec.count('law:' + name)
    if a[0] == 'skip' or b[0] == 'skip':
        return
    if as_bool and a[0] == 'v' and b[0] == 'v':
        ta = a[1][1] if a[1][0] == 'b' else None
        tb = b[1][1] if b[1][0] == 'b' else None
        same = ta is not None and ta == tb
    else:
        same = (a[0] == b[0] == 'v' and a[1] == b[1]) or (a[0] != 'v' and b[0] != 'v')
    if not same:
        rec.violation('law-' + name + ':' + kind_of(e1), f'{name}: {e1!r} -> {a}   but   {e2!r} -> {b}   on {txn.get("description")!r}',
                      {'kind': 'law', 'name': name, 'e1': e1, 'e2': e2, 'txn': jtxn(txn), 'vars': variables, 'rows': rows, 'as_bool': as_bool})


def laws_for(rec, ep, g, rnd, txn, variables, rows, depth):
    a, b, c = g.B(depth), g.B(depth), g.B(depth)
    va = impl_eval(ep, a, txn, variables, rows)
    vb = impl_eval(ep, b, txn, variables, rows)
    if va[0] == 'v' and va[1][0] == 'b':
        law(rec, ep, 'double-negation', 'not not (%s)' % a, a, txn, variables, rows, as_bool=True)
    law(rec, ep, 'de-morgan-and', 'not ((%s) and (%s))' % (a, b), '(not (%s)) or (not (%s))' % (a, b), txn, variables, rows)
    law(rec, ep, 'de-morgan-or', 'not ((%s) or (%s))' % (a, b), '(not (%s)) and (not (%s))' % (a, b), txn, variables, rows)
    if va[0] == 'v' and vb[0] == 'v' and ':=' not in a + b:
        law(rec, ep, 'swap-and', '(%s) and (%s)' % (a, b), '(%s) and (%s)' % (b, a), txn, variables, rows)
        law(rec, ep, 'swap-or', '(%s) or (%s)' % (a, b), '(%s) or (%s)' % (b, a), txn, variables, rows)
        law(rec, ep, 'ifexp-encoding', '((%s) if (%s) else (%s))' % (a, c, b), '((%s) and (%s)) or (not (%s) and (%s))' % (c, a, c, b),
            txn, variables, rows) if (va[1][0] == 'b' and vb[1][0] == 'b' and ':=' not in c) else None
    n1, n2, n3 = g.N(max(0, depth - 1)), g.N(max(0, depth - 1)), g.N(max(0, depth - 1))
    if ':=' not in n1 + n2 + n3 and ' for ' not in n2:
        o1, o2 = rnd.choice(['<', '<=', '==', '>', '>=', '!=']), rnd.choice(['<', '<=', '==', '>', '>=', '!='])
        chain = '%s %s %s %s %s' % (n1, o1, n2, o2, n3)
        law(rec, ep, 'chain-vs-conjunction', chain, '(%s %s %s) and (%s %s %s)' % (n1, o1, n2, n2, o2, n3), txn, variables, rows)
        judge(rec, ep, chain, txn, variables, rows)
    e = g.expr(rnd.choice('BBNS'), depth)
    try:
        flipped, changed = lang.case_flip(e, rnd)
    except (SyntaxError, RecursionError):
        return
    if changed:
        law(rec, ep, 'letter-case', e, flipped, txn, variables, rows)
    if rnd.random() < .3:
        # anyof(a, b) is contains(a) or contains(b) - for letters whose upper-case form is longer than they are, too (ß / SS, ligatures)
        pa, pb = rnd.sample(['GROSSMARKT', 'gro\u00dfmarkt', 'OFFICE', 'o\ufb03ce', 'METRO', 'stra\u00dfe', 'STRASSE', 'NETFLIX', 'caf\u00e9', 'CAF\u00c9'], 2)
        t2 = dict(txn, description=rnd.choice(['Edeka Gro\u00dfmarkt Hamburg', 'EDEKA GROSSMARKT', 'O\ufb03ce Depot 12', 'OFFICE DEPOT', 'Hauptstra\u00dfe 5', 'Caf\u00e9 Bleu', txn.get('description') or '']))
        law(rec, ep, 'anyof-is-contains-or', 'anyof("%s", "%s")' % (pa, pb), 'contains("%s") or contains("%s")' % (pa, pb), t2, variables, rows, as_bool=True)
    if rnd.random() < .3:
        p = g.q(g.lit())
        cv = impl_eval(ep, 'contains(%s)' % p, txn, variables, rows)
        fv = impl_eval(ep, 'fuzzy(%s)' % p, txn, variables, rows)
        rec.count('law_checks')
        rec.count('law:contains-implies-fuzzy')
        if cv == ('v', ('b', True)) and fv != ('v', ('b', True)) and ast.literal_eval(p) != '':
            rec.violation('law-contains-implies-fuzzy', f'contains({p}) is true but fuzzy({p}) is {fv} on {txn["description"]!r}',
                          {'kind': 'law', 'name': 'contains-implies-fuzzy', 'e1': 'contains(%s)' % p, 'e2': 'fuzzy(%s)' % p,
                           'txn': jtxn(txn), 'vars': variables, 'rows': rows, 'as_bool': True})


def shortcircuit(rec, ep, g, rnd, txn, variables, rows):
    err = rnd.choice(ERRS)
    a = g.B(1)
    for e in ('(false and %s)' % err, '(true or %s)' % err, '((%s) and %s)' % (a, err), '((%s) or %s)' % (a, err),
              '(%s and (%s))' % (err, a), '(1 if true else %s)' % err, '(%s if false else 2)' % err,
              '(false and %s and %s)' % (err, a), '((%s) and false and %s)' % (a, err)):
        rec.count('shortcircuit_checks')
        judge(rec, ep, e, txn, variables, rows)


def cache_probes(rec, ep, g, rnd, txn, variables, rows):
    e = g.expr(rnd.choice('BS'), 2)
    try:
        tree = ast.parse(e, mode='eval')
    except SyntaxError:
        return
    variants = [e, e + ' ', e + '\t ']
    swapped = ast.unparse(SwapAll().visit(ast.parse(e, mode='eval')))
    variants += [swapped, e]
    for v in variants:
        rec.count('cache_probe_evals')
        judge(rec, ep, v, txn, variables, rows)


class SwapAll(ast.NodeTransformer):
    def visit_Constant(self, n):
        if isinstance(n.value, str):
            return ast.copy_location(ast.Constant(value=n.value.swapcase()), n)
        return n


def nontrivial(expr):
    try:
        tree = ast.parse(expr, mode='eval')
    except SyntaxError:
        return False
    k = sum(1 for n in ast.walk(tree) if isinstance(n, (ast.Call, ast.BoolOp, ast.BinOp, ast.Compare, ast.UnaryOp, ast.IfExp,
                                                         ast.ListComp, ast.GeneratorExp, ast.Subscript, ast.NamedExpr)))
    return k >= 3


def run(rec, shard, nshards, t):
    core.import_tally()
    from tally import expr_parser as ep
    rnd = core.rng_for('C04', shard)
    g = lang.Gen(rnd)
    # ---- exhaustive part
    maxsize = 4 if t == 'quick' else 5
    table = lang.enumerate_exprs(maxsize)
    txset = TXNS if t != 'quick' else TXNS[:8]
    idx = 0
    for typ in 'BNS':
        for size in range(1, maxsize + 1):
            for e in table[typ][size]:
                idx += 1
                if idx % nshards != shard:
                    continue
                rec.count('enumerated_exprs')
                outs = set()
                sub = txset if size <= 4 else [txset[(idx + k) % len(txset)] for k in range(4)]
                for ti, txn in enumerate(sub):
                    iv = judge(rec, ep, e, txn, VARS, ROWS, engine=(typ == 'B' and (idx + ti) % 23 == 0))
                    outs.add(iv)
                if len(outs) > 1 and nontrivial(e):
                    rec.interesting('x:' + e)
    # ---- random part
    n = (16000 if t == 'quick' else 300000) // nshards
    for i in range(n):
        depth = rnd.randint(1, 4 if t == 'quick' else 5)
        typ = rnd.choice('BBBNS')
        e = g.expr(typ, depth)
        toplevel = False
        if i % 9 == 0:
            # a whole match condition written WITHOUT parentheses: precedence (and binds tighter than or, the conditional expression loosest) decides
            lit = g.q(rnd.choice(['NETFLIX', 'COSTCO', 'ZZZ', 'UBER', 'star']))
            e = rnd.choice(['contains(%s) and %s or %s', 'contains(%s) and %s if %s else %s', '%s or contains(%s) and %s', 'not contains(%s) and %s or %s'])
            e = e % tuple([lit if k == 0 or (e.startswith('%s or') and k == 1) else g.B(1) for k in range(e.count('%s'))]) if not e.startswith('%s or') else \
                e % (g.B(1), lit, g.B(1))
            typ, toplevel = 'B', True
        if i % 11 == 5:
            # `not` applied to numbers, text and lists (truthiness) and used as a VALUE: one negation is a Boolean, two negations are a Boolean too
            x = g.expr(rnd.choice('NS'), rnd.randint(1, 2))
            e = rnd.choice(['not not %s', 'not %s', '(not not %s) == true', '(not not %s) == (not not %s)', 'sum(not not r.qty for r in rows) + (not not %s)',
                            '[not not r.item for r in rows]', '"%%s" %% (not not %s)', 'not not [r for r in rows if r.qty > 1]', 'not (not (%s))'])
            e = e % tuple([x] * e.replace('%%', '').count('%s'))
            typ = 'N'
            rec.count('negations_used_as_values')
        try:
            ast.parse(e, mode='eval')
        except SyntaxError:
            rec.count('generator_syntax_reject')
            continue
        variables = VARS if rnd.random() < .7 else VARS2
        outs = set()
        txs = rnd.sample(TXNS, 8 if t != 'quick' else 5)
        for ti, txn in enumerate(txs):
            rows = ROWSETS[0] if ti % 3 else rnd.choice(ROWSETS)
            iv = judge(rec, ep, e, txn, variables, rows, engine=(typ == 'B' and (toplevel or (ti == 0 and i % 4 == 0))))
            outs.add(iv)
        if len(outs) > 1 and nontrivial(e):
            rec.interesting('r:' + e)
        if i % 3 == 0:
            txn = rnd.choice(TXNS)
            laws_for(rec, ep, g, rnd, txn, variables, rnd.choice(ROWSETS), rnd.randint(1, 3))
        if i % 10 == 0:
            shortcircuit(rec, ep, g, rnd, rnd.choice(TXNS), variables, ROWS)
        if i % 7 == 0:
            cache_probes(rec, ep, g, rnd, rnd.choice(TXNS), variables, ROWS)
        if i % 13 == 0:
            engine_variable_sequence(rec, g, rnd)
        if i < 3 and shard == 0:
            rec.sample({'expr': e, 'txn': jtxn(txs[0])})
    # reference-table spot checks quoted in `tally reference`
    if shard == 0:
        exact_aggregates(rec, ep)
        exact_comparisons(rec, ep)
        repeated_evaluations(rec, ep)
        doc = [('split("-", 0)', {'description': 'ACH-OUT-123'}, 'ACH'), ('substring(0, 4)', {'description': 'AMZN*MARKET'}, 'AMZN'),
               ('trim()', {'description': '  AMAZON  '}, 'AMAZON'), ('extract("REF:(\\\\d+)")', {'description': 'REF:12345'}, '12345'),
               ('regex_replace(field.description, "^APLPAY\\\\s+", "")', {'description': 'APLPAY STARBUCKS'}, 'STARBUCKS'),
               ('strip_prefix(field.description, "SQ*")', {'description': 'SQ*COFFEE'}, 'COFFEE'),
               ('strip_suffix(field.description, " DES:123")', {'description': 'STORE DES:123'}, 'STORE'),
               ('uppercase(field.description)', {'description': 'Starbucks'}, 'STARBUCKS'),
               ('strip_suffix(field.description, field.memo)', {'description': 'STORE', 'field': {'memo': ''}}, 'STORE'),
               ('strip_prefix(field.description, field.memo)', {'description': 'STORE', 'field': {'memo': ''}}, 'STORE')]
        for e, txn, want in doc:
            txn = dict({'amount': 1.0, 'field': None, 'source': 's'}, **txn)
            iv = judge(rec, ep, e, txn, {}, {})
            rec.count('doc_table_checks')
            if iv != ('v', ('s', want)):
                rec.violation('reference-table-example:' + kind_of(e), f'{e} on {txn["description"]!r}: documented {want!r}, got {iv}',
                              {'kind': 'eval', 'expr': e, 'txn': jtxn(txn), 'vars': {}, 'rows': {}})


EXACT_ROWS = {'cents': [{'amt': 0.1}, {'amt': 0.2}, {'amt': 0.3}], 'dimes': [{'amt': 0.1} for _ in range(10)],
              'mix': [{'amt': 19.99}, {'amt': 5.01}, {'amt': 0.10}, {'amt': 0.20}], 'big': [{'amt': 1e16}, {'amt': 1.0}, {'amt': -1e16}],
              'ints': [{'amt': 3}, {'amt': 4}], 'one': [{'amt': 0.1}], 'none': []}


def exact_comparisons(rec, ep):
    """Comparisons of numbers are Python's, bit for bit (0.1 + 0.2 is not 0.3; == and != are each other's negation; a <= b and a >= b is a == b), and a name
    bound to None - by :=, as a loop variable, as a variable - is bound: it reads as None."""
    rows = {'cents': [{'amt': 0.1}, {'amt': 0.2}], 'vals': [{'v': None}, {'v': 3}], 'none': []}
    probes = [('sum(r.amt for r in cents) == 0.3', {}, 0.1 + 0.2 == 0.3), ('sum(r.amt for r in cents) != 0.3', {}, 0.1 + 0.2 != 0.3),
              ('amount * 3 == 0.9', {'amount': 0.3}, 0.3 * 3 == 0.9), ('amount / 3 == 0.1', {'amount': 0.3}, 0.3 / 3 == 0.1),
              ('amount == 100', {'amount': 100.0000000001}, False), ('amount != 100', {'amount': 100.0000000001}, True),
              ('(amount == 100) == (not (amount != 100))', {'amount': 100.0000000001}, True), ('(amount >= 100 and amount <= 100) == (amount == 100)', {'amount': 100.0000000001}, True),
              ('amount == 0.30000000000000004', {'amount': 0.1 + 0.2}, True), ('1e16 + 1.0 == 1e16', {}, 1e16 + 1.0 == 1e16),
              ('(m := next((r for r in none), None)) == None', {}, True), ('not (m := next((r for r in none), None))', {}, True),
              ('(m := next((r for r in none), None)) == None and m == None', {}, True), ('[x.v for x in vals][0] == None', {}, True),
              ('len([x for x in [r.v for r in vals] if x == None]) == 1', {}, True), ('any(x == None for x in [r.v for r in vals])', {}, True),
              ('nothing == None', {'__vars__': {'nothing': None}}, True), ('not nothing', {'__vars__': {'nothing': None}}, True),
              ('(source := None) == None', {}, True)]
    for e, over, want in probes:
        txn = {'description': 'x', 'amount': 0.6, 'field': None, 'source': 's'}
        variables = over.pop('__vars__', {}) if '__vars__' in over else {}
        txn.update(over)
        rec.count('exact_comparison_checks')
        try:
            got = ep.evaluate_transaction(e, dict(txn), dict(variables), {k: [dict(r) for r in v] for k, v in rows.items()})
        except Exception as ex:
            rec.violation('exact-comparison:raises', f'{e}: {type(ex).__name__}: {ex} (Python: {want!r})', {'kind': 'exact'})
            continue
        if got is not want:
            rec.violation('exact-comparison:differs-from-python', f'{e} with amount={txn["amount"]!r}: tally {got!r}, Python {want!r}', {'kind': 'exact'})


def repeated_evaluations(rec, ep):
    """The SAME expression text evaluated for one transaction after another, and generators bound with `:=`: each evaluation reads the values of ITS transaction /
    row (a date compared with a date WRITTEN IN A COLUMN is compared with that row's text), and a bound generator is Python's generator (lazy, consumed once, truthy)."""
    from datetime import date as _d
    rows = {'orders': [{'item': 'A', 'shipped': '2025-01-10', 'amt': 12.0}, {'item': 'B', 'shipped': '2025-03-01', 'amt': 80.0}, {'item': 'C', 'shipped': '2025-02-01', 'amt': 5.0}], 'none': []}
    seq = [({'due': '2025-01-31', 'lo': '2025-01-01', 'hi': '2025-01-31'}, _d(2025, 2, 15)), ({'due': '2025-03-31', 'lo': '2025-02-01', 'hi': '2025-02-28'}, _d(2025, 2, 15)),
           ({'due': '2025-02-15', 'lo': '2025-03-01', 'hi': '2025-03-31'}, _d(2025, 2, 15)), ({'due': '2024-12-31', 'lo': '2025-02-15', 'hi': '2025-02-15'}, _d(2025, 2, 15))]
    probes = [('date > field.due', lambda f, d: d > _d.fromisoformat(f['due'])), ('date <= field.due', lambda f, d: d <= _d.fromisoformat(f['due'])),
              ('field.lo <= date and date <= field.hi', lambda f, d: _d.fromisoformat(f['lo']) <= d <= _d.fromisoformat(f['hi'])),
              ('date >= field.lo', lambda f, d: d >= _d.fromisoformat(f['lo'])),
              ('len([r.item for r in orders if date >= r.shipped])', lambda f, d: len([r for r in rows['orders'] if d >= _d.fromisoformat(r['shipped'])])),
              ('len([r.item for r in orders if txn.date < r.shipped]) == 1', lambda f, d: len([r for r in rows['orders'] if d < _d.fromisoformat(r['shipped'])]) == 1)]
    for e, py in probes:
        for k, (f, d) in enumerate(seq):
            rec.count('repeated_evaluation_checks')
            try:
                got = ep.evaluate_transaction(e, {'description': 'x', 'amount': 5.0, 'date': d, 'field': dict(f), 'source': 's'}, {}, {k2: [dict(r) for r in v] for k2, v in rows.items()})
            except Exception as ex:
                got = 'raises %s' % type(ex).__name__
            want = py(f, d)
            if got != want or type(got) is not type(want):
                rec.violation('value-depends-on-earlier-evaluations', f'{e!r}, transaction #{k} of a sequence (date {d}, field {f}): tally {got!r}, Python {want!r}', {'kind': 'repeated'})
                break
    gens = [('(g := (r.amt for r in orders if r.amt > 1e9)) and true', True), ('next((g := (r.amt for r in orders))) == 12.0', True),
            ('any((g := (r.amt > 50 for r in orders))) and not any(g)', True), ('(g := (r.amt for r in orders)) and next(g) + next(g) == 92.0', True),
            ('sum((g := (r.amt for r in orders))) == 97.0 and sum(g) == 0', True), ('not (g := (r for r in none))', False)]
    for e, want in gens:
        rec.count('repeated_evaluation_checks')
        try:
            got = ep.evaluate_transaction(e, {'description': 'x', 'amount': 5.0, 'field': None, 'source': 's'}, {}, {k2: [dict(r) for r in v] for k2, v in rows.items()})
        except Exception as ex:
            got = 'raises %s: %s' % (type(ex).__name__, ex)
        if got is not want:
            rec.violation('bound-generator-differs-from-python', f'{e!r}: tally {got!r}, Python {want!r}', {'kind': 'repeated'})


def exact_aggregates(rec, ep):
    """sum/min/max/len over supplemental rows give EXACTLY what the same Python construct gives (bit for bit: the documented idiom is
    `sum(r.amount for r in orders) == txn.amount`, and this interpreter's sum() is the one the user reads about)."""
    txn = {'description': 'x', 'amount': 0.6, 'field': None, 'source': 's'}
    for name, rows in EXACT_ROWS.items():
        vals = [r['amt'] for r in rows]
        for tmpl, py in (('sum(r.amt for r in %s)', lambda v: sum(v)), ('sum([r.amt for r in %s])', lambda v: sum(v)),
                         ('sum([r.amt for r in %s], 0.5)', lambda v: sum(v, 0.5)), ('sum(r.amt * 2 for r in %s)', lambda v: sum(x * 2 for x in v)),
                         ('max(0, sum(r.amt for r in %s))', lambda v: max(0, sum(v))), ('sum(r.amt for r in %s if r.amt > 0.15)', lambda v: sum(x for x in v if x > 0.15))):
            e = tmpl % name
            want = py(vals)
            rec.count('exact_aggregate_checks')
            try:
                got = ep.evaluate_transaction(e, dict(txn), {}, {k: [dict(r) for r in v] for k, v in EXACT_ROWS.items()})
            except Exception as ex:
                rec.violation('exact-aggregate:raises', f'{e}: {type(ex).__name__}: {ex}', {'kind': 'exact'})
                continue
            if repr(got) != repr(want) and not (got == want and type(got) is type(want)):
                rec.violation('exact-aggregate:differs-from-python', f'{e} over {vals}: tally {got!r}, Python {want!r}', {'kind': 'exact'})
        # the documented matching idiom
        want = (sum(vals) == 0.6)
        got = ep.evaluate_transaction('sum(r.amt for r in %s) == amount' % name, dict(txn), {}, {k: [dict(r) for r in v] for k, v in EXACT_ROWS.items()})
        rec.count('exact_aggregate_checks')
        if bool(got) != want:
            rec.violation('exact-aggregate:differs-from-python', f'sum(r.amt for r in {name}) == amount (0.6): tally {got!r}, Python {want!r}', {'kind': 'exact'})


def replay(rec, case):
    core.import_tally()
    from tally import expr_parser as ep
    if case['kind'] in ('exact', 'repeated'):
        exact_aggregates(rec, ep)
        exact_comparisons(rec, ep)
        repeated_evaluations(rec, ep)
        return
    if case['kind'] == 'varseq':
        rnd = core.rng_for('C04', 'replay')
        g = lang.Gen(rnd)
        for _ in range(400):
            engine_variable_sequence(rec, g, rnd)
        return
    txn = untxn(case['txn'])
    if case['kind'] == 'law':
        law(rec, ep, case['name'], case['e1'], case['e2'], txn, case['vars'], case['rows'], case.get('as_bool', False))
    else:
        judge(rec, ep, case['expr'], txn, case['vars'], case['rows'], engine=True)

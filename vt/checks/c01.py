"""C01 - first matching categorizing rule decides merchant, category and subcategory.

Three independent oracles per (rule file, transaction), observed at MerchantEngine.match, at the production path
get_all_rules -> get_transforms -> normalize_merchant, and at the legacy CSV path:
  1. reference matcher (vt.rules.ref_match / ref_match_csv);
  2. self-consistency: condition truth from the REAL engine on single-rule files, composition predicted from those;
  3. metamorphic: drop false rules / permute-delete rules after the winner / insert never-matching rules / vary
     amount-date-source of an unmatched transaction.
"""
import os
import shutil
import tempfile

from vt import core, lang, rules as R, matchobs as O, world

SPEC = {
    'level': 'exploration',
    'shards': {'quick': 8, 'thorough': 16},
    'rule': ('generated .rules files (0-12 rules; categorizing and tag-only interleaved; merchant:, subcategory:, priority:, let:, '
             'field:, static and {dynamic} tags; 2-3 top-level variables; 0-3 field transforms; conditions from the typed expression '
             'grammar, correlated with the transaction pool so that 0, 1 or many rules match) and legacy CSV rule files (regex patterns '
             'with amount/date/month modifiers, pipe tags, tag-only rows, comment lines) x 25-40 pool transactions. Non-trivial = '
             '(file, transaction) where >=2 rules match, or a tag-only rule matches before the winner, or a transform changes the '
             'description, or a let/variable participates in the winner; distinct by digest'),
    'exhaustive': {'quick': False, 'thorough': False},
    'required_counters': ['ref_triple_checks', 'selfconsistency_checks', 'meta_drop_false', 'meta_after_winner', 'meta_insert_false',
                          'meta_unmatched_variation', 'production_path_checks', 'csv_path_checks', 'pipeline_path_checks',
                          'pipeline_twins_with_different_triples', 'legacy_parser_path_checks'],
    'assumptions': ['conditions are well-typed (failing conditions are property C08); no variable refers to another variable',
                    '[date:lastNdays] is excluded (depends on today); CSV [amount=N] is not probed within 0.01 of N',
                    'letters have a simple one-to-one case mapping'],
}


def expression_like(p):
    """Surface test that routes a legacy CSV pattern to the expression parser (mechanism key of a recorded finding)."""
    import re
    return bool(re.match(r'^(contains|normalized|anyof|startswith|fuzzy|regex|extract|split|substring|trim|exists)\s*\(', p) or
                re.match(r'^(amount|month|year|day|source|description)\s*[<>=!]', p) or p.startswith('field.') or
                ' and ' in p or ' or ' in p or p.startswith('('))


def judge_file(rec, rf, txns, rows, tmp, rnd, deep=True):
    text = R.render(rf)
    case0 = {'kind': 'rules', 'rf': rf.to_json(), 'rows': rows}
    try:
        eng = O.load_engine(text)
    except Exception as e:
        rec.violation('valid-file-rejected', f'{type(e).__name__}: {e}', dict(case0, txns=[]))
        return
    path = O.write(os.path.join(tmp, 'm.rules'), text)
    prules, ptrans = O.production_load(path)
    if len(prules) != len(rf.rules):
        rec.violation('production-load-lost-rules', f'get_all_rules returned {len(prules)} tuples for {len(rf.rules)} rules', dict(case0, txns=[]))
        return
    singles = {}
    for txn in txns:
        rec.case()
        case = dict(case0, txns=[O.jtxn(txn)])
        try:
            ref = R.ref_match(rf, txn, rows)
        except R.OutOfDomain:
            rec.count('out_of_domain')
            continue
        tt = ref['txn']
        try:
            obs_e = O.engine_result(eng, tt, rows)
            obs_p = O.production_result(prules, ptrans, txn, rows)
        except O.ImplError as e:
            rec.violation('impl-raises:' + type(e.exc).__name__, str(e)[:300], case)
            continue
        # 1. reference matcher
        rec.count('ref_triple_checks')
        rec.count('production_path_checks')
        for where, obs in (('MerchantEngine.match', obs_e), ('normalize_merchant', obs_p)):
            if obs['triple'] != ref['triple']:
                rec.violation('triple-differs-from-reference' + (':transforms' if rf.transforms and where == 'normalize_merchant' and tt != txn else ''),
                              f'{where}: got {obs["triple"]}, first matching categorizing rule gives {ref["triple"]} '
                              f'(matching rules {ref["matching"]}) for {txn.get("description")!r} amount={txn.get("amount")}', case)
        if ref['triple'] is None and obs_p['triple'] is None:
            rec.count('unknown_results')
        # non-triviality
        w = ref['winner']
        if (len(ref['matching']) >= 2 or (w is not None and any(i < w for i in ref['matching'])) or tt.get('description') != txn.get('description')
                or (w is not None and (rf.rules[w].lets or any(v in rf.rules[w].match.lower() for v in ('big', 'label'))))):
            rec.interesting([core.digest(rf.to_json()), core.digest(O.jtxn(txn))])
        rec.count('matching_%s' % min(len(ref['matching']), 3))
        if not deep:
            continue
        # 2. self-consistency on single-rule files (real engine decides condition truth)
        try:
            pred = None
            for i, r in enumerate(rf.rules):
                if i not in singles:
                    singles[i] = O.load_engine(R.render(rf.with_rules([r])))
                m = O.engine_result(singles[i], tt, rows)
                if m['matching'] and r.category and pred is None:
                    pred = (r.merchant or r.name, r.category, r.subcategory)
            rec.count('selfconsistency_checks')
            if pred != obs_e['triple']:
                rec.violation('composition-differs-from-single-rule-truth',
                              f'single-rule files predict {pred}, whole file gives {obs_e["triple"]} for {txn.get("description")!r}', case)
        except O.ImplError as e:
            rec.violation('impl-raises:' + type(e.exc).__name__, str(e)[:300], case)
            continue
        # 3a. drop every rule whose condition is false -> identical result in every part
        try:
            keep = [r for i, r in enumerate(rf.rules) if i in ref['matching']]
            if len(keep) < len(rf.rules):
                o2 = O.engine_result(O.load_engine(R.render(rf.with_rules(keep))), tt, rows)
                rec.count('meta_drop_false')
                for part in ('triple', 'tags', 'fields', 'pattern'):
                    if o2[part] != obs_e[part]:
                        rec.violation('false-rules-influence-result:' + part,
                                      f'removing the non-matching rules changes {part}: {obs_e[part]} -> {o2[part]}', case)
                        break
            # 3b. permute / delete the rules after the winner
            if w is not None and w + 1 < len(rf.rules):
                tail = rf.rules[w + 1:]
                rnd.shuffle(tail)
                tail = tail[:rnd.randint(0, len(tail))]
                o3 = O.engine_result(O.load_engine(R.render(rf.with_rules(rf.rules[:w + 1] + tail))), tt, rows)
                rec.count('meta_after_winner')
                if o3['triple'] != obs_e['triple']:
                    rec.violation('later-rules-change-triple', f'permuting/deleting rules after the winner: {obs_e["triple"]} -> {o3["triple"]}', case)
            # 3c. insert never-matching rules
            gen = R.RuleGen(rnd)
            mixed = list(rf.rules)
            for _ in range(rnd.randint(1, 3)):
                mixed.insert(rnd.randint(0, len(mixed)), gen.false_rule())
            o4 = O.engine_result(O.load_engine(R.render(rf.with_rules(mixed))), tt, rows)
            rec.count('meta_insert_false')
            for part in ('triple', 'tags', 'fields', 'pattern'):
                if o4[part] != obs_e[part]:
                    rec.violation('inserted-false-rules-influence-result:' + part,
                                  f'inserting never-matching rules changes {part}: {obs_e[part]} -> {o4[part]}', case)
                    break
        except O.ImplError as e:
            rec.violation('impl-raises:' + type(e.exc).__name__, str(e)[:300], case)
        # 3d. unmatched: fallback name depends only on the description
        if obs_p['triple'] is None:
            t2 = dict(txn, amount=rnd.choice(world.AMOUNTS), source=rnd.choice(world.SOURCES))
            d2 = rnd.choice(world.DATES)
            if d2:
                t2['date'] = d2
            try:
                ref2 = R.ref_match(rf, t2, rows)
                if ref2['triple'] is None and ref2['txn'].get('description') == tt.get('description'):
                    o5 = O.production_result(prules, ptrans, t2, rows)
                    rec.count('meta_unmatched_variation')
                    if o5['triple'] is not None or o5['fallback'] != obs_p['fallback']:
                        rec.violation('fallback-name-not-a-function-of-description',
                                      f'{obs_p["fallback"]!r} vs {o5["fallback"]!r} / {o5["triple"]} for the same description', case)
            except (R.OutOfDomain, O.ImplError):
                pass


def judge_pipeline(rec, rf, txns, rows, tmp, rnd, ptxns=None):
    """The same oracle at the statement-reading pipeline (parse_generic_csv): every row of a file - including rows that repeat
    another row's description, amount and date and differ only in custom columns - gets the triple of ITS first matching rule."""
    text = R.render(rf)
    path = O.write(os.path.join(tmp, 'm.rules'), text)
    try:
        prules, ptrans = O.production_load(path)
    except Exception:
        return
    if ptxns is None:
        ptxns = O.pipeline_txns(txns, rnd)
    if not ptxns:
        return
    case = {'kind': 'pipeline', 'rf': rf.to_json(), 'rows': rows, 'txns': [O.jtxn(t) for t in ptxns]}
    refs = []
    try:
        for t in ptxns:
            refs.append(R.ref_match(rf, t, rows))
    except R.OutOfDomain:
        rec.count('out_of_domain')
        return
    try:
        got = O.pipeline_results(prules, ptrans, ptxns, rows, tmp)
    except O.ImplError as e:
        rec.violation('impl-raises:' + type(e.exc).__name__, str(e)[:300], case)
        return
    if not ptrans:
        try:
            n, bad = O.pipeline_reported_is_classified(prules, ptxns, rows, tmp)
            rec.count('reported_transaction_reclassified_checks', n)
            for desc, loc, carried, again in bad[:1]:
                if carried[0] != again[0]:
                    rec.violation('triple-is-not-that-of-the-reported-transaction', f'statement without a location column: row {desc!r} is reported with location {loc!r} and '
                                  f'{carried[0]}, but the first matching rule for exactly that transaction gives {again[0]}', case)
        except O.ImplError as e:
            rec.violation('impl-raises:' + type(e.exc).__name__, str(e)[:300], case)
    if len(got) != len(ptxns):
        rec.violation('pipeline-row-count', f'{len(got)} transactions read from {len(ptxns)} well-formed rows', case)
        return
    seen = {}
    for t, r, g in zip(ptxns, refs, got):
        rec.case()
        rec.count('pipeline_path_checks')
        k = (t['description'], t['amount'], t['date'])
        if k in seen and seen[k] != r['triple']:
            rec.count('pipeline_twins_with_different_triples')
            rec.interesting(['pipe-twin', core.digest(rf.to_json()), core.digest(O.jtxn(t))])
        seen.setdefault(k, r['triple'])
        if g['triple'] != r['triple']:
            rec.violation('pipeline-triple-differs-from-reference',
                          f'parse_generic_csv: row {t["description"]!r} amount={t["amount"]} field={t["field"]} location={t["location"]!r} got '
                          f'{g["triple"]}, first matching categorizing rule gives {r["triple"]}', case)
            break


def judge_legacy_parsers(rec, rf, txns, tmp, rnd, what='triple'):
    """The deprecated amex / boa readers classify with the same rules: each row gets the triple of its first matching categorizing rule
    (no transforms, no custom fields, no supplemental data reach the matcher on this path)."""
    import re as _re
    plain = R.RuleFile(variables=rf.variables, transforms=[], rules=rf.rules)
    path = O.write(os.path.join(tmp, 'm.rules'), R.render(plain))
    try:
        prules, _ = O.production_load(path)
    except Exception:
        return
    for which in ('amex', 'boa'):
        src = which.upper()
        pt = []
        for t in txns:
            d = (t.get('description') or '')
            if t.get('date') is None or not t.get('amount') or not d.strip() or d != d.strip() or '\n' in d or '\t' in d:
                continue
            if which == 'boa' and (_re.search(r'\s{2,}', d) or _re.search(r'\s[-\d,]+\.\d{2}$', d) or abs(t['amount']) >= 1e6):
                continue
            amt = float(t['amount']) if which == 'amex' else round(float(t['amount']), 2)
            if amt == 0:
                continue
            pt.append({'description': d, 'amount': amt, 'date': t['date'], 'source': src, 'field': None, 'location': None})
        if not pt:
            continue
        case = {'kind': 'legacy-parser', 'which': which, 'rf': plain.to_json(), 'rows': {}, 'txns': [O.jtxn(t) for t in pt]}
        try:
            refs = [R.ref_match(plain, t, {}) for t in pt]
            got = O.legacy_parser_results(prules, pt, tmp, which)
        except R.OutOfDomain:
            rec.count('out_of_domain')
            continue
        except O.ImplError as e:
            rec.violation('impl-raises:' + type(e.exc).__name__, str(e)[:300], case)
            continue
        if len(got) != len(pt):
            rec.count('legacy_parser_row_count_differs_not_judged')
            continue
        for t, r, g in zip(pt, refs, got):
            rec.case()
            rec.count('legacy_parser_path_checks')
            if what == 'tags':
                # (C02 reuses this path for the tag sets)
                if g['tags'] != r['tags']:
                    rec.violation('legacy-parser-tags-differ-from-union:' + which, f'parse_{which}: row {t["description"]!r} amount={t["amount"]} date={t["date"]} tags '
                                  f'{sorted(g["tags"])}, union over matching rules {r["matching"]} is {sorted(r["tags"])}', case)
                    break
                continue
            if g['triple'] != r['triple']:
                rec.violation('legacy-parser-triple-differs-from-reference:' + which,
                              f'parse_{which}: row {t["description"]!r} amount={t["amount"]} date={t["date"]} got {g["triple"]}, first matching categorizing rule '
                              f'gives {r["triple"]}', case)
                break


def judge_csv(rec, crules, txns, tmp, rnd):
    text = R.render_csv(crules, rnd)
    path = O.write(os.path.join(tmp, 'merchant_categories.csv'), text)
    case0 = {'kind': 'csv', 'rules': [r.to_json() for r in crules]}
    prules, _ = O.production_load(path)
    if len(prules) != len(crules):
        rec.violation('csv-load-lost-rules', f'{len(prules)} tuples for {len(crules)} rows', dict(case0, txns=[]))
        return
    for txn in txns:
        rec.case()
        near = any(m[0] == 'amount' and m[1] == '=' and 0 < abs(txn['amount'] - float(m[2])) < 0.02 for r in crules for m in r.mods)
        if near:
            continue
        ref = R.ref_match_csv(crules, txn)
        try:
            obs = O.production_result(prules, [], txn, {})
        except O.ImplError as e:
            rec.violation('impl-raises:' + type(e.exc).__name__, str(e)[:300], dict(case0, txns=[O.jtxn(txn)]))
            continue
        rec.count('csv_path_checks')
        if len(ref['matching']) >= 2 or any(crules[i].mods for i in ref['matching']):
            rec.interesting(['csv', core.digest(case0), core.digest(O.jtxn(txn))])
        if obs['triple'] != ref['triple']:
            # mechanism classifier: is a matching (per reference) row's pattern routed to the expression parser?
            routed = [crules[i].pattern for i in range(len(crules)) if expression_like(crules[i].pattern)]
            blame = [crules[i].pattern for i in ref['matching'] if expression_like(crules[i].pattern)]
            blame += [r.pattern for r in crules if expression_like(r.pattern) and obs['triple'] and r.merchant == obs['triple'][0]]
            key = 'csv-pattern-misrouted-as-expression' if blame else 'csv-triple-differs-from-reference'
            rec.violation(key, f'legacy CSV path: got {obs["triple"]}, reference {ref["triple"]} for {txn["description"]!r} '
                          f'amount={txn["amount"]} date={txn.get("date")}; expression-like patterns among matching rows: {blame}',
                          dict(case0, txns=[O.jtxn(txn)]))


def fixed_files(rec, tmp, rnd):
    """Rule files the random generator only writes now and then, judged on every change by the same reference comparison."""
    files = [
        # regular expressions that differ only in the letter case of an escape class are different expressions - in either order, and evaluated one after the other
        R.RuleFile(rules=[R.Rule('Atm Digit', 'regex("^ATM\\\\s+\\\\d")', 'Cash', 'Atm'), R.Rule('Atm Word', 'regex("^ATM\\\\s+\\\\D")', 'Fees', 'Atm'),
                          R.Rule('Eats In', 'regex("\\\\bEATS\\\\b")', 'Food', 'Delivery'), R.Rule('Eats Out', 'regex("\\\\BEATS\\\\B")', 'Music', 'Gear')]),
        R.RuleFile(rules=[R.Rule('Atm Word', 'regex("^ATM\\\\s+\\\\D")', 'Fees', 'Atm'), R.Rule('Atm Digit', 'regex("^ATM\\\\s+\\\\d")', 'Cash', 'Atm'),
                          R.Rule('Shell S', 'regex("SHELL\\\\S\\\\d+")', 'Fuel', 'Glued'), R.Rule('Shell s', 'regex("SHELL\\\\s\\\\d+")', 'Fuel', 'Spaced')]),
        # a file that re-defines built-in names at top level and in a let: the user's definition is what the rules read
        R.RuleFile(variables=[('amount', 'abs(amount)'), ('big', '100')], rules=[R.Rule('Big Either Way', 'amount > big', 'Large', 'Abs'), R.Rule('Rest', 'true', 'Small', 'Abs')]),
        R.RuleFile(rules=[R.Rule('Let Month', 'contains("NETFLIX") and month == 99', 'Subs', 'Shadowed', lets=[('month', '99')]),
                          R.Rule('Plain Month', 'contains("NETFLIX") and month < 13', 'Subs', 'Calendar')]),
        R.RuleFile(variables=[('description', 'uppercase(description)'), ('source', '"Everywhere"')],
                   rules=[R.Rule('Src', 'source == "Everywhere" and description == uppercase(description)', 'Redefined', 'x'), R.Rule('Rest', 'true', 'Plain', 'x')]),
    ]
    descs = ['ATM 00123 WITHDRAWAL', 'ATM FEE', 'UBER EATS 42', 'BEATS BY DRE', 'xBEATSx', 'SHELL 0042', 'SHELLX0042', 'NETFLIX.COM', 'Netflix', 'costco whole foods']
    for rf in files:
        txns = []
        for d in descs:
            for a in (250.0, -250.0, 12.0):
                t = world.txn(rnd, desc=d)
                t['amount'] = a
                txns.append(t)
        judge_file(rec, rf, txns, world.ROWS, tmp, rnd, deep=True)
        judge_pipeline(rec, rf, txns, world.ROWS, tmp, rnd)
        rec.count('fixed_rule_files')


def run(rec, shard, nshards, t):
    core.import_tally()
    rnd = core.rng_for('C01', shard)
    tmp = tempfile.mkdtemp(prefix='vt-c01-')
    try:
        nfiles = (300 if t == 'quick' else 6000) // nshards
        ntx = 25 if t == 'quick' else 40
        gen = R.RuleGen(rnd)
        for i in range(nfiles):
            rf = gen.rule_file()
            if rnd.random() < .2:
                # a transform that cannot be evaluated (for every item, or only for items without custom fields) ahead of one that decides
                # which rule matches: the failing one is skipped on its own, the later ones still apply
                rf.transforms = [rnd.choice([('field.memo', 'trim(field.memo)'), ('field.description', 'strip_suffix(field.description, field.nope)'),
                                             ('field.zz', 'field.nope + "x"')])] + \
                    [rnd.choice([('field.description', 'regex_replace(field.description, "^SQ \\\\*", "")'), ('field.description', 'strip_prefix(field.description, "UBER ")')])]
                rf.rules.insert(rnd.randint(0, len(rf.rules)), R.Rule('AfterTransform', rnd.choice(['startswith("STAR")', 'startswith("EATS") or startswith("TRIP")',
                                                                                             'startswith("COSTCO")']), 'Transformed', 'x'))
                rec.count('files_with_failing_transform_before_deciding_one')
            if rnd.random() < .12:
                # a transform that strips a suffix spelled in another letter case than the statement text (strip_suffix / strip_prefix ignore case), and a rule
                # ahead of the others that is true only once the suffix is gone
                rf.transforms = list(rf.transforms) + [rnd.choice([('field.description', 'strip_suffix(field.description, " store 42")'),
                                                                   ('field.description', 'strip_suffix(field.description, " GAS 100")'),
                                                                   ('field.description', 'strip_prefix(field.description, "sq *")')])]
                rf.rules.insert(0, R.Rule('SuffixGone', rnd.choice(['regex("STARBUCKS$") or regex("costco$")', 'description == "STARBUCKS" or description == "COSTCO"',
                                                                   'startswith("STAR bucks REF")']), 'SuffixGone', 'x'))
                rec.count('files_with_a_case_differing_suffix_transform')
            if rnd.random() < .12:
                # a transform that is NOT idempotent (it drops the first word - a payment processor's prefix): it is applied once; a rule that is true of the
                # once-transformed text comes first, one that is true of the twice-transformed text later
                rf.transforms = list(rf.transforms) + [('field.description', rnd.choice(['regex_replace(field.description, "^\\\\S+\\\\s+", "")',
                                                                                         'regex_replace(field.description, "^[A-Z]{2,6} ?\\\\*? ?", "")']))]
                rf.rules.insert(0, R.Rule('OnceStripped', rnd.choice(['startswith("EATS") or startswith("Mktp") or startswith("whole")', 'startswith("*STAR") or startswith("STAR")',
                                                                     'regex("^(EATS|TRIP|GAS|FOODS|PRIME|STORE)")']), 'Once', 'x'))
                rec.count('files_with_a_transform_that_is_not_idempotent')
            if rnd.random() < .15:
                # normalized() ignores every kind of blank (no-break, thin, ideographic space too), hyphens, apostrophes, dots and asterisks
                rf.rules.insert(rnd.randint(0, len(rf.rules)), R.Rule('NormFirst', rnd.choice(['normalized("UBEREATS")', 'normalized("WHOLEFOODSMKT")', 'normalized("whole foods")',
                                                                                           'normalized("STARBUCKS")']), 'Normalized', 'x'))
            if rnd.random() < .15:
                # a let: binding that cannot be evaluated is bound to nothing (None) and the condition is still evaluated: a comparison with it is false,
                # the rest of the condition decides
                w = rnd.choice(['NETFLIX', 'UBER', 'COSTCO', 'STAR', 'a'])
                rf.rules.insert(rnd.randint(0, len(rf.rules)), R.Rule('LetNone', rnd.choice(['(note == "BONUS" or contains("%s"))', 'contains("%s") and note != "x"',
                                                                                          'contains("%s") and not (note == "y")']) % w, 'LetNone', 'x',
                                                                    lets=[('note', rnd.choice(['field.nosuchcolumn', 'nosuchname', 'extract(field.nosuch, "(x)")']))]))
                rec.count('files_with_an_unevaluable_let_read_by_its_condition')
            rows = world.ROWSETS[0] if rnd.random() < .7 else rnd.choice(world.ROWSETS)
            txns = world.pool(rnd, ntx, with_fields=rnd.random() < .6)      # else ~15% of the transactions carry no custom fields at all
            txns += world.field_twins(rnd, txns)
            judge_file(rec, rf, txns, rows, tmp, rnd, deep=True)
            judge_pipeline(rec, rf, txns, rows, tmp, rnd)
            if i % 3 == 0:
                judge_legacy_parsers(rec, rf, txns, tmp, rnd)
            if i < 1 and shard == 0:
                rec.sample({'rules_file': R.render(rf), 'txn': O.jtxn(txns[0])})
        if shard == 0:
            fixed_files(rec, tmp, rnd)
        ncsv = (100 if t == 'quick' else 2000) // nshards
        for i in range(ncsv):
            cr = R.gen_csv_rules(rnd)
            judge_csv(rec, cr, world.pool(rnd, ntx), tmp, rnd)
            if i < 1 and shard == 0:
                rec.sample({'csv_rules': R.render_csv(cr)})
    finally:
        shutil.rmtree(tmp, ignore_errors=True)


def replay(rec, case):
    core.import_tally()
    rnd = core.rng_for('C01', 'replay')
    tmp = tempfile.mkdtemp(prefix='vt-c01-')
    try:
        txns = [O.untxn(x) for x in case['txns']]
        if case['kind'] == 'legacy-parser':
            judge_legacy_parsers(rec, R.RuleFile.from_json(case['rf']), txns, tmp, rnd)
        elif case['kind'] == 'pipeline':
            judge_pipeline(rec, R.RuleFile.from_json(case['rf']), None, case['rows'], tmp, rnd, ptxns=txns)
        elif case['kind'] == 'csv':
            judge_csv(rec, [R.CsvRule.from_json(r) for r in case['rules']], txns, tmp, None)
        else:
            judge_file(rec, R.RuleFile.from_json(case['rf']), txns, case['rows'], tmp, rnd)
    finally:
        shutil.rmtree(tmp, ignore_errors=True)

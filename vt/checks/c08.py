"""C08 - a rule that fails to evaluate is skipped; it never aborts classification.

Poison-element metamorphic monitor.  A well-typed rules/views file gets ONE extra or replaced element whose expression
cannot be evaluated (ill-typed / partial, 18 labelled classes).  Whether the poison really fails for an item is decided
by the real evaluator itself (evaluate_transaction on the bare poison); when it does, the outcome of the poisoned file
must equal the outcome of the file without the failing element - at MerchantEngine.match, normalize_merchant (engine
and legacy paths), parse_generic_csv, classify_by_sections and `tally up`.
"""
import copy
import csv
import json
import os
import shutil
import subprocess
import tempfile
from datetime import datetime

from vt import core, rules as R, matchobs as O, world, lang

SPEC = {
    'level': 'exploration',
    'shards': {'quick': 8, 'thorough': 16},
    'rule': ('base files from the rule-file generator; one poison (cross-type comparison, string function on a number, arithmetic on '
             'strings, unary minus on a string, aggregates over dict rows / strings / empty sequences, next() on an exhausted generator, '
             'unknown field / variable / row attribute / txn attribute, bad regex in regex/extract/regex_replace, wrong subscript type, '
             'index out of range, len() of a number, iteration over a number, "in" with a number, invalid ISO date, date arithmetic, '
             'method misuse, wrong arity) at one of 9 positions (whole match, and-conjunct, or-disjunct, extra let, extra field:, '
             'extra {tag}, transform, top-level variable, view filter / view variable) x 10 items. Non-trivial = (poison class, position) '
             'pair on an item for which the real evaluator confirms the poison fails and at least one other rule matches; distinct by '
             '(class, position, file digest, item digest)'),
    'exhaustive': {'quick': False, 'thorough': False},
    'required_counters': ['poison_confirmed_failing', 'engine_checks', 'production_checks', 'legacy_csv_checks', 'parse_generic_csv_checks',
                          'views_checks', 'cli_runs'],
    'assumptions': ['for a failing let/variable the statement does not say whether the name is unbound or empty: such poisons are added '
                    'as NEW bindings that nothing else reads, so only completion and non-interference are asserted'],
}

POISONS = {
    'cross-type-compare': ['description > 5', 'amount < "x"', 'date < 5', 'source >= 1'],
    'string-fn-on-number': ['contains(amount, "x")', 'startswith(5, "x")', 'normalized(amount, "x")', 'fuzzy(amount)', 'regex(5, "x")'],
    'arithmetic-on-strings': ['description + 1 > 2', 'description * description == ""', '"a" - "b" == 0', 'amount + description > 1'],
    'unary-minus-on-string': ['-description == 1', '-source == 0'],
    'aggregate-over-rows-or-strings': ['sum(r for r in rows) > 0', 'sum([r.item for r in rows]) > 0', 'sum(description) > 0',
                                       'sum(r.item for r in orders) == ""'],
    'aggregate-over-empty': ['max([r.amt for r in rows if r.amt > 1e12]) > 0', 'min(r.qty for r in rows if false) == 0', 'max(r.amt for r in empty) > 1'],
    'next-exhausted': ['next(r.amt for r in rows if r.amt > 1e12) > 0', 'next(r for r in empty).amt > 0'],
    'unknown-name': ['field.nope == "x"', 'nosuchvar > 1', 'txn.nope == 1', 'nosuchfunction(1) > 0', 'any(r.nope == 1 for r in orders)'],
    'bad-regex': ['regex("(")', 'extract("[a-") == ""', 'regex_replace(description, "(", "") == ""', 'regex(description, "*")',
                  'not regex("(")', 'not regex(description, "*")', 'regex("[a-") or true', 'not (extract("[a-") == "x")', 'regex("(?P<n>") == false'],
    'wrong-subscript': ['rows["x"].amt > 0', 'orders[99].amt > 0', 'rows[0][0] > 0', 'amount[0] > 1'],
    'len-of-number': ['len(5) > 0', 'len(amount) > 0'],
    'iterate-number': ['any(x for x in amount)', 'len([x for x in 5]) > 0', 'sum(x for x in month) > 0', '(d for d in amount)', '(k for k in field.nope)',
                       '[d for d in amount]', '(x.y for x in 5)'],
    'in-with-number': ['"a" in 5', 'description in amount', '1 in amount'],
    'invalid-iso-date': ['field.date > "2025-13-45"', 'txn.date <= "yesterday"'],
    # a date against a text that is not a date at all - blank included (an empty cell of a statement or of a supplemental row): no value, for == and != too
    'date-vs-blank-text': ['date != ""', 'not (date == "  ")', 'date != field.memo and field.memo == ""', 'txn.date != "" or false', 'date == "" or true'],
    'date-arithmetic': ['abs(date - "2025-01-01") <= 3', 'date + 1 > date', 'date - txn.date <= 3'],
    'method-misuse': ['description.startswith(5)', 'description.replace(1, 2) == ""', 'amount.lower() == ""', 'description.nosuch() == 1'],
    'wrong-arity': ['contains()', 'split("-") == ""', 'substring(1) == ""', 'round() > 0', 'abs() > 0', 'exists() or true', 'len() > 0'],
    'division-type': ['"a" / 2 > 1', 'amount % "x" == 0', 'description / amount > 0'],
    # a list comprehension whose per-row condition / element cannot be evaluated fails as a whole (it does not quietly yield a shorter list)
    'failing-row-in-list-comprehension': ['len([r for r in rows if r.nope > 0]) == 0', 'not [r.item for r in rows if r.amt > "x"]', 'len([r.nope for r in rows]) >= 0',
                                          'len([r for r in orders if r.item > 5]) == 0', '[r.amt + r.item for r in rows] == []',
                                          'len([s.nope for r in rows for s in orders]) == 0'],
    # text the loader does not validate where it stands (a {tag} expression): outside the expression language or not parseable at all - it yields no tag,
    # for the first transaction and for every later one (only placed as a dynamic tag; elsewhere the loader rejects the file)
    'not-in-the-language': ['description[0:6]', 'amount ** 2 > 1', 'f"m"', '[amount][0]', '1 +', 'amount >> 1', 'amount +* 2', '~month', 'lambda: 1'],
    # next(..., None) found nothing (no order for this purchase): reading a column of "nothing" has no value - under `!=` / `not` as little as under `==`
    'attribute-of-nothing': ['next((r for r in rows if r.amt > 1e12), None).item != "returned"', 'not (next((r for r in orders if r.qty > 99), None).amt == 5)',
                             'next((r for r in empty), None).amt != 1', 'next((r for r in rows if r.item == "zz-none"), None).qty not in [1]' if False else 'next((r for r in rows if r.item == "zz-none"), None).qty != 1'],
    # a bare name that is not defined (for this transaction): as a condition, as a let / field value and as a {tag} it yields nothing - not its own spelling
    'bare-unknown-name': ['nosuchname', 'reimbursable', 'project_code'],
    'falsy-non-number-divisor': ['amount / field.nope < 5', 'amount / "" < 5', 'amount % "" == 0', '10 / description.strip("abcdefghijklmnopqrstuvwxyzABCDEFGHIJKLMNOPQRSTUVWXYZ0123456789 .-*#\'") < 1'],
}
REF_DECIDES = {'failing-row-in-list-comprehension', 'unknown-name', 'attribute-of-nothing', 'bare-unknown-name', 'falsy-non-number-divisor', 'division-type', 'arithmetic-on-strings', 'date-vs-blank-text'}
POSITIONS = ['match-whole', 'match-and', 'match-or', 'let-extra', 'field-extra', 'tag-extra', 'transform', 'variable', 'let-shadows-global']

VIEW_POISONS = ['sum(by("month")) > 100', 'category > 5', 'payments > 3', 'months + "x" > 1', 'nosuchvar > 1', 'total / category > 1',
                'stddev(category) > 1', 'by("fortnight") == 1', 'max_val(1) > 0', 'avg(payments, 2) > 1', '"x" in months',
                'sum(tags) > 0', 'period("decade") > 1', 'nosuchfn(1)', 'count(total) > 0', '-category == 1']


def poison_fails(txns_states, poison, rows):
    """The real evaluator decides: True iff the bare poison cannot be evaluated on every given state of the item.
    Each state is evaluated twice: an expression that fails once and then evaluates (or the reverse) is reported as 'unstable'."""
    from tally import expr_parser as ep
    verdicts = []
    for t in txns_states:
        for _ in range(2):
            try:
                ep.evaluate_transaction(poison, copy.deepcopy(t), {}, O.copy_rows(rows))
                verdicts.append(False)
            except Exception:
                verdicts.append(True)   # ExpressionError, or a leaked Python error: either way "cannot be evaluated"
    if all(verdicts):
        return True
    if any(verdicts[i] != verdicts[i + 1] for i in range(0, len(verdicts), 2)):
        return 'unstable'
    return False


def poisoned(rf, pos, poison, rnd):
    """Returns (poisoned file, comparison file, ignore_field)."""
    rf2 = R.RuleFile.from_json(rf.to_json())
    base = rf
    if pos in ('match-whole', 'match-and', 'match-or') and not rf.rules:
        pos = 'variable'
    if pos == 'match-whole':
        i = rnd.randrange(len(rf.rules))
        rf2.rules[i].match = poison
        base = rf.with_rules([r for j, r in enumerate(rf.rules) if j != i])
    elif pos == 'match-and':
        i = rnd.randrange(len(rf.rules))
        rf2.rules[i].match = '(%s) and (%s)' % (rf.rules[i].match, poison) if rnd.random() < .5 else '(%s) and (%s)' % (poison, rf.rules[i].match)
        base = rf.with_rules([r for j, r in enumerate(rf.rules) if j != i])
    elif pos == 'match-or':
        i = rnd.randrange(len(rf.rules))
        rf2.rules[i].match = '(%s) or (%s)' % (rf.rules[i].match, poison)
        return rf2, None, None, pos, i          # compared per item: orig true -> as base file, orig false -> as without rule i
    elif pos == 'let-extra':
        if not rf.rules:
            return poisoned(rf, 'variable', poison, rnd)
        i = rnd.randrange(len(rf.rules))
        rf2.rules[i].lets = list(rf2.rules[i].lets)
        rf2.rules[i].lets.insert(rnd.randint(0, len(rf2.rules[i].lets)), ('zzbad', poison))
    elif pos == 'let-shadows-global':
        # a rule that never matches binds, FIRST thing, a name the file also defines at top level - with something that cannot be evaluated.  The binding
        # is that rule's own: every other rule keeps reading the top-level variable
        names = [n for n, _ in rf.variables] or ['big']
        shadow = R.Rule('ShadowLet', 'contains("zzzz-never-there") and %s == 1' % rnd.choice(names), 'ShadowCat', 'x', lets=[(rnd.choice(names), poison), ('zzother', '1')])
        k = rnd.randint(0, max(0, len(rf2.rules) - 1))
        rf2.rules = rf2.rules[:k] + [shadow] + rf2.rules[k:]
    elif pos == 'field-extra':
        if not rf.rules:
            return poisoned(rf, 'variable', poison, rnd)
        i = rnd.randrange(len(rf.rules))
        rf2.rules[i].fields = list(rf2.rules[i].fields)
        rf2.rules[i].fields.insert(rnd.randint(0, len(rf2.rules[i].fields)), ('zzbad', poison))
    elif pos == 'tag-extra':
        if not rf.rules:
            return poisoned(rf, 'variable', poison, rnd)
        i = rnd.randrange(len(rf.rules))
        rf2.rules[i].tags = list(rf2.rules[i].tags)
        rf2.rules[i].tags.insert(rnd.randint(0, len(rf2.rules[i].tags)), '{%s}' % poison)
    elif pos == 'transform':
        rf2.transforms = list(rf2.transforms)
        rf2.transforms.insert(rnd.randint(0, len(rf2.transforms)), (rnd.choice(['field.description', 'field.memo', 'field.zz']), poison))
    else:
        rf2.variables = list(rf2.variables)
        rf2.variables.insert(rnd.randint(0, len(rf2.variables)), ('zzbadvar', poison))     # before, between or after the file's own variables
        if rnd.random() < .5:
            # a rule that READS the unevaluable variable - under negation, inequality, a None test or a conditional - is itself unevaluable:
            # the same rule in the comparison file (where the variable simply does not exist) is skipped, so both files must agree
            reader = R.Rule('UsesBad', rnd.choice(['not zzbadvar', 'zzbadvar != "REFUND"', 'zzbadvar == None', '(1 if zzbadvar else 2) == 2', 'not (zzbadvar and false)',
                                                   'contains("") and not zzbadvar']), 'UsesBadCat', 'x', tags=['usesbad'])
            k = rnd.randint(0, len(rf2.rules))
            rf2.rules = rf2.rules[:k] + [reader] + rf2.rules[k:]
            base = rf.with_rules(rf.rules[:k] + [reader] + rf.rules[k:])
    return rf2, base, None, pos, None


def same(a, b, parts=('triple', 'tags', 'fields')):
    return [p for p in parts if a[p] != b[p]]


def judge(rec, rf, cls, poison, pos, txns, rows, tmp, rnd):
    if poison.startswith('(') and ' for ' in poison and pos in ('match-and', 'match-or'):
        # a bare generator expression is lazy: as an operand of and/or it is merely truthy and never consumed, so it does not fail there;
        # it only fails where it is the WHOLE value (which the evaluator materialises)
        pos = 'match-whole'
    if cls == 'not-in-the-language':
        pos = 'tag-extra'
    rf2, base, _, pos, ori = poisoned(rf, pos, poison, rnd)
    case0 = {'kind': 'poison', 'rf': rf.to_json(), 'cls': cls, 'poison': poison, 'pos': pos, 'rows': rows, 'rf2': rf2.to_json()}
    try:
        eng2 = O.load_engine(R.render(rf2))
    except Exception as e:
        rec.count('poisoned_file_rejected_at_load')   # the loader may reject; then nothing is "accepted" and C08 says nothing
        return
    if pos == 'match-or':
        eng_base, eng_wo = O.load_engine(R.render(rf)), O.load_engine(R.render(rf.with_rules([r for j, r in enumerate(rf.rules) if j != ori])))
        single = O.load_engine(R.render(rf.with_rules([rf.rules[ori]])))
    else:
        eng_base = O.load_engine(R.render(base))
    p2 = O.write(os.path.join(tmp, 'p.rules'), R.render(rf2))
    pb = O.write(os.path.join(tmp, 'b.rules'), R.render(rf if pos == 'match-or' else base))
    for txn in txns:
        rec.case()
        case = dict(case0, txns=[O.jtxn(txn)])
        try:
            tt = R.apply_transforms_ref(txn, rf.transforms)
        except R.OutOfDomain:
            continue
        pf = poison_fails([txn, tt], poison, rows)
        if pf == 'unstable':
            rec.violation('failure-to-evaluate-is-not-stable', f'{cls}: {poison!r} cannot be evaluated the first time and evaluates the second time (or the reverse) on the '
                          f'same transaction {txn.get("description")!r}: whether the rule is skipped depends on what was evaluated before', case)
            continue
        if not pf:
            rec.count('poison_evaluates_here')
            # the implementation itself decides what "cannot be evaluated" means - except where an independent reading of the language says
            # the expression has no value at all (a name/attribute that does not exist on some row, a string compared with a number ...):
            # then an implementation that DOES produce a value has turned a failure into a result
            if cls in REF_DECIDES:
                try:
                    lang.Ref(tt, {}, rows).eval_str(poison)
                except (lang.RefError, TypeError):
                    rec.count('reference_says_unevaluable_checks')
                    rec.violation('unevaluable-expression-yields-a-value:' + cls, f'{poison!r} has no value for {txn.get("description")!r} (reference interpreter: not evaluable) '
                                  f'but the implementation evaluates it', case)
                except Exception:
                    pass
            continue
        if cls in REF_DECIDES:
            rec.count('reference_says_unevaluable_checks')
        rec.count('poison_confirmed_failing')
        rec.count('cls:' + cls)
        rec.count('pos:' + pos)
        # --- engine
        try:
            o2 = O.engine_result(eng2, tt, rows)
        except O.ImplError as e:
            rec.violation('match-aborts:' + type(e.exc).__name__ + ':' + pos, f'{cls} at {pos}: {e} (poison {poison!r})', case)
            continue
        try:
            if pos == 'match-or':
                orig_true = bool(O.engine_result(single, tt, rows)['matching'])
                ob = O.engine_result(eng_base if orig_true else eng_wo, tt, rows)
            else:
                ob = O.engine_result(eng_base, tt, rows)
        except O.ImplError:
            continue
        rec.count('engine_checks')
        bad = same(o2, ob)
        if bad:
            rec.violation('failing-element-changes-outcome:' + pos, f'{cls} at {pos} (poison {poison!r}): {bad} differ: with failing element '
                          f'{ {p: o2[p] for p in bad} }, without it { {p: ob[p] for p in bad} } for {txn.get("description")!r}', case)
        if len(ob['matching']) >= 1:
            rec.interesting([cls, pos, core.digest(rf.to_json()), core.digest(O.jtxn(txn))])
        # --- production path (one file loaded at a time: get_all_rules caches one engine per process)
        if pos != 'match-or':
            try:
                pr2 = O.production_load(p2)
                q2 = O.production_result(pr2[0], pr2[1], txn, rows)
                prb = O.production_load(pb)
                qb = O.production_result(prb[0], prb[1], txn, rows)
                rec.count('production_checks')
                bad = same(q2, qb)
                if bad:
                    rec.violation('failing-element-changes-outcome:production:' + pos, f'{cls} at {pos} (poison {poison!r}): normalize_merchant '
                                  f'{ {p: q2[p] for p in bad} } vs { {p: qb[p] for p in bad} }', case)
            except O.ImplError as e:
                rec.violation('normalize_merchant-aborts:' + type(e.exc).__name__ + ':' + pos, f'{cls} at {pos}: {e} (poison {poison!r})', case)


def judge_legacy(rec, rnd, tmp):
    """Legacy tuple loop: expression patterns and bad regexes inside the rule tuples."""
    from tally import merchant_utils as mu
    cr = [c for c in R.gen_csv_rules(rnd, rnd.randint(2, 6))]
    from vt.checks.c01 import expression_like
    cr = [c for c in cr if not expression_like(c.pattern)]
    if not cr:
        return
    # (some of the broken patterns occur LITERALLY in statement descriptions: '*7', '*COSTCO', '(EU' - an invalid regular expression matches nothing all the same)
    bad = R.CsvRule(rnd.choice(['(', '[a-', '*X', 'A{2,1}', '*7', '*COSTCO', '*STAR', '+', 'Mktp US*7 (', '(EU', 'bucks  *7', '*', '(?P<n>x)(?P<n>y)', 'contains(amount, "x")', 'description + 1 > 2', 'regex("(")',
                                'field.nope == "x"', 'startswith(5, "a")']), [], 'Bad', 'BadCat', 'BadSub', ['badtag'])
    pos = rnd.randint(0, len(cr))
    with_bad = cr[:pos] + [bad] + cr[pos:]
    pa = O.write(os.path.join(tmp, 'a.csv'), R.render_csv(with_bad))
    pb = O.write(os.path.join(tmp, 'b.csv'), R.render_csv(cr))
    mu.clear_engine_cache()
    ra, rb = mu.get_all_rules(pa), mu.get_all_rules(pb)
    for txn in world.pool(rnd, 8):
        rec.case()
        case = {'kind': 'legacy', 'rules': [c.to_json() for c in with_bad], 'txns': [O.jtxn(txn)]}
        try:
            oa = O.production_result(ra, [], txn, {})
        except O.ImplError as e:
            rec.violation('legacy-path-aborts:' + type(e.exc).__name__, f'bad row {bad.pattern!r}: {e}', case)
            continue
        ob = O.production_result(rb, [], txn, {})
        rec.count('legacy_csv_checks')
        d = same(oa, ob, ('triple', 'tags'))
        if d:
            rec.violation('legacy-failing-row-changes-outcome', f'bad row {bad.pattern!r}: {d}: {oa["triple"]}/{sorted(oa["tags"])} vs '
                          f'{ob["triple"]}/{sorted(ob["tags"])}', case)


def judge_parse(rec, rf, cls, poison, pos, rows, tmp, rnd):
    """parse_generic_csv with a poisoned rules file returns the same transactions as with the clean comparison file."""
    from tally.format_parser import parse_format_string
    from tally.parsers import parse_generic_csv
    if pos == 'match-or' or (poison.startswith('(') and ' for ' in poison and pos == 'match-and'):
        return
    rf2, base, _, pos, _ = poisoned(rf, pos, poison, rnd)
    txns = [t for t in world.pool(rnd, 10) if t.get('date') and t['description'].strip() and t['amount'] != 0]
    data = os.path.join(tmp, 'd.csv')
    with open(data, 'w', newline='', encoding='utf-8') as f:
        w = csv.writer(f)
        w.writerow(['d', 'desc', 'memo', 'code', 'amt'])
        for t in txns:
            w.writerow([t['date'].isoformat(), t['description'], t['field']['memo'], t['field']['code'], repr(float(t['amount']))])
    spec = parse_format_string('{date:%Y-%m-%d},{description},{memo},{code},{amount}')
    outs = []
    for rfx, nm in ((rf2, 'p.rules'), (base, 'b.rules')):
        try:
            O.load_engine(R.render(rfx))
        except Exception:
            return
        path = O.write(os.path.join(tmp, nm), R.render(rfx))
        pr, ptr = O.production_load(path)
        try:
            outs.append(parse_generic_csv(data, spec, pr, source_name='Amex', transforms=ptr, data_sources=O.copy_rows(rows)))
        except Exception as e:
            rec.violation('parse_generic_csv-aborts:' + type(e).__name__, f'{cls} at {pos} (poison {poison!r}): {type(e).__name__}: {e}',
                          {'kind': 'poison', 'rf': rf.to_json(), 'cls': cls, 'poison': poison, 'pos': pos, 'rows': rows, 'txns': []})
            return
    rec.count('parse_generic_csv_checks')
    a, b = outs
    states_fail = all(poison_fails([dict(t, description=t['description'].strip(), source='Amex')], poison, rows) is True for t in txns)
    if len(a) != len(b):
        rec.violation('failing-element-loses-rows', f'{cls} at {pos}: {len(a)} transactions with the failing element, {len(b)} without',
                      {'kind': 'poison', 'rf': rf.to_json(), 'cls': cls, 'poison': poison, 'pos': pos, 'rows': rows, 'txns': []})
    elif states_fail:
        for x, y in zip(a, b):
            if (x['merchant'], x['category'], x['subcategory'], sorted(x['tags'])) != (y['merchant'], y['category'], y['subcategory'], sorted(y['tags'])):
                rec.violation('failing-element-changes-parsed-transaction:' + pos, f'{cls} at {pos} (poison {poison!r}): '
                              f'{(x["merchant"], x["category"], x["subcategory"], sorted(x["tags"]))} vs {(y["merchant"], y["category"], y["subcategory"], sorted(y["tags"]))}',
                              {'kind': 'poison', 'rf': rf.to_json(), 'cls': cls, 'poison': poison, 'pos': pos, 'rows': rows, 'txns': []})
                break


def make_stats(rnd):
    from tally.analyzer import analyze_transactions
    txns = []
    for m in range(rnd.randint(3, 8)):
        cat, sub = rnd.choice(R.CATS)
        for k in range(rnd.randint(1, 6)):
            txns.append({'amount': round(rnd.uniform(-50, 900), 2), 'tags': rnd.choice([[], ['recurring'], ['Business', 'x']]), 'merchant': 'M%d' % m,
                         'category': cat, 'subcategory': sub, 'date': datetime(rnd.choice([2024, 2025]), rnd.randint(1, 12), rnd.randint(1, 28)),
                         'description': 'd', 'raw_description': 'RAW', 'source': 'S'})
    return analyze_transactions(txns)


def judge_views(rec, rnd):
    from tally.section_engine import parse_sections, SectionParseError
    from tally.analyzer import classify_by_sections
    stats = make_stats(rnd)
    good = [('Food', 'category == "Food"'), ('All', 'true'), ('Big', 'total > 500'), ('Freq', 'months >= 2 and cv < 5'),
            ('Tagged', '"recurring" in tags'), ('Monthly', 'max(sum(by("month"))) > 100')]
    views = rnd.sample(good, rnd.randint(2, 4))
    poison = rnd.choice(VIEW_POISONS)
    mode = rnd.choice(['filter', 'filter-and', 'local-var', 'global-var', 'local-shadows-global', 'global-chain'])
    def text(vs, gl=''):
        return gl + '\n'.join('[%s]\n%sfilter: %s\n' % (n, ''.join('%s = %s\n' % lv for lv in loc), f) for n, loc, f in vs)
    base = [(n, [], f) for n, f in views]
    if mode == 'filter':
        pv = base[:]
        pv.insert(rnd.randint(0, len(pv)), ('Poisoned', [], poison))
        ptxt, btxt, gone = text(pv), text(base), 'Poisoned'
    elif mode == 'filter-and':
        pv = base[:]
        pv.insert(rnd.randint(0, len(pv)), ('Poisoned', [], '(%s) and true' % poison))
        ptxt, btxt, gone = text(pv), text(base), 'Poisoned'
    elif mode == 'local-shadows-global':
        # a view redefines a GLOBAL variable locally with something that cannot be evaluated; the views that use the global are untouched
        gl = 'thr = %s\n' % rnd.choice(['100', '20', 'total / 2'])
        users = [('UsesG1', [], 'total > thr'), ('UsesG2', [], 'months >= 1 and total >= thr')]
        base = base + users
        rnd.shuffle(base)
        pv = base[:]
        pv.insert(rnd.randint(0, len(pv)), ('Poisoned', [('thr', poison)], 'total > thr'))
        ptxt, btxt, gone = text(pv, gl), text(base, gl), None
    elif mode == 'global-chain':
        # variables that refer to variables declared LATER in the file, which in turn cannot be evaluated (undefined name, a cycle, itself)
        gl = rnd.choice(['zzbig = total > zzthreshold\nzzthreshold = avg(payments) * zzscale\n', 'zza = zzb + 1\nzzb = zza + 1\nzzbig = zza > 0\n', 'zzbig = zzbig or total > 1\n',
                         'zzbig = total > zzlater\nzzlater = %s\n' % poison, 'zzbig = zzmid > 1\nzzmid = zzend * 2\nzzend = months + nosuchname\n'])
        pv = base[:]
        pv.insert(rnd.randint(0, len(pv)), ('Poisoned', [], 'zzbig'))
        ptxt, btxt, gone = text(pv, gl), text(base), 'Poisoned'
        poison = gl.strip().replace('\n', ' ; ')
    elif mode == 'local-var':
        i = rnd.randrange(len(base))
        pv = base[:]
        pv[i] = (pv[i][0], [('zzbad', poison)], pv[i][2])
        ptxt, btxt, gone = text(pv), text(base), None
    else:
        # the failing variable's NAME may occur inside the text of filters that never read it ("month" in "months", "tot" in "total"),
        # or in an operand that short-circuit evaluation does not reach
        nm = rnd.choice(['zzbad', 'zzbad', 'month', 'cat', 'tot', 'sum', 'tag', 'm', 'ue'])
        if rnd.random() < .4:
            base = base + [('ShortCircuit', [], 'true or %s > 50' % nm), ('ShortCircuit2', [], 'not (false and %s > 50)' % nm)]
        ptxt, btxt, gone = text(base, '%s = %s\n' % (nm, poison)), text(base), None
    case = {'kind': 'views', 'views': ptxt, 'poison': poison, 'mode': mode}
    rec.case()
    try:
        pcfg, bcfg = parse_sections(ptxt), parse_sections(btxt)
    except SectionParseError:
        rec.count('poisoned_views_rejected_at_load')
        return
    try:
        pr = classify_by_sections(stats['by_merchant'], pcfg, stats['num_months'])
    except Exception as e:
        rec.violation('classify_by_sections-aborts:' + type(e).__name__, f'{mode} poison {poison!r}: {type(e).__name__}: {e}', case)
        return
    br = classify_by_sections(stats['by_merchant'], bcfg, stats['num_months'])
    rec.count('views_checks')
    rec.interesting(['views', mode, poison])
    if gone and pr.get(gone):
        rec.violation('unevaluable-filter-admits-merchants', f'{mode} poison {poison!r}: view has members {[m for m, _ in pr[gone]]}', case)
    for n in br:
        if [m for m, _ in br[n]] != [m for m, _ in pr.get(n, [])]:
            rec.violation('failing-view-element-changes-other-view', f'{mode} poison {poison!r}: view {n}: {[m for m, _ in pr.get(n, [])]} vs {[m for m, _ in br[n]]}', case)
            break


def field_dependent_failure_probe(rec, tmp):
    """Rows of ONE statement that repeat description, amount, day and location and differ only in a custom column the rule needs: whether the rule can be
    evaluated is decided per row - each row is classified as it is when it is the only row of the file."""
    from tally.format_parser import parse_format_string
    from tally.parsers import parse_generic_csv
    text = ('[Ordered]\nlet: o = next(r.amt for r in orders if r.item == field.ref)\nmatch: contains("AMAZON") and o > 0\ncategory: Shopping\nsubcategory: Matched\n'
            'field: order_amt = o\ntags: ordered, {field.ref}\n\n'
            '[Divide]\nmatch: contains("AMAZON") and amount / len(field.note) > 1\ncategory: Shopping\nsubcategory: Noted\n\n'
            '[Amazon]\nmatch: contains("AMAZON")\ncategory: Shopping\nsubcategory: General\n')
    path = O.write(os.path.join(tmp, 'fd.rules'), text)
    rules, transforms = O.production_load(path)
    rows = {'orders': [{'amt': 25.0, 'item': 'Book'}, {'amt': 9.0, 'item': 'Cable'}]}
    spec = parse_format_string('{date:%Y-%m-%d},{description},{amount},{ref},{note}')
    variants = [('Book', 'gift'), ('zzz', ''), ('Cable', ''), ('', 'x'), ('Book', ''), ('nope', 'long note')]

    def read(lines):
        p = os.path.join(tmp, 'fd.csv')
        with open(p, 'w', encoding='utf-8') as f:
            f.write('Date,Description,Amount,Ref,Note\n' + ''.join('2025-03-04,AMAZON MKTP US,25.00,%s,%s\n' % v for v in lines))
        out = parse_generic_csv(p, spec, rules, source_name='Card', transforms=transforms, data_sources=O.copy_rows(rows))
        return [(t['merchant'], t['category'], t['subcategory'], sorted(t['tags']), repr(sorted((t.get('extra_fields') or {}).items()))) for t in out]
    try:
        alone = {v: read([v])[0] for v in variants}
        for order in (variants, variants[::-1], [variants[1], variants[0], variants[3], variants[2], variants[5], variants[4]]):
            got = read(order)
            rec.count('field_dependent_failure_rows', len(order))
            for v, g in zip(order, got):
                if g != alone[v]:
                    rec.violation('failing-rule-applied-or-skipped-by-what-an-earlier-row-did', f'row with ref={v[0]!r} note={v[1]!r} (the rows differ in these columns only) is classified '
                                  f'{g} in a file of {len(order)} rows and {alone[v]} as the only row', {'kind': 'field-dependent'})
                    return
    except Exception as e:
        rec.violation('parse_generic_csv-aborts:' + type(e).__name__, f'field-dependent failure probe: {type(e).__name__}: {e}', {'kind': 'field-dependent'})


def transform_created_field_probe(rec, tmp):
    """A statement WITHOUT custom columns, a transform that creates a field and cannot be evaluated for some rows, a rule that reads that field: for a row whose
    transform fails the field does not exist (the rule is skipped) - whatever an earlier row, an earlier file or an earlier call produced."""
    from tally.format_parser import parse_format_string
    from tally.parsers import parse_generic_csv
    from tally import merchant_utils as mu
    text = ('field.code = description[14]\n\n[Coded]\nmatch: field.code == "X"\ncategory: Coded\nsubcategory: Yes\ntags: {field.code}\n\n'
            '[Shop]\nmatch: contains("SHOP")\ncategory: Shopping\nsubcategory: General\n')
    path = O.write(os.path.join(tmp, 'tf.rules'), text)
    rules, transforms = O.production_load(path)
    spec = parse_format_string('{date:%Y-%m-%d},{description},{amount}')
    descs = ['SHOP #42 CODE X', 'SHOP PLAIN', 'SHOP #07 CODE Y', 'SHOP TWO', 'SHOP #42 CODE X']

    def read(lines):
        p = os.path.join(tmp, 'tf.csv')
        with open(p, 'w', encoding='utf-8') as f:
            f.write('Date,Description,Amount\n' + ''.join('2025-03-04,%s,25.00\n' % d for d in lines))
        return [(t['category'], t['subcategory'], sorted(t['tags'])) for t in parse_generic_csv(p, spec, rules, source_name='Card', transforms=transforms)]
    try:
        alone = {d: read([d])[0] for d in ['SHOP PLAIN', 'SHOP TWO', 'SHOP #07 CODE Y', 'SHOP #42 CODE X']}      # (the failing rows first: nothing has succeeded yet)
        got = read(descs)
        rec.count('transform_created_field_rows', len(descs))
        for d, g in zip(descs, got):
            if g != alone[d]:
                rec.violation('failing-transform-leaves-an-earlier-rows-value', f'row {d!r} is classified {g} after the rows {descs[:descs.index(d)]}, and {alone[d]} as the only row of '
                              f'the file (the transform `field.code = description[14]` cannot be evaluated for the short ones)', {'kind': 'transform-field'})
                return
        # the same through two consecutive calls of normalize_merchant (explain "<a>" "<b>")
        r1 = mu.normalize_merchant('SHOP #42 CODE X', rules, amount=25.0, transforms=transforms)
        r2 = mu.normalize_merchant('SHOP PLAIN', rules, amount=25.0, transforms=transforms)
        rec.count('transform_created_field_rows', 2)
        if (r2[1], r2[2]) != alone['SHOP PLAIN'][:2]:
            rec.violation('failing-transform-leaves-an-earlier-rows-value', f'normalize_merchant("SHOP PLAIN") right after normalize_merchant("SHOP #42 CODE X") gives {(r2[1], r2[2])}, '
                          f'alone {alone["SHOP PLAIN"][:2]}', {'kind': 'transform-field'})
    except Exception as e:
        rec.violation('parse_generic_csv-aborts:' + type(e).__name__, f'transform-created field probe: {type(e).__name__}: {e}', {'kind': 'transform-field'})


def loader_rows_probe(rec, tmp):
    """Supplemental rows as the real loader builds them: a rule that reads a column those rows do not have - by attribute or by subscript - cannot be
    evaluated and is skipped; the outcome is what the file without that rule gives."""
    from tally.config_loader import load_config, load_supplemental_sources
    from tally.merchant_engine import parse_merchants
    root = os.path.join(tmp, 'loaderrows')
    shutil.rmtree(root, ignore_errors=True)
    os.makedirs(os.path.join(root, 'config'))
    os.makedirs(os.path.join(root, 'data'))
    O.write(os.path.join(root, 'data', 'orders.csv'), 'Date,Amount,Item\n2025-01-04,20.00,Lamp\n2025-02-11,99.00\n')
    O.write(os.path.join(root, 'data', 'card.csv'), 'Date,Description,Amount\n2025-01-05,AMAZON MKTP,20.00\n')
    O.write(os.path.join(root, 'config', 'settings.yaml'), 'year: 2025\ndata_sources:\n  - name: Card\n    file: data/card.csv\n    format: "{date:%Y-%m-%d},{description},{amount}"\n'
            '  - name: Orders\n    file: data/orders.csv\n    supplemental: true\n    format: "{date:%Y-%m-%d},{amount},{description}"\n')
    cfgd = os.path.join(root, 'config')
    base = '[Amazon]\nmatch: contains("AMAZON")\ncategory: Shopping\nsubcategory: Online\n'
    txn = {'description': 'AMAZON MKTP', 'amount': 20.0, 'date': datetime(2025, 1, 5).date(), 'field': None, 'source': 'Card'}
    try:
        for bad in ('any(r["gift"] == "" for r in orders)', 'any(r.gift == "" for r in orders)', 'len([r for r in orders if r["wrap"] != "x"]) > 0', 'orders[0]["note"] == ""',
                    'any(r["description"] == "" for r in orders) and false or orders[1]["memo"] == ""'):
            text = '[Gift]\nmatch: contains("AMAZON") and %s\ncategory: Gifts\nsubcategory: Online\ntags: gift\n\n' % bad + base
            outs = []
            for t_ in (text, base):
                loaded = load_supplemental_sources(load_config(cfgd), cfgd)
                r = parse_merchants(t_).match(copy.deepcopy(txn), data_sources=loaded)
                outs.append((r.merchant, r.category, r.subcategory, sorted(r.tags)))
            rec.case()
            rec.count('loader_rows_unknown_column_checks')
            if outs[0] != outs[1]:
                rec.violation('failing-element-changes-outcome:unknown-column-of-loader-built-rows', f'rule reading a column the supplemental rows do not have ({bad}) over the rows '
                              f'load_supplemental_sources builds: {outs[0]}, without that rule {outs[1]}', {'kind': 'loader-rows'})
                break
    except Exception as e:
        rec.unsure('loader rows probe failed: %s: %s' % (type(e).__name__, e))
    finally:
        shutil.rmtree(root, ignore_errors=True)


def cli_run(rec, rnd, tmp, k):
    """`tally up` on a budget whose rules and views carry poisons: exit 0, all rows of all sources counted."""
    b = os.path.join(tmp, 'budget%d' % k)
    os.makedirs(os.path.join(b, 'config'))
    os.makedirs(os.path.join(b, 'data'))
    cls = rnd.choice(sorted(POISONS))
    poison = rnd.choice(POISONS[cls])
    vp = rnd.choice(VIEW_POISONS)
    rows = [('2025-01-0%d' % (i + 1), d, 10.0 + i) for i, d in enumerate(['NETFLIX.COM', 'UBER EATS 42', 'COSTCO GAS 100', 'Plain Vendor'])]
    for name in ('a', 'b'):
        with open(os.path.join(b, 'data', name + '.csv'), 'w', newline='') as f:
            w = csv.writer(f)
            w.writerow(['Date', 'Description', 'Amount'])
            for r in rows:
                w.writerow(r)
    O.write(os.path.join(b, 'config', 'merchants.rules'),
            'zzbadvar = %s\nfield.description = %s\n\n[Bad]\nmatch: %s\ncategory: BadCat\n\n[Netflix]\nlet: zz = %s\nmatch: contains("NETFLIX")\ncategory: Subs\n'
            'field: f = %s\ntags: a, {%s}\n\n[Uber]\nmatch: contains("UBER") or (%s)\ncategory: Food\n' % ((poison,) * 7))
    # (the variable that cannot be evaluated may be named like a primitive - cv, total, months - which it then shadows, as nothing)
    gname = rnd.choice(['zzg', 'zzg', 'cv', 'total', 'months'])
    only_bad = rnd.random() < .5
    if only_bad:
        # every view of the file is one whose filter cannot be evaluated: no view has a member, the reports are written all the same
        O.write(os.path.join(b, 'config', 'views.rules'), '[Bad View]\nfilter: %s\n\n[Typo]\nfilter: monthly_avrage > 10\n' % vp)
        rec.count('cli_budgets_whose_every_view_is_unevaluable')
    else:
        O.write(os.path.join(b, 'config', 'views.rules'), '%s = %s\n[Bad View]\nfilter: %s\n\n[All]\nfilter: total > 0\n\n[Everything]\nfilter: true\n' % (gname, vp, vp))
    O.write(os.path.join(b, 'config', 'settings.yaml'),
            'year: 2025\nmerchants_file: config/merchants.rules\nviews_file: config/views.rules\ndata_sources:\n' +
            ''.join('  - name: %s\n    file: data/%s.csv\n    format: "{date:%%Y-%%m-%%d},{description},{amount}"\n' % (n.upper(), n) for n in ('a', 'b')))
    try:
        # the statement speaks of files the loader ACCEPTS: a poison that is not part of the language (a list literal ...) is not a case
        from tally.merchant_engine import parse_merchants
        from tally.section_engine import parse_sections
        parse_merchants(open(os.path.join(b, 'config', 'merchants.rules')).read())
        parse_sections(open(os.path.join(b, 'config', 'views.rules')).read())
    except Exception:
        rec.count('cli_budget_rejected_by_the_loader_not_a_case')
        shutil.rmtree(b, ignore_errors=True)
        return
    env = dict(os.environ, PYTHONPATH=core.SRC, PYTHONDONTWRITEBYTECODE='1', NO_COLOR='1')
    env.pop('TALLY_CONFIG', None)
    case = {'kind': 'cli', 'poison': poison, 'view_poison': vp, 'cls': cls, 'view_variable': gname}
    rec.case()
    for fmt in ('json', 'summary'):
        p = subprocess.run([core.PY, '-m', 'tally', 'up', os.path.join(b, 'config'), '--format', fmt, '-v'], cwd=b, env=env,
                           capture_output=True, text=True, stdin=subprocess.DEVNULL, timeout=120)
        rec.count('cli_runs')
        if p.returncode != 0:
            rec.violation('tally-up-aborts:' + fmt, f'exit {p.returncode} with rule poison {poison!r}, view poison {vp!r}: {(p.stderr or p.stdout)[-300:]}', case)
            return
        if 'A: 4 transactions' not in p.stdout or 'B: 4 transactions' not in p.stdout:
            rec.violation('tally-up-loses-source', f'poison {poison!r}: per-source counts missing/wrong: {p.stdout[:400]!r}', case)
            return
    # the HTML report (default run, progress and summary printed on the way): written
    p = subprocess.run([core.PY, '-m', 'tally', 'up', os.path.join(b, 'config')], cwd=b, env=env, capture_output=True, text=True, stdin=subprocess.DEVNULL, timeout=120)
    rec.count('cli_runs')
    if p.returncode != 0 or not os.path.exists(os.path.join(b, 'output', 'spending_summary.html')):
        rec.violation('tally-up-aborts:html', f'default run: exit {p.returncode}, report written: {os.path.exists(os.path.join(b, "output", "spending_summary.html"))}; rule poison '
                      f'{poison!r}, view poison {vp!r}, every view unevaluable: {only_bad}: {(p.stderr or p.stdout)[-300:]}', case)
        return
    # the per-merchant report of `tally explain` is a report too: it is not lost to the view variable that cannot be evaluated
    for fmt in ('json', 'text', 'markdown'):
        p = subprocess.run([core.PY, '-m', 'tally', 'explain', 'Netflix', os.path.join(b, 'config'), '--format', fmt, '-v'], cwd=b, env=env,
                           capture_output=True, text=True, stdin=subprocess.DEVNULL, timeout=120)
        rec.count('cli_runs')
        rec.count('explain_merchant_reports')
        if p.returncode != 0 or 'Netflix' not in p.stdout or 'Traceback' in p.stderr:
            rec.violation('tally-explain-aborts:' + fmt, f'explain Netflix --format {fmt}: exit {p.returncode} with view variable `{gname} = {vp}`: {(p.stderr or p.stdout)[-300:]}', case)
            return
    rec.interesting(['cli', poison, vp])
    shutil.rmtree(b, ignore_errors=True)


def run(rec, shard, nshards, t):
    core.import_tally()
    rnd = core.rng_for('C08', shard)
    tmp = tempfile.mkdtemp(prefix='vt-c08-')
    try:
        gen = R.RuleGen(rnd)
        n = (1500 if t == 'quick' else 60000) // nshards
        classes = sorted(POISONS)
        for i in range(n):
            rf = gen.rule_file(nrules=rnd.randint(1, 6), transforms=rnd.random() < .3)
            cls = classes[(i * nshards + shard) % len(classes)]
            poison = rnd.choice(POISONS[cls])
            pos = POSITIONS[(i // len(classes) + shard) % len(POSITIONS)]
            rows = dict(world.ROWS, empty=[])
            judge(rec, rf, cls, poison, pos, world.pool(rnd, 10, with_fields=rnd.random() < .6), rows, tmp, rnd)
            if i % 6 == 0:
                judge_parse(rec, rf, cls, poison, pos, rows, tmp, rnd)
            if i % 4 == 0:
                judge_views(rec, rnd)
            if i % 8 == 0:
                judge_legacy(rec, rnd, tmp)
            if i < 2 and shard == 0:
                rec.sample({'class': cls, 'poison': poison, 'position': pos})
        for k in range(max(1, (8 if t == 'quick' else 160) // nshards)):
            cli_run(rec, rnd, tmp, k)
        if shard == 0:
            loader_rows_probe(rec, tmp)
            field_dependent_failure_probe(rec, tmp)
            transform_created_field_probe(rec, tmp)
    finally:
        shutil.rmtree(tmp, ignore_errors=True)


def replay(rec, case):
    core.import_tally()
    rnd = core.rng_for('C08', 'replay')
    tmp = tempfile.mkdtemp(prefix='vt-c08-')
    try:
        if case['kind'] == 'loader-rows':
            loader_rows_probe(rec, tmp)
            return
        if case['kind'] == 'field-dependent':
            field_dependent_failure_probe(rec, tmp)
            return
        if case['kind'] == 'transform-field':
            transform_created_field_probe(rec, tmp)
            return
        if case['kind'] == 'poison':
            rf = R.RuleFile.from_json(case['rf'])
            txns = [O.untxn(x) for x in case['txns']] or world.pool(rnd, 10)
            for _ in range(8):
                judge(rec, rf, case['cls'], case['poison'], case['pos'], txns, case['rows'], tmp, rnd)
                judge_parse(rec, rf, case['cls'], case['poison'], case['pos'], case['rows'], tmp, rnd)
        elif case['kind'] == 'views':
            for _ in range(200):
                judge_views(rec, rnd)
        elif case['kind'] == 'legacy':
            for _ in range(50):
                judge_legacy(rec, rnd, tmp)
        else:
            for k in range(6):
                cli_run(rec, rnd, tmp, k)
    finally:
        shutil.rmtree(tmp, ignore_errors=True)

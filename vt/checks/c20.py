"""C20 - commands never alter or overwrite the user's statements, rules or settings.

Two independent monitors around every command of random non-interactive command sequences on generated budgets:
  * result-based: content hashes of every file under the budget directory before / after;
  * attempt-based: the child process' own file-system effect log (audit-hook injector in record mode), which also sees a
    write-then-restore or a failed attempt.
up / explain / discover / diag / inspect may only create files in the output location.  init keeps every existing file
(settings may only gain appended lines) and creates only what is missing.  Migration happens only with --migrate (or init
on a folder with a legacy CSV and no merchants.rules) and keeps the original rules as a byte-identical backup.
"""
import hashlib
import json
import os
import shutil
import subprocess
import tempfile

from vt import core, budget as B, rules as R

SPEC = {
    'level': 'exploration',
    'shards': {'quick': 8, 'thorough': 16},
    'rule': ('budget directories: old (./config) and new (./tally/config) layout x rules as .rules / legacy CSV with rules / legacy CSV with only a '
             'header / none x views file present or not x existing .bak or not x stray merchants.rules next to a CSV x output dir present or '
             'not; sequences of 3-8 commands from up (html/json/summary/markdown, -q, --no-embedded-html, --output), explain, discover, diag, '
             'inspect, init, up --migrate. Non-trivial = (budget shape, command) pair in which the command produced at least one file-system '
             'effect or the budget carries a legacy CSV; distinct by (shape, command, previous command)'),
    'exhaustive': {'quick': False, 'thorough': False},
    'required_counters': ['commands_run', 'tree_snapshot_checks', 'effect_log_checks', 'effects_observed', 'init_runs', 'migrate_runs'],
    'assumptions': ['commands run non-interactively (stdin = /dev/null, stdout not a tty)', 'the output location is <budget>/output (output_dir setting) or the --output path'],
}

INJECT = os.path.join(core.VERIF, 'vt', 'inject')


def snapshot(root):
    out = {}
    for dp, dn, fn in os.walk(root):
        for f in fn:
            p = os.path.join(dp, f)
            with open(p, 'rb') as fh:
                out[os.path.relpath(p, root)] = hashlib.sha256(fh.read()).hexdigest()
        for d in dn:
            out[os.path.relpath(os.path.join(dp, d), root) + '/'] = 'dir'
    return out


def read(root, rel):
    with open(os.path.join(root, rel), 'rb') as f:
        return f.read()


def run_cmd(root, cwd, args, log):
    if os.path.exists(log):
        os.unlink(log)
    env = {'VT_INJECT_LOG': log, 'VT_INJECT_ROOT': root, 'PYTHONPATH': os.pathsep.join([INJECT, core.SRC])}
    while args and args[0].startswith('ENV:'):          # e.g. ENV:TALLY_CONFIG=/path/ - the config directory named through the environment
        k, v = args[0][4:].split('=', 1)
        env[k] = v
        args = args[1:]
    args = [a for a in args if not a.startswith('CWDREL:')]
    if args and args[0].startswith('CWD:'):             # the command is run while standing somewhere else
        cwd, args = args[0][4:], args[1:]
    p = B.tally(cwd, *args, env_extra=env)
    effects = []
    if os.path.exists(log):
        for l in open(log):
            try:
                effects.append(json.loads(l))
            except ValueError:
                pass
    return p, effects


def make_shape(rnd, tmp, k, focus=False):
    layout = rnd.choice(['old', 'old', 'new'])
    rules = 'csv' if focus else rnd.choice(['rules', 'csv', 'csv', 'csv-empty', 'none'])
    b = B.gen_budget(rnd, rules={'csv-empty': 'csv'}.get(rules, rules), layout=layout, supplemental=rnd.random() < .2)
    if rules == 'csv-empty':
        b['csv_rules'] = []
    root = os.path.join(tmp, 'c%d' % k)
    os.makedirs(root)
    cfg = B.write_budget(b, root)
    base = os.path.dirname(cfg)
    shape = {'layout': layout, 'rules': rules, 'views': bool(b['views'])}
    if rules.startswith('csv'):
        if rnd.random() < .35:
            with open(os.path.join(cfg, 'merchant_categories.csv.bak'), 'w') as f:
                f.write('Pattern,Merchant,Category,Subcategory\nOLD BACKUP,Precious,Old,Rules\n')
            shape['bak'] = True
            if rnd.random() < .5:
                # an earlier backup that LOOKS like the current file to a shallow comparison: same size, same mtime, other content
                cur = open(os.path.join(cfg, 'merchant_categories.csv'), 'rb').read()
                if len(cur) > 8:
                    alt = bytearray(cur)
                    for i in range(len(alt) - 1, -1, -1):
                        if chr(alt[i]).isalpha():
                            alt[i] = ord(chr(alt[i]).swapcase())
                            break
                    if bytes(alt) != cur:
                        with open(os.path.join(cfg, 'merchant_categories.csv.bak'), 'wb') as f:
                            f.write(bytes(alt))
                        for nm in ('merchant_categories.csv', 'merchant_categories.csv.bak'):
                            os.utime(os.path.join(cfg, nm), (1700000000, 1700000000))
                        shape['bak_lookalike'] = True
        if shape.get('bak') and not shape.get('bak_lookalike') and rnd.random() < .3:
            # migrated back and forth many times: numbered backups up to .bak.10 (or .bak.11), each with its own content
            for i in range(1, rnd.choice([10, 11, 12])):
                with open(os.path.join(cfg, 'merchant_categories.csv.bak.%d' % i), 'w') as f:
                    f.write('Pattern,Merchant,Category,Subcategory\nOLD%d,Backup number %d,Old,Rules\n' % (i, i))
            shape['many_baks'] = True
        if rnd.random() < .25 and not focus:
            with open(os.path.join(cfg, 'merchants.rules'), 'w') as f:
                f.write(rnd.choice(['# my own unreferenced rules\n[Mine]\nmatch: contains("MINE")\ncategory: Mine\n',
                                    '# transforms only\nfield.description = regex_replace(field.description, "^APLPAY\\\\s+", "")\n',
                                    '# just a note to self\n', '', 'is_large = amount > 500\n']))
            shape['stray_rules'] = True
    if not b['views'] and rnd.random() < .4:
        with open(os.path.join(cfg, 'views.rules'), 'w') as f:
            f.write(rnd.choice(['', '# todo\n', '[Mine]\nfilter: true\n']))
        shape['small_views'] = True
    if rnd.random() < .3:
        os.makedirs(os.path.join(base, 'output'), exist_ok=True)
        with open(os.path.join(base, 'output', 'old_report.html'), 'w') as f:
            f.write('<html>old</html>')
        shape['output'] = True
    if not b['views'] and rnd.random() < .35:
        sp = os.path.join(cfg, 'settings.yaml')
        txt = open(sp, encoding='utf-8').read()
        with open(sp, 'w', encoding='utf-8', newline='') as f:
            f.write(txt.replace('\n', '\r\n'))          # a settings file edited on Windows
        shape['crlf_settings'] = True
    if rules.startswith('csv') and not shape.get('crlf_settings') and rnd.random() < (.4 if focus else .2):
        # a merchants_file key without a value in the MIDDLE of settings.yaml (the loader treats it as not set): migration may append, never edit that line
        sp = os.path.join(cfg, 'settings.yaml')
        lines = open(sp, encoding='utf-8').read().split('\n')
        lines.insert(1, rnd.choice(['merchants_file:', 'merchants_file: ~', 'merchants_file:   # todo', 'merchants_file: ""']))
        with open(sp, 'w', encoding='utf-8') as f:
            f.write('\n'.join(lines))
        shape['empty_rules_key'] = True
    if not b['views'] and not shape.get('small_views') and not shape.get('crlf_settings') and rnd.random() < .3:
        # settings name a views file (possibly in a folder) that does not exist: commands warn, they do not create it
        with open(os.path.join(cfg, 'settings.yaml'), 'a', encoding='utf-8') as f:
            f.write('views_file: %s\n' % rnd.choice(['config/views.rules', 'config/views/2025.rules', 'config/my views.rules']))
        shape['dangling_views'] = True
    if rules == 'none' and rnd.random() < .4:
        with open(os.path.join(cfg, 'settings.yaml'), 'a', encoding='utf-8') as f:
            f.write('merchants_file: %s\n' % rnd.choice(['config/merchants.rules', 'config/rules/mine.rules']))
        shape['dangling_rules'] = True
    if not shape.get('crlf_settings') and rnd.random() < (.8 if focus else .25):
        # settings.yaml that ends in blank lines (or in no newline at all): an append must keep every existing byte
        sp = os.path.join(cfg, 'settings.yaml')
        txt = open(sp, encoding='utf-8').read()
        with open(sp, 'w', encoding='utf-8', newline='') as f:
            f.write(txt.rstrip('\n') + rnd.choice(['\n\n\n', '\n\n\n\n', '', '\n\n', '\n   \n\n']))
        shape['settings_ending'] = True
    if not shape.get('crlf_settings') and rnd.random() < (.3 if focus else .12):
        # a settings file saved by an editor that writes a UTF-8 byte-order mark: those three bytes are the user's too
        sp = os.path.join(cfg, 'settings.yaml')
        raw = open(sp, 'rb').read()
        with open(sp, 'wb') as f:
            f.write(b'\xef\xbb\xbf' + raw)
        shape['bom_settings'] = True
    if rnd.random() < (.5 if focus else .2):
        # the user's own safety copies of the settings (made by hand, or by an editor)
        for nm in rnd.sample(['settings.yaml.bak', 'settings.yaml~', 'settings.yaml.orig', 'settings.bak'], rnd.randint(1, 2)):
            with open(os.path.join(cfg, nm), 'w') as f:
                f.write('year: 2023\n# my settings as they were before I changed the sources\n')
        shape['settings_backups'] = True
    if rnd.random() < .3:
        # the user's own .gitignore (patterns spelled their way, or statements tracked on purpose)
        with open(os.path.join(base, '.gitignore'), 'w') as f:
            f.write(rnd.choice(['/data/\noutput\n', 'data/*\n!data/keep.csv\n', '*.bak\n', '# track everything\n']))
        shape['user_gitignore'] = True
    if rnd.random() < .3:
        with open(os.path.join(base, 'notes.txt'), 'w') as f:
            f.write('user notes\n')
    return b, root, cfg, base, shape


def commands(rnd, b, root, cfg, base, shape):
    data_file = os.path.join(base, b['sources'][0]['settings']['file'])
    cwd = root
    pool = [
        ('up', ['up', cfg]), ('up', ['up', cfg, '-q']), ('up', ['up', cfg, '--format', 'json']), ('up', ['up', cfg, '--format', 'summary']),
        ('up', ['up', cfg, '--format', 'markdown', '-v']), ('up', ['up', cfg, '--no-embedded-html', '-q']), ('up', ['up']),
        ('up', ['up', cfg, '--output', os.path.join(base, 'output', 'custom.html'), '-q']),
        ('up', ['ENV:TALLY_CONFIG=' + cfg + os.sep, 'up', '-q']), ('up', ['ENV:TALLY_CONFIG=' + cfg, 'up', '--no-embedded-html', '-q']),
        ('up', ['ENV:TALLY_CONFIG=' + os.path.join(cfg, '..', 'config') + os.sep, 'up', '--format', 'summary']),
        ('explain', ['ENV:TALLY_CONFIG=' + cfg + os.sep, 'explain']), ('discover', ['ENV:TALLY_CONFIG=' + cfg + os.sep, 'discover']),
        ('explain', ['explain', cfg]), ('explain', ['explain', 'Netflix', cfg, '--format', 'json']), ('explain', ['explain', '--category', 'Food', cfg]),
        ('discover', ['discover', cfg]), ('discover', ['discover', cfg, '--format', 'json', '-n', '0']), ('discover', ['discover', cfg, '--format', 'csv']),
        ('diag', ['diag', cfg]), ('diag', ['diag', cfg, '--format', 'json']), ('inspect', ['inspect', data_file]), ('inspect', ['inspect', data_file, '-n', '2']),
        ('init', ['init']) if shape['layout'] == 'old' else ('init', ['init', 'tally']), ('init', ['init', base]),
        ('migrate', ['up', cfg, '--migrate', '-q']), ('migrate', ['up', cfg, '--migrate', '--format', 'summary']),
        # a NEW budget is initialised somewhere else while standing in this one (also with the config directory named through the environment)
        ('init', ['init', os.path.join(root, 'elsewhere-%d' % rnd.randrange(1000))]), ('init', ['init', os.path.join('..', 'other-budget-%d' % rnd.randrange(10 ** 6))]),
        ('init', ['ENV:TALLY_CONFIG=' + cfg, 'init', os.path.join(root, 'elsewhere-env-%d' % rnd.randrange(1000))]),
    ]
    # a relative --output while standing in another folder: the report goes THERE, nothing appears in the budget
    work = os.path.join(root, 'somewhere-else')
    os.makedirs(work, exist_ok=True)
    rel_out = rnd.choice(['jan.html', 'reports-jan.html', os.path.join('.', 'x.html')])
    pool += [('up', ['CWD:' + work, 'CWDREL:somewhere-else', 'up', cfg, '--output', rel_out, '-q']),
             ('up', ['CWD:' + work, 'CWDREL:somewhere-else', 'up', cfg, '-o', rel_out, '--no-embedded-html', '-q']),
             ('up', ['ENV:TALLY_CONFIG=' + cfg, 'CWD:' + work, 'CWDREL:somewhere-else', 'up', '--output', rel_out, '-q'])]
    n = rnd.randint(3, 8)
    seq = [rnd.choice(pool) for _ in range(n)]
    if shape.get('focus'):
        # migration-focused sequence: the first command is a real migration of the legacy CSV (init or up --migrate)
        seq = [rnd.choice([c for c in pool if c[0] in ('init', 'migrate')])] + seq[:2]
        if rnd.random() < .4:
            # ... after which the user puts the CSV back beside the new rules file (restored from version control, or copied from the backup):
            # the commands that follow are still read-only / never move it without being asked
            seq = seq[:1] + [('harness-restore-csv', [])] + [rnd.choice([c for c in pool if c[0] in ('up', 'explain', 'discover', 'diag')]) for _ in range(2)]
    return cwd, seq


def allowed_output(rel, base_rel, args):
    out_dir = os.path.normpath(os.path.join(base_rel, 'output'))
    rel = os.path.normpath(rel)
    if rel == out_dir or rel.startswith(out_dir + os.sep):
        return True
    # an explicit relative --output names a place under the directory the command is run from (CWD:<root-relative dir>): that folder is the output location
    cw = [a[7:] for a in args if a.startswith('CWDREL:')]
    return bool(cw) and (rel == cw[0] or rel.startswith(cw[0] + os.sep))


def judge_readonly(rec, kind, args, before, after, effects, root, base, case):
    base_rel = os.path.relpath(base, root)
    base_rel = '' if base_rel == '.' else base_rel
    rec.count('tree_snapshot_checks')
    for p, h in before.items():
        if p not in after:
            rec.violation('read-only-command-removes-file:' + kind, f'tally {" ".join(args[:3])}: {p} disappeared', case)
            return
        if after[p] != h and not allowed_output(p.rstrip('/'), base_rel, args):
            rec.violation('read-only-command-changes-file:' + kind, f'tally {" ".join(args[:3])}: {p} changed', case)
            return
    for p in after:
        if p not in before and not allowed_output(p.rstrip('/'), base_rel, args):
            rec.violation('read-only-command-creates-file-outside-output:' + kind, f'tally {" ".join(args[:3])}: created {p}', case)
            return
    # a command that delivers its result on stdout (or to an --output path given as CWDREL) writes NO report into the budget: nothing at all is new there,
    # not even an empty output folder
    fmt = args[args.index('--format') + 1] if '--format' in args else None
    no_report_here = kind in ('explain', 'discover', 'diag', 'inspect') or (kind == 'up' and (fmt in ('json', 'markdown', 'summary') or '--summary' in args))
    if no_report_here:
        rec.count('commands_that_write_no_report_checked_for_new_paths')
        new = sorted(p for p in after if p not in before and not any(a.startswith('CWDREL:') and p.rstrip('/').startswith(a[7:]) for a in args))
        if new:
            rec.violation('command-without-a-report-creates-paths:' + kind, f'tally {" ".join(a for a in args if not a.startswith(("CWD", "ENV")))[:80]} delivers its result on stdout, '
                          f'yet these paths are new in the budget: {new[:4]}', case)
            return
    rec.count('effect_log_checks')
    for e in effects:
        for p in (e.get('path'), e.get('path2')):
            if p is not None and not allowed_output(p, base_rel, args):
                rec.violation('read-only-command-writes-outside-output:' + kind + ':' + e['kind'],
                              f'tally {" ".join(args[:3])}: effect {e["kind"]} on {p} (outside the output location)', case)
                return


def judge_init(rec, args, before, after, effects, root, base, case, had_rules_csv, had_rules_file):
    cfg_rel = os.path.relpath(os.path.join(base, 'config'), root)
    csv_rel = os.path.join(cfg_rel, 'merchant_categories.csv')
    settings_rel = os.path.join(cfg_rel, 'settings.yaml')
    rec.count('tree_snapshot_checks')
    for p, h in before.items():
        if p.endswith('/'):
            continue
        if p == csv_rel and p not in after:
            bak = csv_rel + '.bak'
            if not (had_rules_csv and not had_rules_file):
                rec.violation('init-moves-csv-without-cause', f'init moved {p} although ' + ('merchants.rules existed' if had_rules_file else 'it holds no rules'), case)
            elif h not in [v for k2, v in after.items() if k2.startswith(bak) and before.get(k2) != v]:
                rec.violation('init-migration-backup-not-identical', f'no new byte-identical backup ({bak}*) of the original CSV exists', case)
            continue
        if p not in after:
            rec.violation('init-removes-file', f'tally init: {p} disappeared', case)
            return
        if after[p] != h:
            if p == settings_rel:
                continue   # judged below (append-only)
            key = 'init-changes-existing-file'
            if p.endswith('.bak'):
                key = 'existing-backup-overwritten'
            rec.violation(key, f'tally init: existing file {p} changed', case)
            return
    rec.count('effect_log_checks')
    for e in effects:
        if e['kind'] in ('open-w',) and e['path'] in before and not e['path'].endswith('settings.yaml'):
            rec.violation('init-recreates-existing-file', f'tally init opened existing {e["path"]} for writing', case)
            return
        if e['kind'] in ('remove', 'rmdir', 'truncate'):
            rec.violation('init-removes-file', f'tally init: effect {e["kind"]} on {e["path"]}', case)
            return


def judge_migrate(rec, args, before, after, effects, root, base, case, was_csv_budget, had_rules_csv, cfg_rel=None):
    cfg_rel = cfg_rel or os.path.relpath(os.path.join(base, 'config'), root)
    csv_rel = os.path.join(cfg_rel, 'merchant_categories.csv')
    rec.count('tree_snapshot_checks')
    for p, h in before.items():
        if p.endswith('/'):
            continue
        base_rel = os.path.relpath(base, root)
        if allowed_output(p, '' if base_rel == '.' else base_rel, args):
            continue
        if p == csv_rel and p not in after:
            if not was_csv_budget:
                rec.violation('migrate-moves-csv-not-in-use', f'{p} moved although settings name another rules file', case)
            elif h not in [v for k, v in after.items() if k.startswith(csv_rel + '.bak') and before.get(k) != v]:
                rec.violation('migration-backup-not-identical', 'no byte-identical backup of the original CSV exists after --migrate', case)
            continue
        if p not in after:
            rec.violation('migrate-removes-file', f'up --migrate: {p} disappeared', case)
            return
        if after[p] != h and not p.endswith('settings.yaml'):
            key = 'existing-backup-overwritten' if '.bak' in p else ('migrate-overwrites-existing-rules-file' if p.endswith('merchants.rules') else 'migrate-changes-file')
            rec.violation(key, f'up --migrate: existing file {p} changed', case)
            return


def settings_append_only(rec, root, rel, old_bytes, case, who):
    if not os.path.exists(os.path.join(root, rel)):
        rec.violation(who + '-removes-settings', f'{rel} disappeared', case)
        return
    new = read(root, rel)
    if not new.startswith(old_bytes):
        rec.violation(who + '-rewrites-settings', f'{rel}: the previous content is not a prefix of the new content', case)


def judge(rec, rnd, tmp, k, log, focus=False):
    b, root, cfg, base, shape = make_shape(rnd, tmp, k, focus)
    shape['focus'] = focus
    if focus:
        rec.count('migration_focused_sequences')
    cwd, seq = commands(rnd, b, root, cfg, base, shape)
    cfg_rel = os.path.relpath(cfg, root)
    prev = None
    for kind, args in seq:
        if kind == 'harness-restore-csv':
            baks = sorted(f for f in os.listdir(cfg) if f.startswith('merchant_categories.csv.bak'))
            if baks and not os.path.exists(os.path.join(cfg, 'merchant_categories.csv')):
                shutil.copy(os.path.join(cfg, baks[-1]), os.path.join(cfg, 'merchant_categories.csv'))
                rec.count('csv_restored_beside_migrated_rules')
            continue
        before = snapshot(root)
        settings_old = read(root, os.path.join(cfg_rel, 'settings.yaml'))
        csv_path = os.path.join(cfg, 'merchant_categories.csv')
        had_csv = os.path.exists(csv_path)
        had_rules_csv = had_csv and any(l.strip() and not l.startswith('#') and not l.startswith('Pattern,') for l in open(csv_path))
        had_rules_file = os.path.exists(os.path.join(cfg, 'merchants.rules'))
        try:
            import yaml
            was_csv_budget = had_csv and not (yaml.safe_load(settings_old) or {}).get('merchants_file')
        except Exception:
            was_csv_budget = False
        p, effects = run_cmd(root, cwd, args, log)
        after = snapshot(root)
        rec.case()
        rec.count('commands_run')
        rec.count('cmd:' + kind)
        rec.count('effects_observed', len(effects))
        case = {'kind': 'seq', 'shape': shape, 'command': args[:1] + [a if not a.startswith(tmp) else os.path.relpath(a, root) for a in args[1:]],
                'previous': prev, 'effects': effects[:12], 'exit': p.returncode}
        if effects or shape['rules'].startswith('csv'):
            rec.interesting([json.dumps(shape, sort_keys=True), kind, args[-1] if not args[-1].startswith(tmp) else '', prev])
        if kind in ('up', 'explain', 'discover', 'diag', 'inspect'):
            judge_readonly(rec, kind, args, before, after, effects, root, base, case)
        elif kind == 'init':
            rec.count('init_runs')
            plain = [a for a in args if not a.startswith('ENV:')]
            target_is_budget = (plain == ['init'] and shape['layout'] == 'old') or (len(plain) == 2 and os.path.realpath(os.path.join(cwd, plain[1])) == os.path.realpath(base))
            if target_is_budget:
                judge_init(rec, args, before, after, effects, root, base, case, had_rules_csv, had_rules_file)
                settings_append_only(rec, root, os.path.join(cfg_rel, 'settings.yaml'), settings_old, case, 'init')
            else:
                for pth, h in before.items():
                    if after.get(pth) != h:
                        rec.violation('init-elsewhere-changes-budget', f'init of another directory changed {pth}', case)
                        break
        else:
            rec.count('migrate_runs')
            judge_migrate(rec, args, before, after, effects, root, base, case, was_csv_budget, had_rules_csv)
            settings_append_only(rec, root, os.path.join(cfg_rel, 'settings.yaml'), settings_old, case, 'migrate')
        prev = kind
    shutil.rmtree(root, ignore_errors=True)


def judge_odd_config_name(rec, rnd, tmp, k, log):
    """A budget whose config folder is not called `config` (tally up <dir>, or TALLY_CONFIG): the legacy CSV is in use, and next to it lies a
    merchants.rules the user wrote.  `up --migrate` may refuse or migrate elsewhere; it never replaces that file, and read-only commands write nothing."""
    root = os.path.join(tmp, 'odd%d' % k)
    name = rnd.choice(['cfg-2025', 'settings', 'config.2025', 'Config', 'my config'])
    cfg = os.path.join(root, 'budget', name)
    base = os.path.dirname(cfg)
    os.makedirs(cfg)
    os.makedirs(os.path.join(base, 'data'))
    with open(os.path.join(cfg, 'settings.yaml'), 'w') as f:
        f.write('year: 2025\ndata_sources:\n  - name: Card\n    file: data/card.csv\n    format: "{date:%Y-%m-%d},{description},{amount}"\n')
    with open(os.path.join(cfg, 'merchant_categories.csv'), 'w') as f:
        f.write('Pattern,Merchant,Category,Subcategory\nNETFLIX,Netflix,Subscriptions,Streaming\nCOSTCO,Costco,Food,Grocery\n')
    with open(os.path.join(base, 'data', 'card.csv'), 'w') as f:
        f.write('Date,Description,Amount\n2025-01-03,NETFLIX.COM,15.99\n2025-01-09,COSTCO WHSE 12,140.20\n2025-02-01,CORNER CAFE,4.50\n')
    user_rules = rnd.random() < .7
    if user_rules:
        with open(os.path.join(cfg, 'merchants.rules'), 'w') as f:
            f.write(rnd.choice(['# my own rules, work in progress\n[Mine]\nmatch: contains("MINE")\ncategory: Mine\n', '# note to self\n', 'is_large = amount > 500\n']))
    shape = {'layout': 'odd-config-name', 'name': name, 'user_rules': user_rules, 'rules': 'csv'}
    cfg_rel = os.path.relpath(cfg, root)
    pool = [('migrate', ['up', cfg, '--migrate', '-q']), ('migrate', ['CWD:' + base, 'up', name, '--migrate', '--format', 'summary']),
            ('migrate', ['ENV:TALLY_CONFIG=' + cfg, 'up', '--migrate', '-q']),
            ('up', ['up', cfg, '-q']), ('explain', ['explain', cfg]), ('discover', ['discover', cfg, '--format', 'json'])]
    prev = None
    for kind, args in [rnd.choice(pool[:3])] + [rnd.choice(pool) for _ in range(2)]:
        before = snapshot(root)
        settings_old = read(root, os.path.join(cfg_rel, 'settings.yaml'))
        csv_path = os.path.join(cfg, 'merchant_categories.csv')
        had_csv = os.path.exists(csv_path)
        p, effects = run_cmd(root, root, args, log)
        after = snapshot(root)
        rec.case()
        rec.count('commands_run')
        rec.count('odd_config_name_commands')
        rec.count('effects_observed', len(effects))
        case = {'kind': 'odd-config-name', 'shape': shape, 'command': [a.replace(root, '<root>') for a in args], 'previous': prev, 'exit': p.returncode}
        if kind == 'migrate':
            rec.count('migrate_runs')
            try:
                import yaml
                was_csv_budget = had_csv and not (yaml.safe_load(settings_old) or {}).get('merchants_file')
            except Exception:
                was_csv_budget = False
            judge_migrate(rec, args, before, after, effects, root, base, case, was_csv_budget, had_csv, cfg_rel=cfg_rel)
            settings_append_only(rec, root, os.path.join(cfg_rel, 'settings.yaml'), settings_old, case, 'migrate')
        else:
            judge_readonly(rec, kind, args, before, after, effects, root, base, case)
        prev = kind
    shutil.rmtree(root, ignore_errors=True)


def judge_symlinked_config_folder(rec, rnd, tmp, k, log):
    """The budget's config folder is a symbolic link to a folder kept elsewhere (shared between years, or in a synced drive): the report goes into THIS
    budget's output folder; nothing is created next to the link's target."""
    root = os.path.join(tmp, 'sym%d' % k)
    shared = os.path.join(root, 'shared', 'tally-config')
    bud = os.path.join(root, 'budgets', '2025')
    os.makedirs(shared)
    os.makedirs(os.path.join(bud, 'data'))
    with open(os.path.join(shared, 'settings.yaml'), 'w') as f:
        f.write('year: 2025\nmerchants_file: config/merchants.rules\ndata_sources:\n  - name: Card\n    file: data/card.csv\n    format: "{date:%Y-%m-%d},{description},{amount}"\n')
    with open(os.path.join(shared, 'merchants.rules'), 'w') as f:
        f.write('[Netflix]\nmatch: contains("NETFLIX")\ncategory: Subs\n')
    with open(os.path.join(bud, 'data', 'card.csv'), 'w') as f:
        f.write('Date,Description,Amount\n2025-01-03,NETFLIX.COM,15.99\n2025-01-09,CORNER CAFE,4.50\n')
    os.symlink(os.path.join('..', '..', 'shared', 'tally-config'), os.path.join(bud, 'config'))
    cfg = os.path.join(bud, 'config')
    pool = [('up', ['up', cfg, '-q']), ('up', ['CWD:' + bud, 'up', '-q']), ('up', ['up', cfg, '--no-embedded-html', '-q']), ('up', ['ENV:TALLY_CONFIG=' + cfg, 'up', '--format', 'summary']),
            ('explain', ['explain', cfg]), ('discover', ['discover', cfg, '--format', 'json'])]
    for kind, args in rnd.sample(pool, 3):
        before = snapshot(root)
        p, effects = run_cmd(root, root, args, log)
        after = snapshot(root)
        rec.case()
        rec.count('commands_run')
        rec.count('symlinked_config_folder_commands')
        case = {'kind': 'symlinked-config-folder', 'command': [a.replace(root, '<root>') for a in args], 'exit': p.returncode}
        judge_readonly(rec, kind, args, before, after, effects, root, bud, case)
        if kind == 'up' and '--format' not in args and p.returncode == 0 and not os.path.exists(os.path.join(bud, 'output', 'spending_summary.html')):
            rec.violation('report-not-in-the-budgets-output-folder', f'tally {" ".join(case["command"][:3])}: exit 0 but no report in budgets/2025/output; new files: '
                          f'{sorted(x for x in after if x not in before)}', case)
    shutil.rmtree(root, ignore_errors=True)


def judge_symlinked_rules_csv(rec, rnd, tmp, k, log):
    """The legacy merchant_categories.csv of the budget is a symbolic link to a file shared between budgets: a migration of THIS budget renames / replaces
    what is in this budget's config folder; the shared file stays where and what it is."""
    root = os.path.join(tmp, 'symcsv%d' % k)
    cfg = os.path.join(root, 'budget', 'config')
    os.makedirs(cfg)
    os.makedirs(os.path.join(root, 'budget', 'data'))
    os.makedirs(os.path.join(root, 'shared'))
    with open(os.path.join(root, 'shared', 'rules.csv'), 'w') as f:
        f.write('Pattern,Merchant,Category,Subcategory\nNETFLIX,Netflix,Subscriptions,Streaming\nCOSTCO,Costco,Food,Grocery\n')
    os.symlink(os.path.join('..', '..', 'shared', 'rules.csv'), os.path.join(cfg, 'merchant_categories.csv'))
    with open(os.path.join(cfg, 'settings.yaml'), 'w') as f:
        f.write('year: 2025\ndata_sources:\n  - name: Card\n    file: data/card.csv\n    format: "{date:%Y-%m-%d},{description},{amount}"\n')
    with open(os.path.join(root, 'budget', 'data', 'card.csv'), 'w') as f:
        f.write('Date,Description,Amount\n2025-01-03,NETFLIX.COM,15.99\n')
    shared_before = open(os.path.join(root, 'shared', 'rules.csv'), 'rb').read()
    args = rnd.choice([['up', cfg, '--migrate', '-q'], ['CWD:' + os.path.join(root, 'budget'), 'up', '--migrate', '--format', 'summary'], ['CWD:' + os.path.join(root, 'budget'), 'init']])
    p, effects = run_cmd(root, root, args, log)
    rec.case()
    rec.count('commands_run')
    rec.count('migrate_runs')
    rec.count('symlinked_rules_csv_migrations')
    case = {'kind': 'symlinked-rules-csv', 'command': [a.replace(root, '<root>') for a in args], 'exit': p.returncode}
    sp = os.path.join(root, 'shared', 'rules.csv')
    if not os.path.exists(sp) or open(sp, 'rb').read() != shared_before:
        rec.violation('migrate-touches-file-outside-the-budget', f'{" ".join(case["command"][:3])}: the shared rules file the budget\'s merchant_categories.csv links to '
                      + ('is gone' if not os.path.exists(sp) else 'changed') + f'; shared/ now holds {sorted(os.listdir(os.path.join(root, "shared")))}', case)
    elif sorted(os.listdir(os.path.join(root, 'shared'))) != ['rules.csv']:
        rec.violation('migrate-writes-outside-the-budget', f'shared/ now holds {sorted(os.listdir(os.path.join(root, "shared")))}', case)
    shutil.rmtree(root, ignore_errors=True)


SAME_PROCESS = """
import os, sys
args = list(sys.argv)
sys.path.insert(0, args[1])
os.chdir(args[2])
from tally import cli
def run(argv):
    sys.argv = ['tally'] + argv
    try:
        cli.main()
    except SystemExit:
        pass
run(['up', '--format', 'summary'])
os.chdir(args[3])
run(args[4:])
"""


def judge_same_process_sequence(rec, rnd, tmp, k):
    """Two commands in ONE process (a script that drives tally.cli.main, a test suite), the second after a change of directory: a command without a
    config argument acts on the budget of the directory it is run from - the first budget is only read."""
    root = os.path.join(tmp, 'sp%d' % k)
    buds = []
    for nm in ('a', 'b'):
        cfg = os.path.join(root, nm, 'config')
        os.makedirs(cfg)
        os.makedirs(os.path.join(root, nm, 'data'))
        with open(os.path.join(cfg, 'settings.yaml'), 'w') as f:
            f.write('year: 2025\ndata_sources:\n  - name: Card\n    file: data/card.csv\n    format: "{date:%Y-%m-%d},{description},{amount}"\n')
        with open(os.path.join(cfg, 'merchant_categories.csv'), 'w') as f:
            f.write('Pattern,Merchant,Category,Subcategory\nNETFLIX,Netflix %s,Subscriptions,Streaming\n' % nm)
        with open(os.path.join(root, nm, 'data', 'card.csv'), 'w') as f:
            f.write('Date,Description,Amount\n2025-01-03,NETFLIX.COM,15.99\n')
        buds.append(os.path.join(root, nm))
    second = rnd.choice([['up', '--migrate', '-q'], ['up', '--migrate', '--format', 'summary'], ['up', '--migrate', '-q'], ['up', '-q']])
    before = snapshot(buds[0])
    env = dict(os.environ, PYTHONDONTWRITEBYTECODE='1', NO_COLOR='1')
    env.pop('TALLY_CONFIG', None)
    p = subprocess.run([core.PY, '-c', SAME_PROCESS, core.SRC, buds[0], buds[1]] + second, capture_output=True, text=True, stdin=subprocess.DEVNULL, env=env, timeout=180)
    after = snapshot(buds[0])
    rec.case()
    rec.count('commands_run', 2)
    rec.count('same_process_sequences')
    case = {'kind': 'same-process', 'second': second, 'exit': p.returncode}
    changed = sorted(x for x in set(before) | set(after) if before.get(x) != after.get(x) and not x.startswith('output'))
    if changed:
        rec.violation('command-acts-on-the-budget-of-an-earlier-command', f'`tally up --format summary` in budget a, then (same process, after chdir to budget b) `tally {" ".join(second)}`: '
                      f'budget a changed: {changed}', case)
    elif '--migrate' in second and p.returncode == 0 and not os.path.exists(os.path.join(buds[1], 'config', 'merchants.rules')):
        rec.violation('requested-migration-not-done-in-the-current-budget', f'`tally up --format summary` in budget a, then (same process, after chdir to budget b) `tally {" ".join(second)}` '
                      f'exits 0 but budget b has no merchants.rules', case)
    shutil.rmtree(root, ignore_errors=True)


ROLLBACK_CHILD = """
import os, shutil, sys
args = list(sys.argv)
sys.path.insert(0, args[1])
os.chdir(args[2])
from tally import cli
def run(argv):
    sys.argv = ['tally'] + argv
    try:
        cli.main()
    except SystemExit:
        pass
run(['up', '--migrate', '-q'])
# the user changes their mind: the CSV is restored from the backup, the converted file removed, settings.yaml edited by hand
cfg = os.path.join(args[2], 'config')
if os.path.exists(os.path.join(cfg, 'merchant_categories.csv.bak')):
    shutil.move(os.path.join(cfg, 'merchant_categories.csv.bak'), os.path.join(cfg, 'merchant_categories.csv'))
if os.path.exists(os.path.join(cfg, 'merchants.rules')):
    os.remove(os.path.join(cfg, 'merchants.rules'))
with open(os.path.join(cfg, 'settings.yaml'), 'w') as f:
    f.write(args[3])
run(args[4:])
"""


def judge_same_process_rollback(rec, rnd, tmp, k):
    """One process migrates a budget, the user rolls the migration back and rewrites settings.yaml by hand, the same process runs `tally init` / `up --migrate`
    again: what is appended to settings.yaml is appended to the file AS IT IS NOW - every line the user wrote is still there."""
    root = os.path.join(tmp, 'rb%d' % k)
    os.makedirs(os.path.join(root, 'config'))
    os.makedirs(os.path.join(root, 'data'))
    first = 'year: 2025\ndata_sources:\n  - name: Card\n    file: data/card.csv\n    format: "{date:%Y-%m-%d},{description},{amount}"\n'
    edited = 'year: 2025\ntitle: Household budget (edited by hand)\ncurrency_format: "{amount} zl"\ndata_sources:\n  - name: Card\n    file: data/card.csv\n    format: "{date:%Y-%m-%d},{description},{amount}"\n'
    with open(os.path.join(root, 'config', 'settings.yaml'), 'w') as f:
        f.write(first)
    with open(os.path.join(root, 'config', 'merchant_categories.csv'), 'w') as f:
        f.write('Pattern,Merchant,Category,Subcategory\nNETFLIX,Netflix,Subscriptions,Streaming\n')
    with open(os.path.join(root, 'data', 'card.csv'), 'w') as f:
        f.write('Date,Description,Amount\n2025-01-03,NETFLIX.COM,15.99\n')
    second = [['init'], ['up', '--migrate', '-q'], ['init', '.']][k % 3]
    env = dict(os.environ, PYTHONDONTWRITEBYTECODE='1', NO_COLOR='1')
    env.pop('TALLY_CONFIG', None)
    p = subprocess.run([core.PY, '-c', ROLLBACK_CHILD, core.SRC, root, edited] + second, capture_output=True, text=True, stdin=subprocess.DEVNULL, env=env, timeout=180)
    rec.case()
    rec.count('commands_run', 2)
    rec.count('same_process_rollback_sequences')
    now = open(os.path.join(root, 'config', 'settings.yaml')).read()
    if not now.startswith(edited):
        rec.violation('settings-rewritten-from-an-earlier-reading', f'`up --migrate`, a manual roll-back with settings.yaml rewritten by hand, then `tally {" ".join(second)}` in the same '
                      f'process: settings.yaml no longer starts with what the user wrote; it reads {now[:160]!r}', {'kind': 'same-process-rollback', 'second': second, 'exit': p.returncode})
    shutil.rmtree(root, ignore_errors=True)


def judge_init_sectionless_rules(rec, rnd, tmp, k, log):
    """A budget with rules in the legacy CSV AND a merchants.rules the user wrote that holds no [section] (transforms, variables, notes): `tally init` creates
    what is missing and touches neither of the two."""
    root = os.path.join(tmp, 'sl%d' % k)
    cfg = os.path.join(root, 'config')
    os.makedirs(cfg)
    os.makedirs(os.path.join(root, 'data'))
    with open(os.path.join(cfg, 'settings.yaml'), 'w') as f:
        f.write('year: 2025\ndata_sources:\n  - name: Card\n    file: data/card.csv\n    format: "{date:%Y-%m-%d},{description},{amount}"\n')
    with open(os.path.join(cfg, 'merchant_categories.csv'), 'w') as f:
        f.write('Pattern,Merchant,Category,Subcategory\nNETFLIX,Netflix,Subscriptions,Streaming\nCOSTCO,Costco,Food,Grocery\n')
    with open(os.path.join(cfg, 'merchants.rules'), 'w') as f:
        f.write(rnd.choice(['# transforms only\nfield.description = regex_replace(field.description, "^APLPAY\\\\s+", "")\n', 'is_large = amount > 500\n', '# note to self: move the rules here one day\n',
                            '', '\n\n', '# [Not A Section]\nthreshold = 100\n']))
    with open(os.path.join(root, 'data', 'card.csv'), 'w') as f:
        f.write('Date,Description,Amount\n2025-01-03,NETFLIX.COM,15.99\n')
    before = snapshot(root)
    args = rnd.choice([['init'], ['init', root], ['init', '.']])
    p, effects = run_cmd(root, root, args, log)
    after = snapshot(root)
    rec.case()
    rec.count('commands_run')
    rec.count('init_runs')
    rec.count('init_with_sectionless_rules_file')
    case = {'kind': 'init-sectionless', 'command': args[:1], 'exit': p.returncode}
    for pth, h in before.items():
        if after.get(pth) != h and not pth.endswith('settings.yaml'):
            key = 'init-moves-csv-without-cause' if pth.endswith('merchant_categories.csv') else 'init-changes-existing-file'
            rec.violation(key, f'tally init with a merchants.rules that has no sections: {pth} ' + ('disappeared' if pth not in after else 'changed'), case)
            break
    shutil.rmtree(root, ignore_errors=True)


BROKEN_SETTINGS = [b'year: 2025\ndata_sources:\n\t- name: Card\n\t  file: data/card.csv\n', b'year: 2025\ntitle: "My budget\ndata_sources:\n  - name: Card\n    file: data/card.csv\n',
                   b'year: 2025\ntitle: Caf\xe9 budget\ndata_sources:\n  - name: Card\n    file: data/card.csv\n    format: "{date:%Y-%m-%d},{description},{amount}"\n',
                   b'year: 2025\ndata_sources: [\n', b'\xff\xfe\x00y\x00e\x00a\x00r\x00', b'- just\n- a list\n', b'year: 2025\r\ndata_sources:\r\n  - name: Card\r\n   file: data/card.csv\r\n',
                   b'', b'# nothing but comments\n', b'year: 2025\nyear: 2024\n']


def judge_init_unreadable_settings(rec, rnd, tmp, k, log):
    """`tally init` in a folder whose settings.yaml exists but cannot be loaded right now (a tab in the indentation, an unclosed quote, another encoding, half a
    file): it is an existing file all the same - kept byte for byte (it may gain appended lines), never replaced by the starter settings."""
    root = os.path.join(tmp, 'us%d' % k)
    os.makedirs(os.path.join(root, 'config'))
    os.makedirs(os.path.join(root, 'data'))
    content = BROKEN_SETTINGS[k % len(BROKEN_SETTINGS)]
    with open(os.path.join(root, 'config', 'settings.yaml'), 'wb') as f:
        f.write(content)
    with open(os.path.join(root, 'data', 'card.csv'), 'w') as f:
        f.write('Date,Description,Amount\n2025-01-03,NETFLIX.COM,15.99\n')
    before = snapshot(root)
    args = [['init'], ['init', root], ['init', '.']][k % 3]
    p, effects = run_cmd(root, root, args, log)
    after = snapshot(root)
    rec.case()
    rec.count('commands_run')
    rec.count('init_runs')
    rec.count('init_with_unreadable_settings')
    case = {'kind': 'init-unreadable-settings', 'command': args[:1], 'exit': p.returncode, 'settings': content.decode('latin-1')}
    now = read(root, os.path.join('config', 'settings.yaml')) if os.path.exists(os.path.join(root, 'config', 'settings.yaml')) else None
    if now is None or not now.startswith(content):
        rec.violation('init-replaces-existing-settings', f'tally {" ".join(args[:1])} on a folder whose settings.yaml holds {content[:60]!r}: afterwards the file '
                      f'{"is gone" if now is None else "starts " + repr(now[:60])}', case)
    for pth, h in before.items():
        if after.get(pth) != h and not pth.endswith('settings.yaml'):
            rec.violation('init-changes-existing-file', f'tally init beside an unreadable settings.yaml: {pth} ' + ('disappeared' if pth not in after else 'changed'), case)
            break
    shutil.rmtree(root, ignore_errors=True)


def judge_output_location_blocked(rec, tmp, k, log):
    """The output location cannot be created (a FILE called `output` is in the way - `tally up --summary > output` once - or a component of a nested output_dir is
    a file): whatever `tally up` does then, it writes no report files anywhere else in the budget."""
    root = os.path.join(tmp, 'ob%d' % k)
    os.makedirs(os.path.join(root, 'config'))
    os.makedirs(os.path.join(root, 'data'))
    nested = k % 2 == 1
    with open(os.path.join(root, 'config', 'settings.yaml'), 'w') as f:
        f.write('year: 2025\nmerchants_file: config/merchants.rules\n' + ('output_dir: reports/2025\n' if nested else '') +
                'data_sources:\n  - name: Card\n    file: data/card.csv\n    format: "{date:%Y-%m-%d},{description},{amount}"\n')
    with open(os.path.join(root, 'config', 'merchants.rules'), 'w') as f:
        f.write('[Netflix]\nmatch: contains("NETFLIX")\ncategory: Subs\n')
    with open(os.path.join(root, 'data', 'card.csv'), 'w') as f:
        f.write('Date,Description,Amount\n2025-01-03,NETFLIX.COM,15.99\n')
    with open(os.path.join(root, 'reports' if nested else 'output'), 'w') as f:
        f.write('a summary somebody redirected here\n')
    before = snapshot(root)
    args = [['up', '-q'], ['up', os.path.join(root, 'config'), '--no-embedded-html', '-q'], ['up']][k % 3]
    p, effects = run_cmd(root, root, args, log)
    after = snapshot(root)
    rec.case()
    rec.count('commands_run')
    rec.count('runs_with_the_output_location_blocked')
    case = {'kind': 'output-blocked', 'command': args, 'exit': p.returncode, 'nested': nested}
    new = sorted(x for x in after if x not in before)
    changed = sorted(x for x in before if after.get(x) != before[x])
    if new or changed:
        rec.violation('report-files-written-outside-the-output-location', f'a file is in the way of the output folder ({"reports/2025" if nested else "output"}): tally {" ".join(args[:1] + args[-1:])} '
                      f'(exit {p.returncode}) created {new[:5]} and changed {changed[:3]} in the budget', case)
    shutil.rmtree(root, ignore_errors=True)


def run(rec, shard, nshards, t):
    core.import_tally()
    rnd = core.rng_for('C20', shard)
    tmp = tempfile.mkdtemp(prefix='vt-c20-')
    log = os.path.join(tempfile.gettempdir(), 'vt-c20-%d.log' % os.getpid())
    try:
        for k in range(max(1, (40 if t == 'quick' else 1500) // nshards)):
            judge(rec, rnd, tmp, k, log)
        for k in range(max(1, (24 if t == 'quick' else 600) // nshards)):
            judge(rec, rnd, tmp, 100000 + k, log, focus=True)
        for k in range(max(1, (16 if t == 'quick' else 300) // nshards)):
            judge_odd_config_name(rec, rnd, tmp, k, log)
        for k in range(max(1, (8 if t == 'quick' else 120) // nshards)):
            judge_init_sectionless_rules(rec, rnd, tmp, k, log)
            judge_symlinked_config_folder(rec, rnd, tmp, k, log)
            judge_symlinked_rules_csv(rec, rnd, tmp, k, log)
            judge_same_process_sequence(rec, rnd, tmp, k)
            judge_same_process_rollback(rec, rnd, tmp, k)
        for k in range(shard, len(BROKEN_SETTINGS) * (1 if t == 'quick' else 3), nshards):
            judge_init_unreadable_settings(rec, rnd, tmp, k, log)
            judge_output_location_blocked(rec, tmp, k, log)
        if shard == 0:
            rec.sample({'example_sequence': ['up', 'discover --format json', 'init', 'up --migrate -q'], 'monitors': ['sha256 tree snapshot', 'audit-hook effect log']})
    finally:
        shutil.rmtree(tmp, ignore_errors=True)
        if os.path.exists(log):
            os.unlink(log)


def replay(rec, case):
    core.import_tally()
    rnd = core.rng_for('C20', 'replay')
    tmp = tempfile.mkdtemp(prefix='vt-c20-')
    log = os.path.join(tempfile.gettempdir(), 'vt-c20-%d.log' % os.getpid())
    try:
        for k in range(30):
            judge(rec, rnd, tmp, k, log, focus=k % 3 == 0)
            judge_odd_config_name(rec, rnd, tmp, k, log)
            judge_init_sectionless_rules(rec, rnd, tmp, k, log)
            judge_symlinked_config_folder(rec, rnd, tmp, k, log)
            judge_symlinked_rules_csv(rec, rnd, tmp, k, log)
            judge_same_process_sequence(rec, rnd, tmp, k)
            judge_same_process_rollback(rec, rnd, tmp, k)
            judge_init_unreadable_settings(rec, rnd, tmp, k, log)
            judge_output_location_blocked(rec, tmp, k, log)
    finally:
        shutil.rmtree(tmp, ignore_errors=True)
        if os.path.exists(log):
            os.unlink(log)

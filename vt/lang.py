"""Rules-language reference interpreter (written from `tally reference` + property C04's statement),
typed expression generator (random and size-bounded exhaustive) and equivalence-law rewriters.

Nothing here imports tally: the reference is an independent reading of the documentation.
`re` is part of the trusted base.
"""
import ast
import math
import re
from datetime import date


class RefError(Exception):
    """The documented language gives no value here (unknown name/field, index out of range, exhausted next...)."""


class Unmodelled(Exception):
    """Construct deliberately not modelled (fuzzy): the case is skipped, never judged."""


def _lcs(a, b):
    """Length of the longest common subsequence (an upper bound of what any order-respecting similarity measure can count as matching)."""
    prev = [0] * (len(b) + 1)
    for x in a:
        cur = [0]
        for j, y in enumerate(b):
            cur.append(prev[j] + 1 if x == y else max(prev[j + 1], cur[j]))
        prev = cur
    return prev[-1]


def _ci(fn, *strs):
    """`fn` over strings with letter case ignored.  The documentation says "case-insensitive" and no more: where lower-casing, upper-casing and
    case folding disagree about the outcome (ß / SS, ſ / s, İ, ligatures, final sigma) it does not say which is meant, so the case is not modelled."""
    if all(x.isascii() for x in strs):
        return fn(*[x.lower() for x in strs])
    rs = {repr(fn(*[m(x) for x in strs])) for m in (str.lower, str.upper, str.casefold)}
    if len(rs) > 1:
        raise Unmodelled('the case mapping decides')
    return fn(*[x.lower() for x in strs])


def _norm_text(x):
    return re.sub(r"[\s\-'.*]+", '', x.upper())


class Ref:
    def __init__(self, txn, variables=None, rows=None):
        self.t = txn
        self.vars = {k.lower(): v for k, v in (variables or {}).items()}
        self.rows = rows or {}
        self.scope = {}

    # --- entry
    def eval_str(self, text):
        return self.ev(ast.parse(text, mode='eval'))

    def ev(self, n):
        m = getattr(self, 'n_' + type(n).__name__, None)
        if m is None:
            raise RefError('node ' + type(n).__name__)
        return m(n)

    def n_Expression(self, n):
        return self.ev(n.body)

    def n_Constant(self, n):
        return n.value

    def prim(self, name):
        t = self.t
        d = t.get('date')
        table = {
            'description': t.get('description', ''), 'amount': t.get('amount', 0.0), 'date': d,
            'month': d.month if d else 0, 'year': d.year if d else 0, 'day': d.day if d else 0,
            'weekday': d.weekday() if d else 0, 'source': t.get('source') or '',
        }
        return table.get(name, KeyError)

    def n_Name(self, n):
        k = n.id.lower()
        if k in self.scope:
            return self.scope[k]
        if k in self.vars:
            return self.vars[k]
        v = self.prim(k)
        if v is not KeyError:
            return v
        if k == 'true':
            return True
        if k == 'false':
            return False
        if k in self.rows:
            return self.rows[k]
        raise RefError('unknown name ' + k)

    def n_BoolOp(self, n):
        if isinstance(n.op, ast.And):
            for v in n.values:
                if not self.ev(v):
                    return False
            return True
        for v in n.values:
            if self.ev(v):
                return True
        return False

    def n_UnaryOp(self, n):
        v = self.ev(n.operand)
        if isinstance(n.op, ast.Not):
            return not v
        if isinstance(n.op, ast.USub):
            return -v
        raise RefError('unary')

    def n_BinOp(self, n):
        a, b, o = self.ev(n.left), self.ev(n.right), type(n.op)
        if o is ast.Add:
            return a + b
        if o is ast.Sub:
            return a - b
        if o is ast.Mult:
            return a * b
        if o is ast.Div:
            return 0 if b == 0 else a / b
        if o is ast.Mod:
            return 0 if b == 0 else a % b
        raise RefError('binop')

    def n_IfExp(self, n):
        return self.ev(n.body) if self.ev(n.test) else self.ev(n.orelse)

    def n_Compare(self, n):
        left = self.ev(n.left)
        for op, c in zip(n.ops, n.comparators):
            right = self.ev(c)
            l, r = left, right
            try:
                if isinstance(l, date) and isinstance(r, str):
                    r = date.fromisoformat(r)
                elif isinstance(l, str) and isinstance(r, date):
                    l = date.fromisoformat(l)
            except ValueError:
                raise RefError('bad iso date')
            o = type(op)
            both = isinstance(l, str) and isinstance(r, str)
            if o is ast.Eq:
                res = _ci(lambda a, b: a == b, l, r) if both else l == r
            elif o is ast.NotEq:
                res = _ci(lambda a, b: a != b, l, r) if both else l != r
            elif o is ast.Lt:
                res = l < r
            elif o is ast.LtE:
                res = l <= r
            elif o is ast.Gt:
                res = l > r
            elif o is ast.GtE:
                res = l >= r
            elif o is ast.In:
                res = _ci(lambda a, b: a in b, l, r) if both else l in r
            elif o is ast.NotIn:
                res = _ci(lambda a, b: a not in b, l, r) if both else l not in r
            else:
                raise RefError('cmp')
            if not res:
                return False
            left = r if isinstance(right, str) and isinstance(r, date) else right
        return True

    def _loc(self):
        return self.t.get('location') or ''

    def n_Attribute(self, n):
        if isinstance(n.value, ast.Name) and n.value.id.lower() == 'txn':
            a = n.attr.lower()
            if a == 'location':
                return self._loc()
            v = self.prim(a)
            if v is KeyError:
                raise RefError('txn attr')
            return v
        if isinstance(n.value, ast.Name) and n.value.id.lower() == 'field':
            a = n.attr.lower()
            if a in ('description', 'amount', 'date', 'source'):
                return self.prim(a)
            if a == 'location':
                return self._loc()
            f = self.t.get('field')
            if f is not None and a in f:
                return f[a]
            raise RefError('unknown field ' + a)
        v = self.ev(n.value)
        if isinstance(v, dict) and n.attr.lower() in v:
            return v[n.attr.lower()]
        raise RefError('attr')

    def n_Subscript(self, n):
        v, i = self.ev(n.value), self.ev(n.slice)
        try:
            return v[i]
        except (IndexError, KeyError):
            raise RefError('index')

    def n_NamedExpr(self, n):
        v = self.ev(n.value)
        self.scope[n.target.id.lower()] = v
        return v

    def _comp(self, gens, i, elt):
        if i == len(gens):
            yield self.ev(elt)
            return
        g = gens[i]
        name = g.target.id.lower()
        for item in self.ev(g.iter):
            had, old = name in self.scope, self.scope.get(name)
            self.scope[name] = item
            try:
                if all(self.ev(c) for c in g.ifs):
                    yield from self._comp(gens, i + 1, elt)
            finally:
                if had:
                    self.scope[name] = old
                else:
                    self.scope.pop(name, None)

    def n_ListComp(self, n):
        return list(self._comp(n.generators, 0, n.elt))

    def n_GeneratorExp(self, n):
        return self._comp(n.generators, 0, n.elt)

    def n_Call(self, n):
        if isinstance(n.func, ast.Attribute):
            o = self.ev(n.func.value)
            m = n.func.attr.lower()
            a = [self.ev(x) for x in n.args]
            if isinstance(o, str):
                if m == 'lower' and not a:
                    return o.lower()
                if m == 'upper' and not a:
                    return o.upper()
                if m == 'strip' and not a:
                    return o.strip()
                if m == 'startswith' and len(a) == 1:
                    return o.startswith(a[0])
                if m == 'endswith' and len(a) == 1:
                    return o.endswith(a[0])
                if m == 'replace' and len(a) == 2:
                    return o.replace(a[0], a[1])
            raise RefError('method')
        if not isinstance(n.func, ast.Name):
            raise RefError('call')
        f = n.func.id.lower()
        if f == 'exists':
            try:
                v = self.ev(n.args[0])
            except RefError:
                return False
            return bool(v and str(v).strip())
        a = [self.ev(x) for x in n.args]
        desc = self.t.get('description', '')

        def tp(k):
            if len(a) == k + 1:
                return a[0], a[1:]
            if len(a) == k:
                return desc, a
            raise RefError('arity')

        if f == 'contains':
            t, (p,) = tp(1)
            return _ci(lambda pp, tt: pp in tt, p, t)
        if f == 'startswith':
            t, (p,) = tp(1)
            return _ci(lambda pp, tt: tt.startswith(pp), p, t)
        if f == 'anyof':
            return any([_ci(lambda pp, tt: pp in tt, p, desc) for p in a])
        if f == 'regex':
            t, (p,) = tp(1)
            try:
                return bool(re.search(p, t, re.I))
            except re.error:
                raise RefError('bad regex')
        if f == 'normalized':
            t, (p,) = tp(1)
            return _norm_text(p) in _norm_text(t)
        if f == 'fuzzy':
            # "approximate matching (typos)", "requires N % similarity": modelled only where every reading of "similar" agrees - text that CONTAINS the
            # pattern is similar to any degree up to 100 %; text in which no stretch of the pattern's length shares an ordered subsequence of at least
            # threshold x len(pattern) letters with it is not (an anagram is not a typo).  Everything in between is not judged.
            thr = 0.80
            if len(a) == 1:
                t, p = desc, a[0]
            elif len(a) == 2 and isinstance(a[1], (int, float)) and not isinstance(a[1], bool):
                t, p, thr = desc, a[0], a[1]
            elif len(a) == 2:
                t, p = a
            elif len(a) == 3:
                t, p, thr = a
            else:
                raise RefError('arity')
            if not isinstance(t, str) or not isinstance(p, str) or isinstance(thr, bool) or not isinstance(thr, (int, float)):
                raise Unmodelled('fuzzy')
            if thr > 1:
                return False
            if _ci(lambda pp, tt: pp in tt, p, t):
                return True
            T, P = t.upper(), p.upper()
            if t.lower().upper() != T or p.lower().upper() != P or not P:
                raise Unmodelled('fuzzy')
            if len(P) > len(T):
                if 2 * _lcs(T, P) < thr * (len(T) + len(P)) - 1e-9:
                    return False
                raise Unmodelled('fuzzy')
            if max(_lcs(T[i:i + len(P)], P) for i in range(len(T) - len(P) + 1)) < thr * len(P) - 1e-9:
                return False
            raise Unmodelled('fuzzy')
        if f == 'extract':
            t, (p,) = tp(1)
            try:
                m = re.search(p, t, re.I)
            except re.error:
                raise RefError('bad regex')
            return m.group(1) if m and m.groups() else ''
        if f == 'split':
            t, (d, i) = tp(2)
            parts = t.split(d)
            return parts[i].strip() if 0 <= i < len(parts) else ''
        if f == 'substring':
            t, (b, e) = tp(2)
            return t[b:e]
        if f == 'trim':
            return (str(a[0]) if a else desc).strip()
        if f == 'regex_replace':
            try:
                return re.sub(str(a[1]), str(a[2]), str(a[0]), flags=re.I)
            except re.error:
                raise RefError('bad regex')
        if f == 'uppercase':
            return str(a[0]).upper()
        if f == 'lowercase':
            return str(a[0]).lower()
        if f == 'strip_prefix':
            s, p = str(a[0]), str(a[1])
            return s[len(p):] if _ci(lambda ss, pp: ss.startswith(pp), s, p) else s
        if f == 'strip_suffix':
            s, p = str(a[0]), str(a[1])
            return s[:len(s) - len(p)] if _ci(lambda ss, pp: ss.endswith(pp), s, p) else s
        if f == 'abs':
            return abs(*a)
        if f == 'round':
            return round(*a)
        if f == 'len':
            return len(a[0])
        if f == 'sum':
            return sum(*a)
        if f == 'any':
            return any(a[0])
        if f == 'all':
            return all(a[0])
        if f == 'next':
            try:
                return next(*a)
            except StopIteration:
                raise RefError('exhausted')
        if f == 'min':
            try:
                return min(a[0]) if len(a) == 1 else min(a)
            except ValueError:
                raise RefError('empty')
        if f == 'max':
            try:
                return max(a[0]) if len(a) == 1 else max(a)
            except ValueError:
                raise RefError('empty')
        raise RefError('unknown function ' + f)


def norm(v):
    """Canonical form for comparing a reference value with an implementation value."""
    if isinstance(v, bool):
        return ('b', v)
    if isinstance(v, (int, float)):
        f = float(v)
        if math.isnan(f):
            return ('n', 'nan')
        return ('n', float('%.11g' % f))
    if isinstance(v, str):
        return ('s', v)
    if v is None:
        return ('none',)
    if isinstance(v, date):
        return ('d', v.isoformat())
    if isinstance(v, (list, tuple)):
        return ('l', tuple(norm(x) for x in v))
    if isinstance(v, dict):
        return ('r', tuple(sorted((k, norm(x)) for k, x in v.items())))
    if hasattr(v, '__next__'):
        return ('l', tuple(norm(x) for x in v))
    return (type(v).__name__, repr(v))


# =====================================================================================================
# Typed generator

WORDS = ['NETFLIX', 'Uber', 'eats', 'STAR', 'bucks', 'AMZN', 'Mktp', 'COSTCO', 'whole', 'Foods', 'café', 'ÜBER',
         '-', '*', '  ', '7', '42', 'a.b', "O'R", 'SQ *', '#12', 'DISNEY+', '+', '(EU)', 'A+B', ',', 'STORE', 'DISNEY']
REGEXES = [r'\D+', r'^\S+\s\S', r'^\s?\w+\W', r'\BEATS\B', r'UBER\s(?!EATS)', r'^AMZN', r'\d+', r'(net|hulu)flix', r'star.?bucks', r'\bEATS\b', r'REF:(\d+)', r'#(\d+)',
           r'^(\w+)', r'[A-Z]{4}', r'(a)|(b)', r'\s{2,}', r'foods$', r'COSTCO\s+(\w+)', r'x*']
ISO = ['2025-01-15', '2024-12-31', '2025-01-01', '2025-02-28', '2024-02-29', '2023-06-30']


class Gen:
    """Random typed generator.  Types: B(ool) N(um) S(tr); rows 'rows'/'orders' with columns amt(num) item(str) qty(int)."""

    def __init__(self, rnd, fields=('memo', 'code'), variables=('big', 'is_big', 'label'), rows=('rows', 'orders'),
                 allow_fuzzy=True, allow_rows=True):
        self.r = rnd
        self.fields, self.vars, self.rows = fields, variables, rows
        self.allow_fuzzy, self.allow_rows = allow_fuzzy, allow_rows

    def lit(self):
        return ''.join(self.r.choice(WORDS) for _ in range(self.r.randint(0, 2)))

    def q(self, x):
        if self.r.random() < .3 and '\\' not in x:
            return repr(x)
        return '"' + x.replace('\\', '\\\\').replace('"', '\\"') + '"'

    def name(self, n):
        k = self.r.random()
        return n if k < .7 else n.upper() if k < .85 else n.capitalize()

    def rowsrc(self):
        return self.r.choice(self.rows)

    def S(self, d):
        r = self.r
        c = r.randint(0, 13 if d > 0 else 3)
        if c == 0:
            return self.q(self.lit())
        if c == 1:
            return self.name('description')
        if c == 2:
            return r.choice(['field.%s' % r.choice(self.fields), 'txn.description', self.name('source'),
                             'field.description', 'txn.source', 'txn.location', 'field.%s' % r.choice(self.fields).upper(), 'label'])
        if c == 3:
            return self.q(r.choice(['x', 'AB', '', 'Amex']))
        if c == 4:
            return '%s(%s)' % (self.name('trim'), self.S(d - 1))
        if c == 5:
            return '%s(%s)' % (self.name(r.choice(['uppercase', 'lowercase'])), self.S(d - 1))
        if c == 6:
            return 'split(%s, %s, %d)' % (self.S(d - 1), self.q(r.choice(['-', ' ', '*', 'A', '.'])), r.randint(0, 3))
        if c == 7:
            return 'substring(%s, %d, %d)' % (self.S(d - 1), r.randint(0, 4), r.randint(0, 9))
        if c == 8:
            return '(%s + %s)' % (self.S(d - 1), self.S(d - 1))
        if c == 9:
            return '(%s if %s else %s)' % (self.S(d - 1), self.B(d - 1), self.S(d - 1))
        if c == 10:
            return '%s(%s, %s)' % (r.choice(['strip_prefix', 'strip_suffix']), self.S(d - 1), self.q(self.lit()))
        if c == 11:
            return r.choice(['extract(%s)' % self.q(r.choice(REGEXES)), 'extract(%s, %s)' % (self.S(d - 1), self.q(r.choice(REGEXES))),
                             'regex_replace(%s, %s, %s)' % (self.S(d - 1), self.q(r.choice(REGEXES)), self.q(r.choice(['', ' ', 'X', '-'])))])
        if c == 12 and self.allow_rows:
            src = self.rowsrc()
            return r.choice(['next((r.item for r in %s if %s), "none")' % (src, self.Brow(d - 1)),
                             '%s[%d].item' % (src, r.randint(0, 2)),
                             '[r.item for r in %s if %s][0]' % (src, self.Brow(d - 1))])
        return '%s.%s()' % (self.S(0) if r.random() < .8 else '(' + self.S(d - 1) + ')', r.choice(['lower', 'upper', 'strip']))

    def N(self, d):
        r = self.r
        c = r.randint(0, 10 if d > 0 else 3)
        if c == 0:
            return str(r.choice([0, 1, 2, 5, 12, 100, 0.5, 99.99, 2025, 0.01, 15, 31]))
        if c == 1:
            return self.name('amount')
        if c == 2:
            return self.name(r.choice(['month', 'year', 'day', 'weekday']))
        if c == 3:
            return r.choice(['txn.amount', 'field.amount', 'txn.month', 'big', 'txn.weekday', 'txn.day', 'txn.year', 'BIG'])
        if c == 4:
            return '(%s %s %s)' % (self.N(d - 1), r.choice('+-*/%'), self.N(d - 1))
        if c == 5:
            return '-%s' % self.N(d - 1)
        if c == 6:
            return 'abs(%s)' % self.N(d - 1)
        if c == 7:
            return 'len(%s)' % self.S(d - 1)
        if c == 8 and self.allow_rows:
            src = self.rowsrc()
            return r.choice([
                'sum(r.amt for r in %s)' % src, 'len([r for r in %s if r.amt > %s])' % (src, self.N(0)), 'len(%s)' % src,
                'sum([r.amt for r in %s if %s], 0)' % (src, self.Brow(d - 1)),
                'next((r.amt for r in %s if %s), 0)' % (src, self.Brow(d - 1)),
                'max(1, %s)' % self.N(d - 1), 'min(%s, %s)' % (self.N(d - 1), self.N(d - 1)),
                'sum(r.qty * s.qty for r in %s for s in %s if r.amt < s.amt)' % (src, self.rowsrc()),
                'len([big for big in %s if big.amt > 1]) + big' % src,
                'max(0, sum(r.amt for r in %s))' % src,
                '(n := len(%s)) + n' % src,
                '(len([(acc := r.amt) for r in %s if r.qty > 0]) * 0 + acc)' % src,
                '(sum((last := r.qty) for r in %s) - last)' % src,
                # loop variables / := targets spelled like a primitive shadow it, as in Python
                'sum(day.qty for day in %s)' % src, 'len([amount for amount in %s if amount.amt > 1])' % src,
                '(sum(Source.amt for Source in %s) + len(source))' % src, '((month := len(%s)) + month)' % src,
                '(len([year for year in %s if year.qty > 0]) + year)' % src,
                'round(%s, %d)' % (self.N(d - 1), r.randint(0, 2)),
            ])
        if c == 9:
            return 'round(%s)' % self.N(d - 1)
        return '(%s if %s else %s)' % (self.N(d - 1), self.B(d - 1), self.N(d - 1))

    def Brow(self, d):
        return self.r.choice(['r.amt == amount', 'r.item == description', 'contains(r.item, %s)' % self.q(self.lit()),
                              'r.amt > %s' % self.N(0), 'true', 'r.amt == txn.amount and %s' % self.B(0),
                              'r.qty >= %d' % self.r.randint(0, 3), 'startswith(description, r.item)'])

    def matchfn(self, d):
        r = self.r
        fn = r.choice(['contains', 'contains', 'startswith', 'normalized', 'regex', 'anyof'] + (['fuzzy'] if self.allow_fuzzy else []))
        if fn == 'anyof':
            return '%s(%s)' % (self.name(fn), ', '.join(self.q(self.lit()) for _ in range(r.randint(0, 3))))
        if fn == 'fuzzy':
            # typos, truncations and ANAGRAMS of words the statements contain, under several thresholds
            w = r.choice([x for x in WORDS if len(x) >= 4 and x.isalpha()] + ['STARBUCKS', 'LISTEN', 'DESSERTS'])
            k = r.randrange(5)
            w = w if k == 0 else w[:-1] if k == 1 else w[::-1] if k == 2 else ''.join(sorted(w)) if k == 3 else w[1] + w[0] + w[2:]
            thr = r.choice(['', '', ', 0.6', ', 0.85', ', 0.95', ', 1', ', 1.0'])
            if d > 0 and r.random() < .3:
                return '%s(%s, %s%s)' % (self.name(fn), self.S(d - 1), self.q(w), thr)
            return '%s(%s%s)' % (self.name(fn), self.q(w), thr)
        pat = self.q(r.choice(REGEXES)) if fn == 'regex' else self.q(self.lit())
        if d > 0 and r.random() < .35:
            return '%s(%s, %s)' % (self.name(fn), self.S(d - 1), pat)
        return '%s(%s)' % (self.name(fn), pat)

    def B(self, d):
        r = self.r
        c = r.randint(0, 14 if d > 0 else 5)
        if c == 0 or c == 4:
            return self.matchfn(d)
        if c == 1:
            return '%s %s %s' % (self.N(d), r.choice(['<', '<=', '>', '>=', '==', '!=']), self.N(d))
        if c == 2:
            return '%s %s %s' % (self.S(d), r.choice(['==', '!=', 'in', 'not in']), self.S(d))
        if c == 3:
            return self.name(r.choice(['true', 'false', 'is_big']))
        if c == 5:
            return r.choice(['date %s "%s"', 'txn.date %s "%s"', 'field.date %s "%s"']) % (
                r.choice(['<', '<=', '>', '>=', '==', '!=']), r.choice(ISO))
        if c == 6:
            return '(%s and %s)' % (self.B(d - 1), self.B(d - 1))
        if c == 7:
            return '(%s or %s)' % (self.B(d - 1), self.B(d - 1))
        if c == 8:
            return 'not %s' % self.B(d - 1)
        if c == 9:
            return '%s %s %s %s %s' % (self.N(d - 1), r.choice(['<', '<=', '==', '>', '>=']), self.N(d - 1),
                                       r.choice(['<', '<=', '==', '!=', '>']), self.N(d - 1))
        if c == 10:
            return '(%s and %s and %s)' % (self.B(d - 1), self.B(d - 1), self.B(d - 1))
        if c == 11 and self.allow_rows:
            return self._rowbool(self.rowsrc(), d)
        if c == 12:
            return 'exists(%s)' % r.choice(['field.%s' % self.fields[0], 'field.nope', 'field.%s' % self.fields[-1], self.S(d - 1)])
        if c == 13:
            return '"%s" %s date' % (r.choice(ISO), r.choice(['<=', '==', '<', '>=']))
        return '(%s if %s else %s)' % (self.B(d - 1), self.B(d - 1), self.B(d - 1))

    def _rowbool(self, src, d):
        r = self.r
        k = r.randint(0, 6)
        c = self.Brow(d - 1)
        if k == 6 and r.random() < .5:
            # membership of a string in a LIST of strings / in a row is plain (case-sensitive) Python membership
            return r.choice(['%s in [r.item for r in %s]' % (self.S(0), src), 'field.%s not in [r.item for r in %s]' % (self.fields[0], src),
                             '"item" in %s[0]' % src, '"Item" in %s[0]' % src, '%s in [lowercase(r.item) for r in %s]' % (self.S(0), src)])
        if k == 6:
            return r.choice(['any(description.amt > %s for description in %s)' % (self.N(0), src),
                             'all(amount.qty >= 0 and amount.amt < %s for amount in %s)' % (self.N(0), src),
                             '((weekday := len(%s)) == weekday)' % src])
        if k == 0:
            return 'any(%s for r in %s)' % (c, src)
        if k == 1:
            return 'all(%s for r in %s)' % (c, src)
        if k == 2:
            return 'len([r for r in %s if %s]) > 0' % (src, c)
        if k == 3:
            return '((m := [r for r in %s if %s]) and len(m) >= 1)' % (src, c)
        if k == 4:
            return 'any(r.amt == s.amt for r in %s for s in orders if %s)' % (src, c)
        return '(len([r for r in %s if %s]) == 0 or [r for r in %s if %s][0].qty > 0)' % (src, c, src, c)

    def expr(self, typ, depth):
        return getattr(self, typ)(depth)


# -------- exhaustive enumeration of a compact core grammar by node count -----------------------------
ATOMS = {
    'B': ['true', 'False', 'contains("net")', 'is_big', 'startswith("UBER")'],
    'N': ['amount', '0', '100', 'month', 'big'],
    'S': ['description', '"NETFLIX"', 'field.memo', 'source', '""'],
}
UNARY = {'B': [('not {}', 'B'), ('exists({})', 'S')], 'N': [('-{}', 'N'), ('abs({})', 'N'), ('len({})', 'S')],
         'S': [('trim({})', 'S'), ('uppercase({})', 'S'), ('{}.lower()', 'S')]}
BINARY = {
    'B': [('({} and {})', 'B', 'B'), ('({} or {})', 'B', 'B')] +
         [('({} %s {})' % o, 'N', 'N') for o in ('<', '<=', '>', '>=', '==', '!=')] +
         [('({} %s {})' % o, 'S', 'S') for o in ('==', '!=', 'in', 'not in')] +
         [('contains({}, {})', 'S', 'S'), ('startswith({}, {})', 'S', 'S'), ('normalized({}, {})', 'S', 'S')],
    'N': [('({} %s {})' % o, 'N', 'N') for o in '+-*/%'],
    'S': [('({} + {})', 'S', 'S'), ('strip_prefix({}, {})', 'S', 'S'), ('strip_suffix({}, {})', 'S', 'S')],
}
TERNARY = {'B': [('({} if {} else {})', 'B', 'B', 'B'), ('({} < {} <= {})', 'N', 'N', 'N'), ('({} == {} != {})', 'N', 'N', 'N')],
           'N': [('({} if {} else {})', 'N', 'B', 'N')], 'S': [('({} if {} else {})', 'S', 'B', 'S')]}


def enumerate_exprs(max_size):
    """All expressions of the core grammar with at most max_size nodes: {type: {size: [text]}}."""
    table = {t: {1: list(ATOMS[t])} for t in 'BNS'}
    for size in range(2, max_size + 1):
        for t in 'BNS':
            out = []
            for tpl, a in UNARY[t]:
                out += [tpl.format(x) for x in table[a].get(size - 1, [])]
            for tpl, a, b in BINARY[t]:
                for sa in range(1, size - 1):
                    sb = size - 1 - sa
                    for x in table[a].get(sa, []):
                        for y in table[b].get(sb, []):
                            out.append(tpl.format(x, y))
            for tpl, a, b, c in TERNARY[t]:
                for sa in range(1, size - 2):
                    for sb in range(1, size - 1 - sa):
                        sc = size - 1 - sa - sb
                        if sc < 1:
                            continue
                        for x in table[a].get(sa, []):
                            for y in table[b].get(sb, []):
                                for z in table[c].get(sc, []):
                                    out.append(tpl.format(x, y, z))
            table[t][size] = out
    return table


# -------- equivalence-law rewriters (AST level, re-rendered with ast.unparse) ------------------------
CI_FUNCS = {'contains', 'startswith', 'anyof', 'normalized'}


def _flip(s, rnd):
    return ''.join((c.swapcase() if c.isascii() and c.isalpha() and rnd.random() < .6 else c) for c in s)


class CaseFlip(ast.NodeTransformer):
    """Change the letter case of ASCII text in case-insensitive positions, of function / variable / field names."""

    def __init__(self, rnd):
        self.rnd = rnd
        self.changed = 0
        self.bound = set()

    def visit_Name(self, n):
        if isinstance(n.ctx, ast.Load) or True:
            new = _flip(n.id, self.rnd)
            if new != n.id:
                self.changed += 1
            return ast.copy_location(ast.Name(id=new, ctx=n.ctx), n)
        return n

    def visit_Attribute(self, n):
        self.generic_visit(n)
        new = _flip(n.attr, self.rnd)
        # method names on strings (.lower/.upper/.strip ...) are also matched case-insensitively by the language
        if new != n.attr:
            self.changed += 1
        n.attr = new
        return n

    def _flip_const(self, c):
        if isinstance(c, ast.Constant) and isinstance(c.value, str):
            new = _flip(c.value, self.rnd)
            if new != c.value:
                self.changed += 1
            return ast.copy_location(ast.Constant(value=new), c)
        return c

    def visit_Call(self, n):
        self.generic_visit(n)
        if isinstance(n.func, ast.Name) and n.func.id.lower() in CI_FUNCS:
            # pattern argument = last arg (anyof: all args)
            if n.func.id.lower() == 'anyof':
                n.args = [self._flip_const(a) for a in n.args]
            elif n.args:
                n.args[-1] = self._flip_const(n.args[-1])
        return n

    def visit_Compare(self, n):
        self.generic_visit(n)
        if all(isinstance(o, (ast.Eq, ast.NotEq)) for o in n.ops):
            operands = [n.left] + list(n.comparators)
            # flipping a literal is only meaning-preserving when it is compared with another *string*
            if all(_is_strish(x) for x in operands):
                n.left = self._flip_const(n.left)
                n.comparators = [self._flip_const(c) for c in n.comparators]
        elif all(isinstance(o, (ast.In, ast.NotIn)) for o in n.ops) and len(n.ops) == 1 and _is_strish(n.comparators[0]):
            n.left = self._flip_const(n.left)
            n.comparators = [self._flip_const(c) for c in n.comparators]
        return n


STR_FUNCS = {'trim', 'uppercase', 'lowercase', 'split', 'substring', 'extract', 'regex_replace', 'strip_prefix', 'strip_suffix'}
STR_NAMES = {'description', 'source', 'label'}


def _is_strish(n):
    if isinstance(n, ast.Constant):
        return isinstance(n.value, str)
    if isinstance(n, ast.Name):
        return n.id.lower() in STR_NAMES
    if isinstance(n, ast.Attribute) and isinstance(n.value, ast.Name) and n.value.id.lower() in ('field', 'txn'):
        return n.attr.lower() not in ('amount', 'date', 'month', 'year', 'day', 'weekday')
    if isinstance(n, ast.Call) and isinstance(n.func, ast.Name):
        return n.func.id.lower() in STR_FUNCS
    if isinstance(n, ast.Call) and isinstance(n.func, ast.Attribute):
        return n.func.attr.lower() in ('lower', 'upper', 'strip', 'replace')
    if isinstance(n, ast.BinOp) and isinstance(n.op, ast.Add):
        return _is_strish(n.left) and _is_strish(n.right)
    if isinstance(n, ast.IfExp):
        return _is_strish(n.body) and _is_strish(n.orelse)
    return False


def case_flip(text, rnd):
    tree = ast.parse(text, mode='eval')
    cf = CaseFlip(rnd)
    tree = ast.fix_missing_locations(cf.visit(tree))
    return ast.unparse(tree), cf.changed


def chain_to_conj(text):
    """a < b < c  ->  (a < b) and (b < c) for every chain; returns None if there is no chain.
    Only sound when the middle operands are pure (no :=, no generators) - callers generate such chains only."""
    tree = ast.parse(text, mode='eval')
    found = [0]

    class T(ast.NodeTransformer):
        def visit_Compare(self, n):
            self.generic_visit(n)
            if len(n.ops) < 2:
                return n
            found[0] += 1
            ops = [n.left] + list(n.comparators)
            links = [ast.Compare(left=ops[i], ops=[n.ops[i]], comparators=[ops[i + 1]]) for i in range(len(n.ops))]
            return ast.BoolOp(op=ast.And(), values=links)

    tree = ast.fix_missing_locations(T().visit(tree))
    return ast.unparse(tree) if found[0] else None

import sys
from vt import core

def main():
    if len(sys.argv) < 2:
        sys.exit('usage: check <Cnn> [--replay file]')
    pid = sys.argv[1].upper()
    mod = f'vt.checks.{pid.lower()}'
    try:
        rc = core.run_check(pid, mod, sys.argv[2:])
    except ModuleNotFoundError as e:
        print(f'INCONCLUSIVE property={pid}: {e}')
        rc = 2
    sys.exit(rc)

main()

"""Observation helpers: run the real tally matching paths and return comparable results."""
import copy
import os
from datetime import date

from vt import lang, rules as R


def jtxn(t):
    return {k: (v.isoformat() if isinstance(v, date) else v) for k, v in t.items()}


def untxn(t):
    t = dict(t)
    if isinstance(t.get('date'), str):
        t['date'] = date.fromisoformat(t['date'])
    return t


def copy_rows(rows):
    return {k: [dict(r) for r in v] for k, v in (rows or {}).items()}


class ImplError(Exception):
    def __init__(self, where, exc):
        super().__init__(f'{where}: {type(exc).__name__}: {exc}')
        self.where, self.exc = where, exc


def fresh(s):
    """The same text as a string object created at run time (as a value read from settings.yaml is) - equal to, but not identical with, a literal."""
    return s if s is None else ''.join(list(s))


def load_engine(text, mode='first_match'):
    from tally.merchant_engine import parse_merchants
    return parse_merchants(text, match_mode=fresh(mode))


def engine_result(eng, txn, rows):
    """MerchantEngine.match on a copy of txn -> comparable dict."""
    try:
        res = eng.match(copy.deepcopy(txn), data_sources=copy_rows(rows))
    except Exception as e:
        raise ImplError('MerchantEngine.match', e)
    return {
        'triple': (res.merchant, res.category, res.subcategory) if res.matched else None,
        'raw': (res.merchant, res.category, res.subcategory),
        'tags': set(res.tags),
        'fields': {k: lang.norm(v) for k, v in (res.extra_fields or {}).items()},
        'pattern': res.matched_rule.match_expr if res.matched_rule else None,
        'matching': [r.name for r in res.all_matching_rules],
        'winner_name': res.matched_rule.name if res.matched_rule else None,
        'sub_name': res.subcategory_rule.name if res.subcategory_rule else None,
        'merchant_rule': res.merchant_rule.name if res.merchant_rule else None,
    }


def production_load(path, mode='first_match', clear=True):
    from tally import merchant_utils as mu
    if clear:
        mu.clear_engine_cache()
    rules = mu.get_all_rules(path, match_mode=fresh(mode))
    transforms = mu.get_transforms(path, match_mode=fresh(mode))
    return rules, transforms


def production_result(rules, transforms, txn, rows):
    """normalize_merchant exactly as parse_generic_csv calls it."""
    from tally import merchant_utils as mu
    f = txn.get('field')
    try:
        m, c, s, info = mu.normalize_merchant(
            txn.get('description', ''), rules, amount=txn.get('amount'), txn_date=txn.get('date'),
            field=copy.deepcopy(f) if f else None, data_source=txn.get('source'), transforms=transforms,
            location=txn.get('location'), data_sources=copy_rows(rows))
    except Exception as e:
        raise ImplError('normalize_merchant', e)
    unknown = (c == 'Unknown' and s == 'Unknown')
    return {
        'triple': None if unknown else (m, c, s),
        'fallback': m if unknown else None,
        'tags': set((info or {}).get('tags', [])),
        'fields': {k: lang.norm(v) for k, v in ((info or {}).get('extra_fields') or {}).items()},
        'pattern': (info or {}).get('pattern'),
        'raw_values': (info or {}).get('raw_values'),
    }


def write(path, text):
    with open(path, 'w', encoding='utf-8') as f:
        f.write(text)
    return path


def pipeline_txns(txns, rnd, twins=True):
    """Pool transactions as one statement file would carry them: one source, stripped cells, a date, a non-zero amount; plus
    'twins' that repeat a row's description, amount and date and differ only in custom columns / location."""
    src = rnd.choice(['Amex', 'Chase', 'amex', 'x'])
    out = []
    for t in txns:
        d = (t.get('description') or '').strip()
        if not d or t.get('date') is None or not t.get('amount') or '\n' in d:
            continue
        f = t.get('field') or {}
        u = {'description': d, 'amount': float(t['amount']), 'date': t['date'], 'source': src,
             'location': (t.get('location') or '').strip() or 'ZZ',
             'field': {'memo': str(f.get('memo', '')).strip(), 'code': str(f.get('code', '')).strip()}}
        out.append(u)
    if twins:
        from vt import world
        for u in list(out):
            if rnd.random() < .5:
                v = copy.deepcopy(u)
                which = rnd.randrange(4)
                if which in (0, 3):
                    v['field']['memo'] = rnd.choice(world.MEMOS).strip()
                if which in (1, 3):
                    v['field']['code'] = rnd.choice(world.CODES).strip()
                if which == 2:
                    v['location'] = rnd.choice(['WA', 'NY', 'Seattle, WA', 'ZZ'])
                out.insert(rnd.randint(0, len(out)), v)
    return out


def pipeline_results(rules, transforms, ptxns, rows, tmp):
    """The statement-reading pipeline: write the rows as a CSV, read it with parse_generic_csv exactly as `tally up` does."""
    import csv
    from tally.format_parser import parse_format_string
    from tally.parsers import parse_generic_csv
    path = os.path.join(tmp, 'stmt.csv')
    with open(path, 'w', newline='', encoding='utf-8') as f:
        w = csv.writer(f)
        w.writerow(['Date', 'Description', 'Amount', 'Memo', 'Code', 'Where'])
        for t in ptxns:
            # (every other file is a statement that writes charges as negatives, read with {-amount}: the rules see the amount the transaction carries)
            w.writerow([t['date'].isoformat(), t['description'], repr(-t['amount'] if (len(ptxns) // 3) % 2 else t['amount']), t['field']['memo'], t['field']['code'], t['location']])
    # (capture names are case-insensitive: a settings file may spell them {Memo} / {CODE}; rules read field.memo / field.code all the same)
    names = [('{memo}', '{code}'), ('{Memo}', '{CODE}'), ('{MEMO}', '{Code}')][len(ptxns) % 3]
    spec = parse_format_string('{date:%%Y-%%m-%%d},{Description},%s,%s,%s,{location}' % (('{-amount}' if (len(ptxns) // 3) % 2 else '{amount}',) + names))
    try:
        got = parse_generic_csv(path, spec, rules, source_name=ptxns[0]['source'] if ptxns else 'CSV', transforms=transforms,
                                data_sources=copy_rows(rows))
    except Exception as e:
        raise ImplError('parse_generic_csv', e)
    res = []
    for g in got:
        unknown = (g['category'] == 'Unknown' and g['subcategory'] == 'Unknown')
        info = g.get('match_info') or {}
        res.append({'triple': None if unknown else (g['merchant'], g['category'], g['subcategory']),
                    'fallback': g['merchant'] if unknown else None, 'tags': set(g.get('tags') or []),
                    'fields': {k: lang.norm(v) for k, v in (g.get('extra_fields') or {}).items()},
                    'raw_description': g.get('raw_description'), 'amount': g['amount'], 'txn': g})
    return res


def pipeline_reported_is_classified(rules, ptxns, rows, tmp):
    """A statement WITHOUT a location column, some descriptions ending in a state / country code: whatever location (and other values) a parsed
    transaction reports are the values the rules were shown - classifying the reported transaction again gives the classification it carries.
    Returns a list of (description, reported location, carried, again) for rows where that fails.  (Files without transforms only.)"""
    import csv
    from tally.format_parser import parse_format_string
    from tally.parsers import parse_generic_csv
    path = os.path.join(tmp, 'stmt-noloc.csv')
    codes = ['', ' WA', ' HI', ' NY', '  CA', ' wa', ' GB ']
    with open(path, 'w', newline='', encoding='utf-8') as f:
        w = csv.writer(f)
        w.writerow(['Date', 'Description', 'Amount', 'Memo', 'Code'])
        for i, t in enumerate(ptxns):
            w.writerow([t['date'].isoformat(), t['description'] + codes[(i + len(ptxns)) % len(codes)], repr(t['amount']), t['field']['memo'], t['field']['code']])
    spec = parse_format_string('{date:%Y-%m-%d},{description},{amount},{memo},{code}')
    src = ptxns[0]['source'] if ptxns else 'CSV'
    try:
        got = parse_generic_csv(path, spec, rules, source_name=src, transforms=None, data_sources=copy_rows(rows))
    except Exception as e:
        raise ImplError('parse_generic_csv', e)
    bad = []
    for g in got:
        d = g['date']
        again = production_result(rules, None, {'description': g['raw_description'], 'amount': g['amount'], 'date': d.date() if hasattr(d, 'date') else d,
                                                'field': g.get('field'), 'source': g.get('source'), 'location': g.get('location')}, rows)
        unknown = (g['category'] == 'Unknown' and g['subcategory'] == 'Unknown')
        carried = (None if unknown else (g['merchant'], g['category'], g['subcategory']), set(g.get('tags') or []))
        if carried != (again['triple'], again['tags']):
            bad.append((g['raw_description'], g.get('location'), carried, (again['triple'], again['tags'])))
    return len(got), bad


def legacy_parser_results(rules, ptxns, tmp, which):
    """The deprecated `type: amex` / `type: boa` statement readers: same rules, their own way of handing the row to the matcher."""
    import csv
    from tally import parsers
    path = os.path.join(tmp, 'legacy-%s.txt' % which)
    if which == 'amex':
        with open(path, 'w', newline='', encoding='utf-8') as f:
            w = csv.writer(f)
            w.writerow(['Date', 'Description', 'Amount'])
            for t in ptxns:
                w.writerow([t['date'].strftime('%m/%d/%Y'), t['description'], repr(t['amount'])])
        fn = parsers.parse_amex
    else:
        with open(path, 'w', encoding='utf-8') as f:
            for t in ptxns:
                f.write('%s  %s  %.2f  1000.00\n' % (t['date'].strftime('%m/%d/%Y'), t['description'], t['amount']))
        fn = parsers.parse_boa
    try:
        got = fn(path, rules)
    except Exception as e:
        raise ImplError('parse_' + which, e)
    res = []
    for g in got:
        unknown = (g['category'] == 'Unknown' and g['subcategory'] == 'Unknown')
        res.append({'triple': None if unknown else (g['merchant'], g['category'], g['subcategory']), 'tags': set(g.get('tags') or []),
                    'raw_description': g.get('raw_description'), 'amount': g['amount']})
    return res

"""Observation helpers: run the real tally matching paths and return comparable results."""
import copy
import os
from datetime import date

from vt import lang, rules as R


def jtxn(t):
    return {k: (v.isoformat() if isinstance(v, date) else v) for k, v in t.items()}


def untxn(t):
    t = dict(t)
    if isinstance(t.get('date'), str):
        t['date'] = date.fromisoformat(t['date'])
    return t


def copy_rows(rows):
    return {k: [dict(r) for r in v] for k, v in (rows or {}).items()}


class ImplError(Exception):
    def __init__(self, where, exc):
        super().__init__(f'{where}: {type(exc).__name__}: {exc}')
        self.where, self.exc = where, exc


def load_engine(text, mode='first_match'):
    from tally.merchant_engine import parse_merchants
    return parse_merchants(text, match_mode=mode)


def engine_result(eng, txn, rows):
    """MerchantEngine.match on a copy of txn -> comparable dict."""
    try:
        res = eng.match(copy.deepcopy(txn), data_sources=copy_rows(rows))
    except Exception as e:
        raise ImplError('MerchantEngine.match', e)
    return {
        'triple': (res.merchant, res.category, res.subcategory) if res.matched else None,
        'raw': (res.merchant, res.category, res.subcategory),
        'tags': set(res.tags),
        'fields': {k: lang.norm(v) for k, v in (res.extra_fields or {}).items()},
        'pattern': res.matched_rule.match_expr if res.matched_rule else None,
        'matching': [r.name for r in res.all_matching_rules],
        'winner_name': res.matched_rule.name if res.matched_rule else None,
        'sub_name': res.subcategory_rule.name if res.subcategory_rule else None,
        'merchant_rule': res.merchant_rule.name if res.merchant_rule else None,
    }


def production_load(path, mode='first_match', clear=True):
    from tally import merchant_utils as mu
    if clear:
        mu.clear_engine_cache()
    rules = mu.get_all_rules(path, match_mode=mode)
    transforms = mu.get_transforms(path, match_mode=mode)
    return rules, transforms


def production_result(rules, transforms, txn, rows):
    """normalize_merchant exactly as parse_generic_csv calls it."""
    from tally import merchant_utils as mu
    f = txn.get('field')
    try:
        m, c, s, info = mu.normalize_merchant(
            txn.get('description', ''), rules, amount=txn.get('amount'), txn_date=txn.get('date'),
            field=copy.deepcopy(f) if f else None, data_source=txn.get('source'), transforms=transforms,
            location=txn.get('location'), data_sources=copy_rows(rows))
    except Exception as e:
        raise ImplError('normalize_merchant', e)
    unknown = (c == 'Unknown' and s == 'Unknown')
    return {
        'triple': None if unknown else (m, c, s),
        'fallback': m if unknown else None,
        'tags': set((info or {}).get('tags', [])),
        'fields': {k: lang.norm(v) for k, v in ((info or {}).get('extra_fields') or {}).items()},
        'pattern': (info or {}).get('pattern'),
        'raw_values': (info or {}).get('raw_values'),
    }


def write(path, text):
    with open(path, 'w', encoding='utf-8') as f:
        f.write(text)
    return path

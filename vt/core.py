"""Shared runtime-monitoring harness: repo import, seeding, sharding, recorder, evidence, verdicts.

Exit status of a check:  0 held on everything observed | 1 violated (VIOLATION line printed)
                          2 inconclusive (a deciding monitor observed nothing / tree does not import / watchdog)
"""
import hashlib
import importlib
import json
import os
import random
import subprocess
import sys
import time
import traceback
from collections import Counter

VERIF = os.path.dirname(os.path.dirname(os.path.abspath(__file__)))
REPO = os.environ.get('VERIF_REPO', '/repo')
SRC = os.path.join(REPO, 'src')
PY = '/venv/bin/python'
KNOWN_FILE = os.path.join(VERIF, 'known_findings.json')


def tier():
    t = os.environ.get('VERIF_TIER', 'quick').lower()
    return 'thorough' if t.startswith('t') else 'quick'


def base_seed():
    try:
        return int(os.environ.get('VERIF_SEED', '0'))
    except ValueError:
        return 0


def rng_for(check, shard, salt=''):
    h = hashlib.sha256(f'{base_seed()}|{check}|{shard}|{salt}'.encode()).digest()
    return random.Random(int.from_bytes(h[:8], 'big'))


def import_tally():
    """Import tally from $VERIF_REPO/src (default /repo/src); refuse anything else."""
    if SRC in sys.path:
        sys.path.remove(SRC)
    sys.path.insert(0, SRC)
    for k in [k for k in sys.modules if k == 'tally' or k.startswith('tally.')]:
        if not (getattr(sys.modules[k], '__file__', '') or '').startswith(SRC):
            del sys.modules[k]
    import tally  # noqa
    f = os.path.realpath(tally.__file__)
    if not f.startswith(os.path.realpath(SRC) + os.sep):
        raise Inconclusive(f'tally imported from {f}, not from {SRC}')
    return tally


class Inconclusive(Exception):
    pass


def digest(obj):
    return hashlib.sha1(json.dumps(obj, sort_keys=True, default=str).encode()).hexdigest()[:16]


def jsonable(o):
    """Best-effort conversion to JSON-able data (dates -> iso, sets -> sorted lists)."""
    import datetime
    if isinstance(o, (str, int, float, bool)) or o is None:
        if isinstance(o, float) and (o != o or o in (float('inf'), float('-inf'))):
            return repr(o)
        return o
    if isinstance(o, (datetime.datetime, datetime.date)):
        return o.isoformat()
    if isinstance(o, dict):
        return {str(k): jsonable(v) for k, v in o.items()}
    if isinstance(o, (list, tuple)):
        return [jsonable(v) for v in o]
    if isinstance(o, (set, frozenset)):
        return sorted((jsonable(v) for v in o), key=repr)
    return repr(o)


class Recorder:
    """Per-shard accumulator; merged by the parent.  Everything in it is measured, never constant."""

    MAX_VIOL = 40
    MAX_SAMPLES = 6

    def __init__(self, pid):
        self.pid = pid
        self.evaluations = 0
        self.nontrivial = set()
        self.counters = Counter()
        self.samples = []
        self.violations = []      # {key, msg, case}
        self.notes = []
        self.inconclusive = []

    # -- counting -------------------------------------------------------------
    def case(self, n=1):
        self.evaluations += n

    def interesting(self, obj):
        """Register a distinct non-trivial case (obj must be JSON-able or a string key)."""
        self.nontrivial.add(obj if isinstance(obj, str) and len(obj) <= 20 else digest(obj))

    def count(self, name, n=1):
        self.counters[name] += n

    def sample(self, obj):
        if len(self.samples) < self.MAX_SAMPLES:
            self.samples.append(jsonable(obj))

    def violation(self, key, msg, case):
        """key = mechanism classifier key (stable, input/failure-shape based, never random)."""
        self.counters['violations_raw'] += 1
        self.counters['viol:' + key] += 1
        if sum(1 for v in self.violations if v['key'] == key) < 3 and len(self.violations) < self.MAX_VIOL:
            self.violations.append({'key': key, 'msg': msg, 'case': jsonable(case)})

    def unsure(self, why):
        if len(self.inconclusive) < 10:
            self.inconclusive.append(why)

    def dump(self):
        return {
            'evaluations': self.evaluations, 'nontrivial': sorted(self.nontrivial),
            'counters': dict(self.counters), 'samples': self.samples,
            'violations': self.violations, 'notes': self.notes, 'inconclusive': self.inconclusive,
        }


def merge(parts):
    out = {'evaluations': 0, 'nontrivial': set(), 'counters': Counter(), 'samples': [], 'violations': [],
           'notes': [], 'inconclusive': []}
    for p in parts:
        out['evaluations'] += p['evaluations']
        out['nontrivial'].update(p['nontrivial'])
        out['counters'].update(p['counters'])
        for s in p['samples']:
            if len(out['samples']) < 8:
                out['samples'].append(s)
        out['violations'].extend(p['violations'])
        out['notes'].extend(p['notes'])
        out['inconclusive'].extend(p['inconclusive'])
    return out


def load_known(pid):
    try:
        data = json.load(open(KNOWN_FILE))
    except FileNotFoundError:
        return {}, {}
    open_, fixed = {}, {}
    for f in data.get('findings', []):
        if f.get('property') != pid:
            continue
        (open_ if f.get('status') == 'open' else fixed)[f['key']] = f
    return open_, fixed


# ---------------------------------------------------------------------------------------------------
# parent side

def run_check(pid, module_name, argv):
    """Entry used by ./check: shard the module's work over subprocesses, merge, decide, write evidence."""
    t0 = time.time()
    replay = None
    if '--replay' in argv:
        replay = argv[argv.index('--replay') + 1]
    mod = importlib.import_module(module_name)
    spec = mod.SPEC
    t = tier()
    nshards = int(os.environ.get('VERIF_SHARDS', spec.get('shards', {}).get(t, 8 if t == 'quick' else 16)))
    watchdog = spec.get('watchdog_s', {}).get(t, 900 if t == 'quick' else 3600)
    outdir = os.path.join(VERIF, 'out', 'shards', f'{pid}-{os.getpid()}')
    os.makedirs(outdir, exist_ok=True)
    env = dict(os.environ, PYTHONHASHSEED='0', PYTHONDONTWRITEBYTECODE='1', VERIF_TIER=t,
               VERIF_SEED=str(base_seed()), VERIF_REPO=REPO, NO_COLOR='1')
    env['PYTHONPATH'] = os.pathsep.join([SRC, VERIF])
    env.pop('TALLY_CONFIG', None)
    procs = []
    if replay:
        nshards = 1
    for s in range(nshards):
        out = os.path.join(outdir, f'{s}.json')
        cmd = [PY, '-m', 'vt.core', '--worker', pid, module_name, str(s), str(nshards), out]
        if replay:
            cmd += ['--replay', os.path.abspath(replay)]
        procs.append((s, out, subprocess.Popen(cmd, cwd=VERIF, env=env, stdin=subprocess.DEVNULL)))
    parts, problems = [], []
    deadline = t0 + watchdog
    for s, out, p in procs:
        try:
            rc = p.wait(timeout=max(1, deadline - time.time()))
        except subprocess.TimeoutExpired:
            p.kill()
            problems.append(f'shard {s}: wall-clock watchdog ({watchdog}s) fired')
            continue
        if rc != 0 or not os.path.exists(out):
            problems.append(f'shard {s}: worker exited {rc} without a result')
            continue
        parts.append(json.load(open(out)))
    for f in os.listdir(outdir):
        os.unlink(os.path.join(outdir, f))
    os.rmdir(outdir)
    m = merge(parts) if parts else merge([])
    m['inconclusive'].extend(problems)
    return decide(pid, spec, m, t, time.time() - t0, nshards, replay)


def decide(pid, spec, m, t, wall, nshards, replay=None):
    known_open, known_fixed = load_known(pid)
    real, known_hit = [], {}
    for v in m['violations']:
        if v['key'] in known_open:
            known_hit.setdefault(v['key'], v)
        else:
            real.append(v)
    # counts of raw violations per key (not only the retained witnesses)
    for k, n in m['counters'].items():
        if k.startswith('viol:') and k[5:] in known_open:
            known_hit.setdefault(k[5:], {'key': k[5:], 'msg': known_open[k[5:]].get('what', ''), 'case': None})
    for k, v in sorted(known_hit.items()):
        print(f"KNOWN-FINDING: property={pid} {k}: {known_open[k].get('what', v.get('msg', ''))}")
    lines = []
    rdir = os.path.join(VERIF, 'out', 'replay')
    os.makedirs(rdir, exist_ok=True)
    seen = set()
    for v in real:
        if v['key'] in seen:
            continue
        seen.add(v['key'])
        path = os.path.join(rdir, f"{pid}-{digest(v)}.json")
        with open(path, 'w') as f:
            json.dump({'property': pid, 'key': v['key'], 'msg': v['msg'], 'case': v['case'],
                       'seed': base_seed(), 'tier': t}, f, indent=1, default=str)
        lines.append((v, path))
    # required monitors must have observed something
    unsure = list(m['inconclusive'])
    for name in spec.get('required_counters', []):
        if m['counters'].get(name, 0) <= 0 and not replay:
            unsure.append(f'deciding monitor {name!r} observed nothing')
    if not replay and len(m['nontrivial']) < 2:
        unsure.append('fewer than two distinct non-trivial cases were observed')
    ev = {
        'property_id': pid, 'tier': t, 'seed': base_seed(), 'level': spec['level'],
        'coverage': {
            'evaluations': int(m['evaluations']),
            'distinct_nontrivial': len(m['nontrivial']),
            'rule': spec['rule'],
            'samples': m['samples'] or ['(none)'],
            'exhaustive': bool(spec.get('exhaustive', {}).get(t, False)),
            'monitor_counters': {k: v for k, v in sorted(m['counters'].items()) if not k.startswith('viol:')},
            'violation_keys': {k[5:]: v for k, v in sorted(m['counters'].items()) if k.startswith('viol:')},
            'known_findings_hit': sorted(known_hit),
            'shards': nshards,
            'notes': m['notes'][:20],
            'verdict': 'violated' if lines else ('inconclusive' if unsure else 'held-on-observed'),
            'inconclusive_reasons': unsure[:10],
        },
        'assumptions': spec.get('assumptions', []),
        'wall_s': round(wall, 2),
        'violations': len(lines),
    }
    if not replay and not os.environ.get('VERIF_NO_EVIDENCE'):
        os.makedirs(os.path.join(VERIF, 'evidence'), exist_ok=True)
        with open(os.path.join(VERIF, 'evidence', f'{pid}.json'), 'w') as f:
            json.dump(ev, f, indent=1, default=str)
    c = m['counters']
    print(f"[{pid}] tier={t} seed={base_seed()} shards={nshards} evaluations={m['evaluations']} "
          f"distinct_nontrivial={len(m['nontrivial'])} wall={wall:.1f}s")
    shown = [(k, v) for k, v in sorted(c.items()) if not k.startswith('viol:')][:60]
    print('  monitors: ' + ', '.join(f'{k}={v}' for k, v in shown))
    if lines:
        for v, path in lines[:12]:
            print(f"  {v['key']}: {v['msg'][:300]}")
            print(f"VIOLATION property={pid} replay={path}")
        if len(lines) > 12:
            print(f"  ... and {len(lines) - 12} more violation keys (see evidence file / out/replay)")
        return 1
    if unsure:
        for u in unsure[:10]:
            print(f"INCONCLUSIVE property={pid}: {u}")
        return 2
    print(f"HELD property={pid} on everything observed")
    return 0


def repo_tests_with_monitors(rec, pid):
    """Second execution source (thorough tier): the repository's own tests with the library-level monitors attached."""
    import tempfile
    fd, out = tempfile.mkstemp(suffix='.json')
    os.close(fd)
    env = dict(os.environ, VT_PYTEST_OUT=out, PYTHONPATH=os.pathsep.join([SRC, VERIF]), PYTHONDONTWRITEBYTECODE='1')
    try:
        p = subprocess.run([PY, '-m', 'pytest', '-q', '-p', 'no:cacheprovider', '-p', 'vt.pytest_monitors', '--timeout=900',
                            '--ignore=tests/test_report_html.py'], cwd=REPO, env=env, capture_output=True, text=True, timeout=1800)
        data = json.load(open(out))
    except Exception as e:
        rec.notes.append(f'repo-tests run unavailable: {type(e).__name__}: {e}')
        return
    finally:
        if os.path.exists(out):
            os.unlink(out)
    for k, v in data['counts'].items():
        if k.lower().startswith(pid.lower()):
            rec.count('repo_tests:' + k, v)
    for prop, key, msg in data['violations']:
        if prop == pid:
            rec.violation('repo-tests:' + key, 'while running the repository\'s own tests under the monitor: ' + msg, {'kind': 'repo-tests'})


# ---------------------------------------------------------------------------------------------------
# worker side

def worker(argv):
    pid, module_name, shard, nshards, out = argv[0], argv[1], int(argv[2]), int(argv[3]), argv[4]
    rec = Recorder(pid)
    import warnings
    warnings.simplefilter('ignore', SyntaxWarning)
    try:
        import_tally()
        mod = importlib.import_module(module_name)
        if '--replay' in argv:
            data = json.load(open(argv[argv.index('--replay') + 1]))
            mod.replay(rec, data['case'])
        else:
            known_open, known_fixed = load_known(pid)
            if shard == 0:
                # witnesses of open findings (-> KNOWN-FINDING line while they reproduce) and of repaired ones
                # (regression probes: a fixed entry suppresses nothing, so a returning defect is a VIOLATION)
                for k, f in list(known_open.items()) + list(known_fixed.items()):
                    if f.get('witness') is not None:
                        try:
                            mod.replay(rec, f['witness'])
                        except Exception as e:  # a witness that cannot even run is reported, not hidden
                            rec.notes.append(f'witness {k} raised {type(e).__name__}: {e}')
            mod.run(rec, shard, nshards, tier())
    except Inconclusive as e:
        rec.unsure(str(e))
    except Exception as e:
        rec.unsure(f'harness error in shard {shard}: {type(e).__name__}: {e} :: ' +
                   traceback.format_exc().strip().splitlines()[-3][:200])
        traceback.print_exc()
    with open(out, 'w') as f:
        json.dump(rec.dump(), f, default=str)


if __name__ == '__main__':
    if len(sys.argv) > 1 and sys.argv[1] == '--worker':
        worker(sys.argv[2:])

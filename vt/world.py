"""Shared transaction / supplemental-row pools (descriptions correlate with the generators' pattern words)."""
from datetime import date

DESCS = ['NETFLIX.COM Uber eats', 'star-BUCKS  *7', "O'Reilly Café AMZN Mktp", 'UBER EATS 42 SQ *COSTCO', 'ÜBER whole Foods #12',
         'Netflix', 'uber   eats', 'COSTCO GAS 100', 'AMZN Mktp US*7 NETFLIX', 'a.b-*  ', 'net', 'SQ *STAR bucks REF:77',
         'UBER TRIP 7', 'WHOLE FOODS MARKET #12 WA', 'AMAZON PRIME', 'STARBUCKS STORE 42', 'costco whole foods', 'ZZ unmatched thing',
         'Plain Unknown Vendor 99', '', 'UBER\u00a0EATS 9', 'WHOLE\u3000FOODS\u2009MKT', 'SILENT NIGHT BOOKS', 'STRESSED OUT SPA', 'STARBUKS #9']
MEMOS = [' x ', '', 'NETFLIX', 'Uber', 'a.b', 'netflix', 'REF:9', '100', 'x', '  ', 'NET', 'PROJ:alpha', 'Hauptstra\u00dfe 5', '\u039f\u0394\u039f\u03a3-7']
CODES = ['AB-cd-3', 'x', 'REF:123 #45', '', '--', 'AB', 'A-B', '0', ' AB ', 'net', '#7']
DATES = [date(2025, 1, 15), date(2024, 12, 31), date(2025, 2, 28), date(2025, 1, 1), date(2024, 2, 29), date(2025, 12, 31),
         date(2023, 6, 30), date(2025, 6, 1), date(2025, 1, 31), date(2025, 3, 2), date(2024, 12, 1), None]
AMOUNTS = [12.0, -99.99, 0.5, 100, 0.01, -0.01, 500, 99.99, 100.0, 2025, 50, 1e6, 10, 100.01, 99.98, 12, -12.0]
SOURCES = ['Amex', None, 'amex', 'Chase', 'AMEX', 'net', '', 'x']
LOCS = ['WA', None, 'Seattle, WA', '', 'NY']

ROWS = {
    'rows': [{'amt': 12.0, 'item': 'NETFLIX.COM Uber eats', 'qty': 1}, {'amt': 5, 'item': 'star', 'qty': 0},
             {'amt': 100, 'item': '', 'qty': 3}, {'amt': -99.99, 'item': 'STAR-bucks', 'qty': 2}],
    'orders': [{'amt': 100.0, 'item': 'COSTCO whole Foods', 'qty': 2}, {'amt': 0.5, 'item': 'AMZN', 'qty': 5}],
}
ROWSETS = [ROWS, {'rows': [], 'orders': []},
           {'rows': [{'amt': 0.01, 'item': "O'R", 'qty': 7}], 'orders': ROWS['rows']}]


def txn(rnd, with_fields=True, desc=None):
    t = {'description': rnd.choice(DESCS) if desc is None else desc, 'amount': rnd.choice(AMOUNTS),
         'source': rnd.choice(SOURCES), 'location': rnd.choice(LOCS)}
    d = rnd.choice(DATES)
    if d is not None:
        t['date'] = d
    if with_fields or rnd.random() < .85:
        t['field'] = {'memo': rnd.choice(MEMOS), 'code': rnd.choice(CODES)}
        if rnd.random() < .3:
            # statement columns that happen to be called like a date part (a fiscal-year label, a weekday name): field.year / field.day are THOSE cells
            t['field'].update({'year': rnd.choice(['FY25', 'fy24']), 'day': rnd.choice(['Sat', 'Mon'])})
    else:
        t['field'] = None
    return t


def pool(rnd, n, with_fields=True):
    return [txn(rnd, with_fields) for _ in range(n)]


def field_twins(rnd, txns, k=4):
    """Copies of k pool transactions that keep description, amount, date, source and location and differ only in custom field values."""
    out = []
    for t in rnd.sample(txns, min(k, len(txns))):
        if not t.get('field'):
            continue
        u = dict(t, field=dict(t['field']))
        which = rnd.randrange(3)
        if which in (0, 2):
            u['field']['memo'] = rnd.choice(MEMOS)
        if which in (1, 2):
            u['field']['code'] = rnd.choice(CODES)
        out.append(u)
    return out

"""Budget-directory generator + CLI driver + composed reference model (rows -> classification -> totals -> views)."""
import csv
import io
import json
import os
import re
import subprocess
from datetime import date, datetime
from html.parser import HTMLParser

import yaml

from vt import core, rules as R, world
from vt.checks import c05, c06, c10


def tally(cwd, *args, timeout=180, env_extra=None):
    env = dict(os.environ, PYTHONPATH=core.SRC, PYTHONDONTWRITEBYTECODE='1', NO_COLOR='1', PYTHONHASHSEED='0')
    env.pop('TALLY_CONFIG', None)
    if env_extra:
        env.update(env_extra)
    return subprocess.run([core.PY, '-m', 'tally'] + list(args), cwd=cwd, env=env, capture_output=True, text=True,
                          stdin=subprocess.DEVNULL, timeout=timeout)


def json_from_stdout(out):
    """`tally up --format json` prints progress lines first; the document starts at the first line that is '{' or '['."""
    lines = out.splitlines()
    for i, l in enumerate(lines):
        if l.strip() in ('{', '['):
            return json.loads('\n'.join(lines[i:]))
    raise ValueError('no JSON document in output')


class _Grab(HTMLParser):
    def __init__(self):
        super().__init__(convert_charrefs=True)
        self.on, self.buf, self.scripts = False, [], []

    def handle_starttag(self, tag, attrs):
        if tag == 'script':
            self.on, self.buf = True, []

    def handle_endtag(self, tag):
        if tag == 'script' and self.on:
            self.scripts.append(''.join(self.buf))
            self.on = False

    def handle_data(self, d):
        if self.on:
            self.buf.append(d)


def html_data(path):
    g = _Grab()
    g.feed(open(path, encoding='utf-8').read())
    g.close()
    c = [s for s in g.scripts if s.lstrip().startswith('window.spendingData =')]
    if len(c) != 1:
        raise ValueError('%d data scripts' % len(c))
    body = c[0].strip()[len('window.spendingData ='):].strip().rstrip(';')
    return json.loads(body)


def html_transactions(data):
    """[(source, merchant, category, subcategory, description, amount, month, tags)] from spendingData.categoryView."""
    out = []
    for cname, cat in data['categoryView'].items():
        for sname, sub in cat['subcategories'].items():
            for mid, m in sub['merchants'].items():
                for t in m['transactions']:
                    out.append((t['source'], m['displayName'], m['category'], m['subcategory'], t['description'], round(t['amount'], 6), t['month'],
                                tuple(sorted(t['tags']))))
    return out


WORDS = ['NETFLIX', 'UBER EATS', 'COSTCO', 'STARBUCKS', 'WHOLE FOODS', 'AMZN MKTP', 'SHELL OIL', 'PAYROLL ACME', 'VENMO', 'FIDELITY 401K', 'RENT', 'GYM']


def gen_source(rnd, idx, supplemental=False, same_layout_as=None):
    """One data source: settings + file text + expected transactions (row model of C05)."""
    if same_layout_as is not None:
        # the same format string as another source, but its own delimiter / header / decimal / negate settings
        lay = {k: v for k, v in same_layout_as.items() if k != 'negate_setting'}
    else:
        lay = c05.gen_layout(rnd)
        while 'location' in lay['roles'] and rnd.random() < .5:
            lay = c05.gen_layout(rnd)
    conv = rnd.choice(['.', '.', ','])
    delim = rnd.choice([None, None, ';', '|', 'tab'])
    hdr = rnd.random() < .7
    if rnd.random() < .15:
        lay['negate_setting'] = True
    name = 'Src%d' % idx
    rows = c05.gen_rows(rnd, lay, conv, rnd.randint(3, 14))
    # descriptions: disjoint per source, correlated with the rule generator's pattern words
    for r in rows:
        if r['exp'] and lay['mode'] != 'template':
            j = lay['roles'].index('description')
            word = rnd.choice(WORDS)
            d = 'S%d %s %s' % (idx, word if rnd.random() < .7 else word.lower(), rnd.choice(['#12', 'WA', '42', '', 'x', '"Q"', 'x, y', "5' 2\""]))
            d = d.strip()
            if j < len(r['cells']):
                r['cells'][j] = rnd.choice(['', ' ']) + d + rnd.choice(['', ' '])
                r['exp']['desc'] = d
    # repeated charges: rows that repeat another row's description and amount cells on another date (a subscription, a fare),
    # so that anything keyed on (description, amount) alone conflates rows that a month/date rule tells apart
    import copy as _copy
    from datetime import datetime as _dt
    jd = lay['roles'].index('date')
    for r in [x for x in rows if x['exp'] and x['kind'] == 'ok' and len(x['cells']) == len(lay['roles'])]:
        if rnd.random() < .3:
            c = _copy.deepcopy(r)
            d2 = _dt(rnd.choice([2024, 2025]), rnd.randint(1, 12), rnd.randint(1, 28))
            c['cells'][jd] = d2.strftime(lay['dfmt'])
            c['exp']['date'] = d2
            rows.insert(rnd.randint(0, len(rows)), c)
    src = c05.build_source(lay, conv, delim, hdr, rnd)
    src['name'] = name
    src['file'] = 'data/%s.csv' % name.lower()
    dl = {None: ',', 'tab': '\t'}.get(delim, delim)
    text = c05.render_csv(rows, hdr, len(lay['roles']), dl, '\n')
    return {'settings': src, 'text': text, 'rows': rows, 'lay': lay, 'exp': [r['exp'] for r in rows if r['exp']], 'name': name}


def gen_regex_source(rnd, idx):
    """A text statement read with a regular-expression delimiter (upper-case character classes in it: \\S, [A-Z]); no header line."""
    from datetime import datetime as _dt
    name = 'Src%d' % idx
    pat = rnd.choice([r'^(\S+)\s+(.+?)\s+(-?[\d.]+)$', r'^(\d{2}/\d{2}/\d{4})\s+([A-Z0-9][^\t]*?)\s+(-?\d+\.\d{2})$'])
    lines, exp = [], []
    for k in range(rnd.randint(2, 9)):
        d = _dt(rnd.choice([2024, 2025]), rnd.randint(1, 12), rnd.randint(1, 28))
        word = rnd.choice(WORDS)
        desc = 'S%d %s %s' % (idx, word, rnd.choice(['#12', 'WA', '42', 'x']))
        amt = round(rnd.choice([1, 1, 1, -1]) * rnd.choice([5, 12.5, 99.99, 1234.56, 0.5]), 2)
        lines.append('%s  %s   %.2f' % (d.strftime('%m/%d/%Y'), desc, amt))
        exp.append({'date': d, 'desc': desc, 'amount': amt, 'field': None, 'location_cell': None})
        if rnd.random() < .2:
            lines.append(rnd.choice(['-- page 2 --', 'TOTAL 12 items', '']))
    src = {'name': name, 'file': 'data/%s.txt' % name.lower(), 'format': '{date:%m/%d/%Y}, {description}, {amount}', 'delimiter': 'regex:' + pat, 'has_header': False}
    return {'settings': src, 'text': '\n'.join(lines) + '\n', 'rows': [], 'lay': None, 'exp': exp, 'name': name, 'regex': True}


def gen_supplemental(rnd):
    n = rnd.randint(1, 5)
    rows = [{'date': date(2025, rnd.randint(1, 12), rnd.randint(1, 28)), 'item': rnd.choice(['Book', 'Cable', 'USB hub', 'Coffee beans', 'Netflix gift']),
             'amount': rnd.choice([5.0, 12.5, 20.0, 999.99, 1234.56, 1500.0, 0.1]), 'qty': str(rnd.randint(1, 3))} for _ in range(n)]
    buf = io.StringIO()
    w = csv.writer(buf, lineterminator='\n')
    w.writerow(['Date', 'Item', 'Amount', 'Qty'])
    if rnd.random() < .3:
        # an order that has no date yet (pending): its date cell is empty; it is a row like the others
        rows.insert(rnd.randint(0, len(rows)), {'date': '', 'item': 'Pending thing', 'amount': rnd.choice([7.0, 20.0]), 'qty': '1'})
    for r in rows:
        w.writerow([r['date'].isoformat() if r['date'] else '', r['item'], '%.2f' % r['amount'], r['qty']])
    settings = {'name': 'orders', 'file': 'data/orders.csv', 'format': '{date:%Y-%m-%d},{item},{amount},{qty}', 'columns': {'description': '{item}'},
                'supplemental': True}
    return {'settings': settings, 'text': buf.getvalue(), 'rows': rows, 'name': 'orders'}


def supplemental_rules(rnd, k):
    r = R.Rule('Verified %d' % k, 'contains("%s") and len(m) > 0' % rnd.choice(['S0', 'S1', 'NETFLIX', 'COSTCO', '']), 'Shopping', 'Verified',
               tags=['verified'] + (['{m[0].item}'] if rnd.random() < .5 else []))
    r.lets = [('m', '[r for r in orders if r.amount == %s]' % rnd.choice(['txn.amount', 'amount', 'abs(txn.amount)']))]
    if rnd.random() < .5:
        r.fields = [('items', '[r.item for r in m]'), ('n', 'len(m)')]
    return r


def gen_budget(rnd, nsources=None, rules='random', views=None, supplemental=None, layout='old'):
    nsources = rnd.randint(1, 3) if nsources is None else nsources
    b = {'sources': [], 'layout': layout}
    for i in range(nsources):
        twin = b['sources'][0]['lay'] if (i > 0 and rnd.random() < .4) else None
        if i > 0 and rnd.random() < .15:
            b['sources'].append(gen_regex_source(rnd, i))
            continue
        b['sources'].append(gen_source(rnd, i, same_layout_as=twin))
    b['supplemental'] = gen_supplemental(rnd) if (supplemental if supplemental is not None else rnd.random() < .4) else None
    # (a value that is not one of the two documented spellings - another letter case, a hyphen - is reported and read as first_match)
    b['rule_mode'] = rnd.choice(['first_match', 'first_match', 'most_specific', 'most_specific', None, None, 'First_Match', 'FIRST_MATCH', 'first-match'])
    kind = rnd.choice(['rules', 'rules', 'rules', 'csv', 'none']) if rules == 'random' else rules
    b['rules_kind'] = kind
    if kind == 'rules':
        gen = R.RuleGen(rnd, allow_rows=False)
        rf = gen.rule_file(nrules=rnd.randint(2, 8), transforms=rnd.random() < .3)
        for r in rf.rules:          # conditions over pattern words of the data
            if rnd.random() < .6:
                r.match = rnd.choice(['contains("%s")', 'regex("%s")', 'contains("%s") and amount > 0', 'contains("%s") or startswith("S1")']) % \
                    rnd.choice(WORDS + ['S0', 'S1', 'S2']).split(' ')[0]
        if rnd.random() < .35:
            # a transform that matters: strip the per-source prefix, and rules that only match once it is stripped
            rf.transforms = [('field.description', 'regex_replace(field.description, "^S\\\\d+ ", "")')] + list(rf.transforms)
            for r in rf.rules[:max(1, len(rf.rules) // 2)]:
                r.match = 'startswith("%s")' % rnd.choice(WORDS).split(' ')[0]
        if rnd.random() < .4:
            # calendar-dependent rules ahead of the rest: the same description and amount classify differently by month / year
            w = rnd.choice(WORDS + ['S0', 'S1']).split(' ')[0]
            m = rnd.randint(2, 11)
            rf.rules.insert(0, R.Rule('Late %s' % w.title(), 'contains("%s") and month > %d' % (w, m), 'Calendar', 'Late'))
            rf.rules.insert(0, R.Rule('LastYear %s' % w.title(), 'contains("%s") and year < 2025' % w, 'Calendar', 'LastYear', tags=['old']))
        if b['supplemental']:
            rf.rules.insert(rnd.randint(0, len(rf.rules)), supplemental_rules(rnd, 1))
        for i, tg in enumerate(['income', 'transfer', 'investment']):
            if rnd.random() < .3:
                rf.rules.insert(rnd.randint(0, len(rf.rules)), R.Rule('Flow %s' % tg, 'contains("%s")' % ['PAYROLL', 'VENMO', 'FIDELITY'][i], 'Flows', tg.title(), tags=[tg]))
        b['rf'] = rf
    elif kind == 'csv':
        b['csv_rules'] = [c for c in R.gen_csv_rules(rnd, rnd.randint(2, 7))]
        for c in b['csv_rules']:
            if rnd.random() < .6:
                c.pattern = rnd.choice(WORDS).split(' ')[0]
    b['views'] = (c10.gen_views(rnd) if (views if views is not None else rnd.random() < .5) else None)
    if b['views'] and rnd.random() < .35:
        # one merchant paid on 15 and on 29 February of a leap year, and views that tell days and weeks apart
        import copy as _copy
        from datetime import datetime as _dt
        s0 = b['sources'][0]
        lay = s0['lay']
        ok = [x for x in s0['rows'] if x['exp'] and x['kind'] == 'ok' and len(x['cells']) == len(lay['roles'])]
        if ok:
            jd = lay['roles'].index('date')
            for d2 in (_dt(2024, 2, 15), _dt(2024, 2, 29)):
                c = _copy.deepcopy(ok[0])
                c['cells'][jd] = d2.strftime(lay['dfmt'])
                c['exp']['date'] = d2
                s0['rows'].append(c)
            dl = {None: ',', 'tab': '\t'}.get(s0['settings'].get('delimiter'), s0['settings'].get('delimiter'))
            s0['text'] = c05.render_csv(s0['rows'], s0['settings'].get('has_header', True), len(lay['roles']), dl, '\n')
            s0['exp'] = [r['exp'] for r in s0['rows'] if r['exp']]
            gl, vs = b['views']
            vs = list(vs) + [{'name': 'LeapSameDay', 'locals': [], 'filter': 'max(count(by("day"))) >= 2'},
                             {'name': 'LeapWeeks', 'locals': [], 'filter': 'count(by("week")) >= 2'},
                             {'name': 'LeapDays', 'locals': [], 'filter': 'count(by("day")) >= 2'}]
            b['views'] = (gl, vs)
    if b['views']:
        # one merchant paid in the SAME calendar month of two years (a yearly renewal): `months` counts months of the statement period, as by("month") does
        import copy as _copy
        from datetime import datetime as _dt
        s0 = b['sources'][-1]
        lay = s0['lay']
        ok = [x for x in s0['rows'] if x['exp'] and x['kind'] == 'ok' and len(x['cells']) == len(lay['roles'])]
        if ok:
            jd = lay['roles'].index('date')
            for d2 in (_dt(2024, 3, 10), _dt(2025, 3, 10)):
                c = _copy.deepcopy(ok[-1])
                c['cells'][jd] = d2.strftime(lay['dfmt'])
                c['exp']['date'] = d2
                s0['rows'].append(c)
            dl = {None: ',', 'tab': '\t'}.get(s0['settings'].get('delimiter'), s0['settings'].get('delimiter'))
            s0['text'] = c05.render_csv(s0['rows'], s0['settings'].get('has_header', True), len(lay['roles']), dl, '\n')
            s0['exp'] = [r['exp'] for r in s0['rows'] if r['exp']]
            gl, vs = b['views']
            b['views'] = (gl, list(vs) + [{'name': 'MonthsAreStatementMonths', 'locals': [], 'filter': 'months == count(by("month"))'},
                                          {'name': 'RenewedNextYear', 'locals': [], 'filter': 'months >= 2 and count(by("year")) >= 2'}])
    b['currency'] = rnd.choice([None, '${amount}', '{amount} zl', '€{amount}'])
    # settings that name no rules file at all: config/merchants.rules is then used by convention (a budget run with a second settings file)
    b['implicit_rules_file'] = kind == 'rules' and rnd.random() < .15
    return b


def settings_dict(b):
    s = {'year': 2025, 'data_sources': [dict(x['settings']) for x in b['sources']]}
    if b['supplemental']:
        s['data_sources'].insert(0, dict(b['supplemental']['settings']))
    cfgn = b.get('cfg_name') or 'config'      # settings name files relative to the PARENT of the config folder, whatever that folder is called
    if b['rules_kind'] == 'rules' and not b.get('implicit_rules_file'):
        s['merchants_file'] = cfgn + '/merchants.rules'
    if b['rule_mode']:
        s['rule_mode'] = b['rule_mode']
    if b['views']:
        s['views_file'] = cfgn + '/views.rules'
    if b['currency']:
        s['currency_format'] = b['currency']
    return s


def write_budget(b, root):
    base = os.path.join(root, 'tally') if b.get('layout') == 'new' else root
    cfg = os.path.join(base, b.get('cfg_name') or 'config')
    os.makedirs(cfg, exist_ok=True)
    os.makedirs(os.path.join(base, 'data'), exist_ok=True)
    for s in b['sources'] + ([b['supplemental']] if b['supplemental'] else []):
        with open(os.path.join(base, s['settings']['file']), 'w', encoding='utf-8', newline='') as f:
            f.write(s['text'])
    with open(os.path.join(cfg, 'settings.yaml'), 'w', encoding='utf-8') as f:
        yaml.safe_dump(settings_dict(b), f, allow_unicode=True, sort_keys=False)
    if b['rules_kind'] == 'rules':
        with open(os.path.join(cfg, 'merchants.rules'), 'w', encoding='utf-8') as f:
            f.write(R.render(b['rf']))
    elif b['rules_kind'] == 'csv':
        with open(os.path.join(cfg, 'merchant_categories.csv'), 'w', encoding='utf-8', newline='') as f:
            f.write(R.render_csv(b['csv_rules']))
    if b['views']:
        with open(os.path.join(cfg, 'views.rules'), 'w', encoding='utf-8') as f:
            f.write(c10.render_views(*b['views']))
    return cfg


def extract_location(desc):
    m = re.search(r'\s+([A-Z]{2})\s*$', desc)
    return m.group(1) if m else None


def expected(b):
    """Composed reference: per transaction (source, merchant, category, subcategory, description, amount, month, tags)."""
    rows = {}
    if b['supplemental']:
        rows['orders'] = [{'date': r['date'], 'item': r['item'], 'amount': r['amount'], 'qty': r['qty']} for r in b['supplemental']['rows']]
    mode = b['rule_mode'] if b['rule_mode'] in ('first_match', 'most_specific') else 'first_match'
    out, unknown = [], 0
    for s in b['sources']:
        for e in s['exp']:
            txn = {'description': e['desc'], 'amount': float(e['amount']), 'date': e['date'].date(), 'field': e['field'], 'source': s['name'],
                   'location': e['location_cell'] or extract_location(e['desc'])}
            if b['rules_kind'] == 'rules':
                ref = R.ref_match(b['rf'], txn, rows, mode)
                triple, tags = ref['triple'], ref['tags']
            elif b['rules_kind'] == 'csv':
                ref = R.ref_match_csv(b['csv_rules'], txn)
                triple, tags = ref['triple'], ref['tags']
            else:
                triple, tags = None, set()
            if triple is None:
                unknown += 1
            eff = abs(txn['amount']) if ({'income', 'investment'} & {t.lower() for t in tags}) else txn['amount']
            out.append({'source': s['name'], 'triple': triple, 'desc': e['desc'], 'amount': eff, 'raw_amount': txn['amount'], 'month': e['date'].strftime('%Y-%m'),
                        'tags': tuple(sorted(tags)), 'date': e['date']})
    return out

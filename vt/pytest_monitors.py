"""pytest plugin: run the repository's own tests with library-level monitors attached (a second, human-written workload).

    PYTHONPATH=$VERIF_REPO/src:/verif  pytest -p vt.pytest_monitors ...      (VT_PYTEST_OUT=<json file> receives the counters)

Monitors (each guarded by a domain predicate; calls outside the modelled domain are counted, not judged):
  C06  post-condition on analyze_transactions: buckets vs exact money model, conservation, grouping sums and counts agree
  C03  value monitor on TransactionEvaluator.evaluate / ExpressionEvaluator.evaluate: every sub-expression value is plain data
"""
import json
import math
import os
import sys
from collections import Counter

COUNTS = Counter()
VIOLATIONS = []


def _in_domain(txns):
    try:
        for t in txns:
            a = t['amount']
            if isinstance(a, bool) or not isinstance(a, (int, float)) or not math.isfinite(a):
                return False
            if not hasattr(t['date'], 'strftime'):
                return False
            tags = t.get('tags', [])
            if tags is None or not all(isinstance(x, str) for x in tags):
                return False
            for k in ('merchant', 'category', 'subcategory'):
                if k not in t:
                    return False
        return True
    except Exception:
        return False


def _wrap_analyze(orig):
    from vt.checks import c06

    def analyze_transactions(transactions):
        stats = orig(transactions)
        try:
            lst = list(transactions)
            if not _in_domain(lst):
                COUNTS['c06_skipped_out_of_domain'] += 1
                return stats
            COUNTS['c06_postconditions_evaluated'] += 1
            tol = 1e-9 * (1 + sum(abs(t['amount']) for t in lst))
            b = c06.model(lst)[0]
            for name, sk in c06.STATKEY.items():
                if abs(stats[sk] - float(b[name])) > tol:
                    VIOLATIONS.append(('C06', 'bucket-total:' + name, f'{sk}={stats[sk]!r} model={float(b[name])!r} on {len(lst)} transactions'))
            sm = sum(d['total'] for d in stats['by_merchant'].values())
            sc = sum(d['total'] for d in stats['by_category'].values())
            smo = sum(stats['by_month'].values())
            if abs(sm - sc) > tol or abs(sc - smo) > tol:
                VIOLATIONS.append(('C06', 'grouping-sums-disagree', f'{sm} {sc} {smo}'))
            if sum(d['count'] for d in stats['by_merchant'].values()) != len(lst) or stats['count'] != len(lst):
                VIOLATIONS.append(('C06', 'grouping-counts-disagree', f'n={len(lst)}'))
        except Exception as e:   # a monitor must never change the outcome of the test it observes
            COUNTS['c06_monitor_errors'] += 1
        return stats
    analyze_transactions._vt_wrapped = True
    return analyze_transactions


def pytest_configure(config):
    import tally  # noqa
    import tally.analyzer, tally.cli, tally.commands.run, tally.commands.explain, tally.expr_parser  # noqa
    from vt import mon
    orig = tally.analyzer.analyze_transactions
    if not getattr(orig, '_vt_wrapped', False):
        w = _wrap_analyze(orig)
        for name, m in list(sys.modules.items()):
            if name.startswith('tally') and m is not None:
                for attr, val in list(vars(m).items()):
                    if val is orig:
                        setattr(m, attr, w)
                        COUNTS['c06_aliases_patched'] += 1
    mon.install_value_monitor(tally.expr_parser)
    mon._VAL['haystack'] = ' '.join(mon.MARKERS)      # tests may carry such text as data: only non-data VALUE TYPES are judged here
    mon._VAL['hits'], mon._VAL['count'], mon._VAL['nodes'] = [], 0, {}
    mon._VAL['on'] = True


def pytest_unconfigure(config):
    from vt import mon
    mon._VAL['on'] = False
    COUNTS['c03_subexpression_values_inspected'] = mon._VAL['count']
    for node, p in mon._VAL['hits'][:20]:
        VIOLATIONS.append(('C03', 'non-data-value:' + node, p))
    out = os.environ.get('VT_PYTEST_OUT')
    if out:
        with open(out, 'w') as f:
            json.dump({'counts': dict(COUNTS), 'violations': VIOLATIONS, 'nodes': mon._VAL['nodes']}, f)

"""Child-process injector (active only when VT_INJECT_LOG is set; put this directory first on PYTHONPATH).

Numbers every file-system effect the process performs under VT_INJECT_ROOT, appends it to VT_INJECT_LOG (JSON lines) and,
at effect number VT_INJECT_AT, either kills the process (crash) or makes that single effect fail with OSError(EIO).

Effects:  open-w / open-a (audit `open` with a writing mode: create or truncate),  close-w / close-a (the buffered content
reaches the disk: writes are held back by a proxy until close so that a torn write can be produced deterministically),
rename (os.rename / os.replace), move / copyfile / rmtree / copytree (the shutil operation as one step), remove, mkdir, rmdir,
truncate, chmod, symlink, link.

VT_INJECT_MODE: record | crash | crash-part | crash-full | error
   crash       exit(137) immediately BEFORE effect k takes place (for close-*: nothing of the pending content is written)
   crash-part  only for close-*: the first VT_INJECT_FRAC (0..1) of the pending content is written, then exit(137)
   crash-full  only for close-*: all pending content is written, then exit(137) (= crash right after the effect)
   error       effect k raises OSError(EIO) and does not take place; the process continues
"""
import os
import sys

_LOG = os.environ.get('VT_INJECT_LOG')
if _LOG:
    import builtins
    import errno
    import io
    import json

    _ROOT = os.path.realpath(os.environ.get('VT_INJECT_ROOT', '/nonexistent')) + os.sep
    _AT = int(os.environ.get('VT_INJECT_AT', '0') or 0)
    _MODE = os.environ.get('VT_INJECT_MODE', 'record')
    _fd = os.open(_LOG, os.O_WRONLY | os.O_CREAT | os.O_APPEND, 0o644)
    _state = {'n': 0, 'busy': False}
    _WATCH_READS = set(x for x in os.environ.get('VT_INJECT_WATCH_READS', '').split(',') if x)
    _real_open = builtins.open

    def _under(p):
        try:
            if isinstance(p, int):
                return None
            p = os.fspath(p)
            if isinstance(p, bytes):
                p = p.decode('utf-8', 'replace')
            ap = os.path.realpath(os.path.join(os.getcwd(), p)) if not os.path.isabs(p) else os.path.realpath(p)
            # realpath of a not-yet-existing file resolves its parents; good enough
            if (ap + os.sep).startswith(_ROOT):
                return ap[len(_ROOT):]
        except Exception:
            return None
        return None

    def _effect(kind, p1, p2=None):
        """Number an effect; returns 'crash'/'error'/None for the caller to act on."""
        _state['n'] += 1
        n = _state['n']
        os.write(_fd, (json.dumps({'n': n, 'kind': kind, 'path': p1, 'path2': p2}) + '\n').encode())
        if _AT and n == _AT:
            if _MODE == 'crash':
                os._exit(137)
            return _MODE
        return None

    def _hook(event, args):
        if _state['busy']:
            return
        try:
            if event == 'open':
                path, mode, flags = args[0], args[1], args[2]
                rel = _under(path)
                if rel is None:
                    return
                writing = (mode is not None and any(c in str(mode) for c in 'wax+')) or (mode is None and isinstance(flags, int) and flags & (os.O_WRONLY | os.O_RDWR | os.O_CREAT | os.O_TRUNC | os.O_APPEND))
                if not writing:
                    # reads are effects only for the files named in VT_INJECT_WATCH_READS (e.g. the legacy rules file a migration converts):
                    # an I/O error while READING the source of a conversion must not end in "converted 0 rules"
                    if os.path.basename(rel) in _WATCH_READS:
                        act = _effect('open-r', rel)
                        if act == 'error':
                            raise OSError(errno.EIO, 'injected I/O error while reading', str(path))
                        if act and act.startswith('crash'):
                            os._exit(137)
                    return
                act = _effect('open-a' if (mode and 'a' in str(mode)) else 'open-w', rel)
                if act == 'error':
                    raise OSError(errno.EIO, 'injected I/O error', str(path))
            elif event in ('shutil.move', 'shutil.copyfile', 'shutil.rmtree', 'shutil.copytree'):
                # the library-level operation as ONE step (an error here fails the whole move, whereas an error at the os.rename
                # inside shutil.move only triggers its copy-and-delete fallback)
                rel = _under(args[0])
                rel2 = _under(args[1]) if len(args) > 1 else None
                if rel is None and rel2 is None:
                    return
                act = _effect(event[7:], rel, rel2)
                if act == 'error':
                    raise OSError(errno.EIO, 'injected I/O error', str(args[0]))
            elif event in ('os.rename', 'os.remove', 'os.mkdir', 'os.rmdir', 'os.truncate', 'os.chmod', 'os.symlink', 'os.link'):
                rel = _under(args[0])
                rel2 = _under(args[1]) if event in ('os.rename', 'os.symlink', 'os.link') and len(args) > 1 else None
                if rel is None and rel2 is None:
                    return
                if event == 'os.mkdir' and os.path.isdir(args[0]):
                    return
                act = _effect(event[3:], rel, rel2)
                if act == 'error':
                    raise OSError(errno.EIO, 'injected I/O error', str(args[0]))
        except OSError:
            raise
        except Exception:
            return

    class _Proxy:
        """Holds writes back until close so that the moment 'content reaches the disk' is one numbered effect."""

        def __init__(self, f, rel, append):
            self._f, self._rel, self._append, self._buf, self._closed = f, rel, append, [], False

        def write(self, s):
            self._buf.append(s)
            return len(s)

        def writelines(self, lines):
            for l in lines:
                self.write(l)

        def flush(self):
            pass

        def fileno(self):
            # no descriptor-level shortcuts (os.sendfile / copy_file_range in shutil's fast copy): content must pass through write()
            raise io.UnsupportedOperation('fileno')

        def close(self):
            if self._closed:
                return
            self._closed = True
            data = (b'' if 'b' in getattr(self._f, 'mode', '') else '').join(self._buf)
            act = _effect('close-a' if self._append else 'close-w', self._rel)
            if act == 'error':
                self._f.close()
                raise OSError(errno.EIO, 'injected I/O error while writing', self._rel)
            if act and act.startswith('crash-part'):
                frac = float(os.environ.get('VT_INJECT_FRAC', '0.5'))
                self._f.write(data[:max(0, min(len(data) - 1, int(len(data) * frac)))])
                self._f.flush()
                os._exit(137)
            self._f.write(data)
            self._f.close()
            if act == 'crash-full':
                os._exit(137)

        def __enter__(self):
            return self

        def __exit__(self, *a):
            self.close()
            return False

        def __getattr__(self, name):
            return getattr(self._f, name)

    def _open(file, mode='r', *a, **k):
        f = _real_open(file, mode, *a, **k)
        try:
            if any(c in mode for c in 'wax') and '+' not in mode:
                rel = _under(file)
                if rel is not None:
                    return _Proxy(f, rel, 'a' in mode)
        except Exception:
            pass
        return f

    builtins.open = _open
    io.open = _open
    sys.addaudithook(_hook)

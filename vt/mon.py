"""Interpreter-level monitors: audit-hook recorder, sys.monitoring CALL denylist, value/string monitor on evaluate()."""
import ast
import datetime
import sys
import types

# ---------------------------------------------------------------------------------------------- audit recorder
_AUDIT = {'on': False, 'events': [], 'installed': False}
IGNORED_EVENTS = {
    # raised by the harness / interpreter machinery, never by user-controlled evaluation
    'sys.monitoring.register_callback', 'sys.monitoring.use_tool_id', 'sys.settrace', 'sys.setprofile', 'gc.get_objects',
    'gc.get_referrers', 'gc.get_referents', 'builtins.id',   # copy.deepcopy in the harness
    'sys.excepthook', 'sys.unraisablehook', 'cpython._PySys_ClearAuditHooks',
}


def _hook(event, args):
    if not _AUDIT['on']:
        return
    if event in IGNORED_EVENTS:
        return
    if event == 'compile':
        # ast.parse(expr, mode='eval') raises exactly one compile event with filename '<unknown>'
        fn = args[1] if len(args) > 1 else None
        if fn == '<unknown>':
            _AUDIT['events'].append(('compile:<unknown>', ''))
            return
    try:
        detail = repr(args)[:160]
    except Exception:
        detail = '?'
    _AUDIT['events'].append((event, detail))


def audit_install():
    if not _AUDIT['installed']:
        sys.addaudithook(_hook)
        _AUDIT['installed'] = True


class audit_window:
    def __enter__(self):
        _AUDIT['events'] = []
        _AUDIT['on'] = True
        return self

    def __exit__(self, *a):
        _AUDIT['on'] = False
        self.events = _AUDIT['events']
        return False


# ---------------------------------------------------------------------------------------------- CALL monitor
TOOL = 4
DENY_NAMES = {'__import__', 'eval', 'exec', 'compile', 'open', 'input', 'breakpoint', 'globals', 'locals', 'vars', 'dir',
              'setattr', 'delattr', 'import_module', 'system', 'popen', 'Popen', 'format', 'format_map', '__format__',
              '__subclasses__', 'mro', '__getattribute__', '__reduce__', '__reduce_ex__', 'exit', 'quit', 'help', 'memoryview',
              'getattr_static', 'attrgetter', 'methodcaller', 'itemgetter'}
_CALL = {'on': False, 'hits': [], 'count': 0, 'armed': False, 'safe_types': ()}
USER_REACHABLE = (str, bytes, int, float, complex, dict, list, tuple, set, frozenset, datetime.date, datetime.timedelta,
                  types.FunctionType, types.BuiltinFunctionType, types.MethodType, type, types.GeneratorType, types.ModuleType)


def _on_call(code, offset, callee, arg0):
    if not _CALL['on']:
        return
    _CALL['count'] += 1
    name = getattr(callee, '__name__', None)
    if name in ('getattr', 'hasattr') and getattr(callee, '__module__', None) == 'builtins':
        if arg0 is sys.monitoring.MISSING or isinstance(arg0, _CALL['safe_types']):
            return
        _CALL['hits'].append(('%s on user-reachable %s' % (name, type(arg0).__name__), code.co_name))
        return
    if name in DENY_NAMES:
        mod = getattr(callee, '__module__', None)
        if name == 'compile' and mod == 're':
            return          # compiling the user's REGULAR EXPRESSION is what regex()/extract() document; builtins.compile stays denied
        if name in ('format', '__format__') and mod == 'builtins' and not hasattr(callee, '__self__'):
            pass
        _CALL['hits'].append(('call to %s.%s' % (mod, name), code.co_name))


def call_monitor_arm(module, safe_types):
    """Enable CALL events for every code object defined in `module` (functions, methods, nested code)."""
    mon = sys.monitoring
    if not _CALL['armed']:
        mon.use_tool_id(TOOL, 'vt-c03')
        mon.register_callback(TOOL, mon.events.CALL, _on_call)
        _CALL['armed'] = True
    _CALL['safe_types'] = tuple(safe_types)
    seen = set()

    def walk(co):
        if co in seen:
            return
        seen.add(co)
        mon.set_local_events(TOOL, co, mon.events.CALL)
        for c in co.co_consts:
            if isinstance(c, types.CodeType):
                walk(c)

    for obj in vars(module).values():
        if isinstance(obj, types.FunctionType) and obj.__module__ == module.__name__:
            walk(obj.__code__)
        elif isinstance(obj, type) and obj.__module__ == module.__name__:
            for m in vars(obj).values():
                f = getattr(m, '__func__', m)
                if isinstance(f, types.FunctionType):
                    walk(f.__code__)
    return len(seen)


class call_window:
    def __enter__(self):
        _CALL['hits'] = []
        _CALL['count'] = 0
        _CALL['on'] = True
        return self

    def __exit__(self, *a):
        _CALL['on'] = False
        self.hits, self.count = _CALL['hits'], _CALL['count']
        return False


# ---------------------------------------------------------------------------------------------- value monitor
PLAIN = (type(None), bool, int, float, complex, str, bytes, type(Ellipsis), datetime.date, datetime.datetime, datetime.timedelta)
MARKERS = ("<class '", '<function ', '<built-in ', '<bound method ', '<module ', ' object at 0x', '<method ', '<slot wrapper',
           '<attribute ', '<member ', '<code object', '<frame ', '<cell ', '<generator object', ' at 0x')
_VAL = {'on': False, 'hits': [], 'count': 0, 'haystack': '', 'forbidden_instances': (), 'nodes': None}


def value_problem(v, depth=0, final=False):
    """None if v is plain data (recursively); else a short description."""
    if isinstance(v, PLAIN):
        if isinstance(v, str):
            lv = v.lower()
            for m in MARKERS:
                if m.lower() in lv and m.lower() not in _VAL['haystack'].lower():
                    return 'string carrying an interpreter repr %r: %r' % (m, v[:120])
        return None
    if depth > 6:
        return None
    if isinstance(v, (list, tuple, set, frozenset)):
        for x in v:
            p = value_problem(x, depth + 1, final)
            if p:
                return p
        return None
    if isinstance(v, dict):
        for k, x in v.items():
            p = value_problem(k, depth + 1, final) or value_problem(x, depth + 1, final)
            if p:
                return p
        return None
    if isinstance(v, types.GeneratorType):
        return 'generator object as a final value' if final else None
    if isinstance(v, _VAL['forbidden_instances']):
        return 'evaluator/context object %s' % type(v).__name__
    return 'value of type %s: %r' % (type(v).__name__, repr(v)[:100])


def install_value_monitor(ep):
    """Wrap TransactionEvaluator.evaluate and ExpressionEvaluator.evaluate: every sub-expression value is inspected."""
    _VAL['forbidden_instances'] = (ep.TransactionEvaluator, ep.ExpressionEvaluator, ep.TransactionContext, ep.ExpressionContext)
    for cls in (ep.TransactionEvaluator, ep.ExpressionEvaluator):
        if getattr(cls.evaluate, '_vt_wrapped', False):
            continue
        orig = cls.evaluate

        def make(orig):
            def evaluate(self, node):
                v = orig(self, node)
                if _VAL['on']:
                    _VAL['count'] += 1
                    if _VAL['nodes'] is not None:
                        _VAL['nodes'][type(node).__name__] = _VAL['nodes'].get(type(node).__name__, 0) + 1
                    p = value_problem(v)
                    if p:
                        _VAL['hits'].append((type(node).__name__, p))
                return v
            evaluate._vt_wrapped = True
            return evaluate
        cls.evaluate = make(orig)


class value_window:
    def __init__(self, haystack, nodes=None):
        self.h, self.nodes = haystack, nodes

    def __enter__(self):
        _VAL['hits'], _VAL['count'], _VAL['haystack'], _VAL['nodes'] = [], 0, self.h, self.nodes
        _VAL['on'] = True
        return self

    def __exit__(self, *a):
        _VAL['on'] = False
        self.hits, self.count = _VAL['hits'], _VAL['count']
        return False

"""Rule-file model, renderer, generator and reference matcher (.rules files and legacy CSV rule files).

The reference matcher is written from properties C01/C02/C09 and `tally reference`; it uses vt.lang.Ref for
condition truth and never imports tally.
"""
import ast
import csv
import io
import re
from dataclasses import dataclass, field as dfield
from datetime import date

from vt import lang


class OutOfDomain(Exception):
    """The reference hit a Python-level error (ill-typed expression): the case is outside the modelled domain."""


@dataclass
class Rule:
    name: str
    match: str
    category: str = ''
    subcategory: str = ''
    merchant: str = ''
    tags: list = dfield(default_factory=list)
    priority: object = None
    lets: list = dfield(default_factory=list)      # [(name, expr)]
    fields: list = dfield(default_factory=list)    # [(name, expr)]

    def to_json(self):
        return {'name': self.name, 'match': self.match, 'category': self.category, 'subcategory': self.subcategory,
                'merchant': self.merchant, 'tags': list(self.tags), 'priority': self.priority,
                'lets': [list(x) for x in self.lets], 'fields': [list(x) for x in self.fields]}

    @staticmethod
    def from_json(d):
        return Rule(d['name'], d['match'], d.get('category', ''), d.get('subcategory', ''), d.get('merchant', ''),
                    list(d.get('tags', [])), d.get('priority'), [tuple(x) for x in d.get('lets', [])],
                    [tuple(x) for x in d.get('fields', [])])


@dataclass
class RuleFile:
    variables: list = dfield(default_factory=list)   # [(name, expr)]
    transforms: list = dfield(default_factory=list)  # [(field.name, expr)]
    rules: list = dfield(default_factory=list)

    def to_json(self):
        return {'variables': [list(x) for x in self.variables], 'transforms': [list(x) for x in self.transforms],
                'rules': [r.to_json() for r in self.rules]}

    @staticmethod
    def from_json(d):
        return RuleFile([tuple(x) for x in d.get('variables', [])], [tuple(x) for x in d.get('transforms', [])],
                        [Rule.from_json(r) for r in d.get('rules', [])])

    def with_rules(self, rules):
        return RuleFile(list(self.variables), list(self.transforms), list(rules))


def render_rule(r):
    out = ['[%s]' % r.name]
    for n, e in r.lets:
        out.append('let: %s = %s' % (n, e))
    out.append('match: %s' % r.match)
    if r.category:
        out.append('category: %s' % r.category)
    if r.subcategory:
        out.append('subcategory: %s' % r.subcategory)
    if r.merchant:
        out.append('merchant: %s' % r.merchant)
    if r.priority is not None:
        out.append('priority: %d' % r.priority)
    for n, e in r.fields:
        out.append('field: %s = %s' % (n, e))
    if r.tags:
        out.append('tags: %s' % ', '.join(r.tags))
    return out


def render(rf):
    lines = ['# generated rules file']
    for n, e in rf.variables:
        lines.append('%s = %s' % (n, e))
    for p, e in rf.transforms:
        lines.append('%s = %s' % (p, e))
    lines.append('')
    for r in rf.rules:
        lines += render_rule(r)
        lines.append('')
    return '\n'.join(lines)


# ======================================================================================== reference matcher
def _ev(expr, txn, variables, rows):
    try:
        return lang.Ref(txn, variables, rows).eval_str(expr)
    except lang.RefError:
        raise
    except lang.Unmodelled as e:
        raise OutOfDomain('not modelled: %s' % e)
    except RecursionError:
        raise OutOfDomain('recursion')
    except Exception as e:
        raise OutOfDomain(type(e).__name__)


def apply_transforms_ref(txn, transforms):
    """Sequential field.* assignments before matching; values become strings; failures are skipped."""
    t = dict(txn)
    if t.get('field') is not None:
        t['field'] = dict(t['field'])
    for path, expr in transforms:
        try:
            v = _ev(expr, t, {}, {})
        except lang.RefError:
            continue
        name = path[6:].lower() if path.lower().startswith('field.') else path.lower()
        if name == 'description':
            t['description'] = str(v)
        else:
            if t.get('field') is None:
                raise OutOfDomain('transform assigns a custom field on a transaction without fields')
            t['field'][name] = str(v)
    return t


def rule_env(rf, r, txn, rows, gvars):
    env = dict(gvars)
    for n, e in r.lets:
        try:
            v = _ev(e, txn, env, rows)
            env[n.lower()] = list(v) if hasattr(v, '__next__') else v      # a generator as a whole value is materialised (every reader sees all of it)
        except lang.RefError:
            env[n.lower()] = None
    return env


def global_vars(rf, txn, rows):
    g = {}
    for n, e in rf.variables:
        try:
            v = _ev(e, txn, {}, rows)
            g[n.lower()] = list(v) if hasattr(v, '__next__') else v
        except lang.RefError:
            pass
    return g


def resolve_tags_ref(r, txn, env, rows):
    out = set()
    for tag in r.tags:
        tag = tag.strip()
        if not tag:
            continue
        if tag.startswith('{') and tag.endswith('}'):
            e = tag[1:-1].strip()
            if not e:
                continue
            try:
                v = _ev(e, txn, env, rows)
            except lang.RefError:
                continue
            if v is None:
                continue
            if isinstance(v, bool) or isinstance(v, (list, tuple, dict)) or hasattr(v, '__next__'):
                raise OutOfDomain('dynamic tag value that is not a string or number')   # statement does not define these
            if isinstance(v, (int, float)) and v == 0:
                raise OutOfDomain('zero-valued dynamic tag')                           # nor whether "0" is empty
            s = str(v).strip().lower()
            if s:
                out.add(s)
        else:
            out.add(tag.lower())
    return out


PATTERN_FUNCS = ('contains', 'regex', 'normalized', 'startswith', 'fuzzy', 'anyof')
KINDS = ('amount', 'date', 'month', 'year', 'day', 'source')


def specificity_ref(r, field_prims=False):
    """(priority, number of pattern-function calls, distinct constraint kinds, total pattern text length).
    field_prims: read `field.amount` / `field.date` / `field.source` as a constraint on that primitive too (it IS the amount), not only as a field constraint."""
    tree = ast.parse(r.match, mode='eval')
    pf, kinds, plen = 0, set(), 0
    for n in ast.walk(tree):
        if isinstance(n, ast.Call) and isinstance(n.func, ast.Name) and n.func.id.lower() in PATTERN_FUNCS:
            pf += 1
        if isinstance(n, ast.Name) and n.id.lower() in KINDS:
            kinds.add(n.id.lower())
        if isinstance(n, ast.Attribute) and isinstance(n.value, ast.Name):
            if n.value.id.lower() == 'field':
                kinds.add('field')
                if field_prims and n.attr.lower() in KINDS:
                    kinds.add(n.attr.lower())
            elif n.value.id.lower() == 'txn' and n.attr.lower() in KINDS:
                kinds.add(n.attr.lower())
        if isinstance(n, ast.Constant) and isinstance(n.value, str):
            seg = ast.get_source_segment(r.match, n)
            plen += len(seg) - 2 if seg else len(n.value)
    return (50 if r.priority is None else r.priority, pf, len(kinds), plen)


def ref_match(rf, txn, rows, mode='first_match', transformed=False):
    """Returns dict(triple, winner, sub_winner, matching, tags, fields, txn)."""
    t = txn if transformed else apply_transforms_ref(txn, rf.transforms)
    g = global_vars(rf, t, rows)
    matching, envs = [], {}
    for i, r in enumerate(rf.rules):
        env = rule_env(rf, r, t, rows, g) if r.lets else g
        try:
            ok = bool(_ev(r.match, t, env, rows))
        except lang.RefError:
            continue
        if ok:
            matching.append(i)
            envs[i] = env
    tags = set()
    for i in matching:
        tags |= resolve_tags_ref(rf.rules[i], t, envs[i], rows)
    cats = [i for i in matching if rf.rules[i].category]
    res = {'matching': matching, 'tags': tags, 'triple': None, 'winner': None, 'sub_winner': None, 'fields': {}, 'txn': t,
           'tie': False}
    if not cats:
        return res
    if mode == 'first_match':
        w = cats[0]
        sw = w if rf.rules[w].subcategory else None
    else:
        keys = {i: specificity_ref(rf.rules[i]) for i in cats}
        # `weekday` is not among the constraint kinds the statement lists (amount, date, source, field); a reader may count it as none, one
        # (its own kind) or two (it also is a "day"): when that choice would decide the ranking the case is outside the stated domain
        wk = {i for i in cats if re.search(r'\bweekday\b', rf.rules[i].match, re.I)}
        if wk:
            def top(bonus):
                kk = {i: (keys[i][0], keys[i][1], keys[i][2] + (bonus if i in wk else 0), keys[i][3]) for i in cats}
                return [i for i in cats if kk[i] == max(kk.values())], [i for i in cats if rf.rules[i].subcategory and kk[i] == max(kk[j] for j in cats if rf.rules[j].subcategory)]
            if len({repr(top(b)) for b in (0, 1, 2)}) > 1:
                raise OutOfDomain('weekday as a constraint kind decides the ranking')
        # likewise `field.amount` (the amount reached through the field accessor): one kind ("field") or two ("field" and "amount")?
        if any(re.search(r'\bfield\.(%s)\b' % '|'.join(sorted(KINDS)), rf.rules[i].match, re.I) for i in cats):
            def top2(fp):
                kk = {i: specificity_ref(rf.rules[i], field_prims=fp) for i in cats}
                subs_ = [j for j in cats if rf.rules[j].subcategory]
                return [i for i in cats if kk[i] == max(kk.values())], [i for i in subs_ if kk[i] == max(kk[j] for j in subs_)]
            if repr(top2(False)) != repr(top2(True)):
                raise OutOfDomain('field.<primitive> as a constraint kind decides the ranking')
        best = max(keys.values())
        top = [i for i in cats if keys[i] == best]
        w = top[0]
        res['tie'] = len(top) > 1
        subs = [i for i in cats if rf.rules[i].subcategory]
        sw = None
        if subs:
            bs = max(keys[i] for i in subs)
            stop = [i for i in subs if keys[i] == bs]
            sw = stop[0]
            res['sub_tie'] = len(stop) > 1
    r = rf.rules[w]
    res['winner'], res['sub_winner'] = w, sw
    res['triple'] = (r.merchant or r.name, r.category, rf.rules[sw].subcategory if sw is not None else '')
    f = {}
    for n, e in r.fields:
        try:
            f[n.lower()] = _ev(e, t, envs[w], rows)
        except lang.RefError:
            pass
    res['fields'] = f
    return res


# ======================================================================================== generator
CATS = [('Food', 'Grocery'), ('Food', 'Delivery'), ('Subscriptions', 'Streaming'), ('Transport', ''), ('Shopping', 'Online'),
        ('Bills', 'Rent'), ('Income', 'Salary'), ('Travel', 'Air'), ('Health', '')]
STATIC_TAGS = ['recurring', 'Business', 'LARGE', 'income', 'Transfer', 'needs review', 'q1', 'café', ' padded ', 'ref #1', 'acct # 2', "kid's", '5" nails',
               # letters that lower() keeps and a case FOLD rewrites (tags are lower-cased, not folded)
               'Fu\u00dfweg', '\u039f\u0394\u039f\u03a3', 'Wa\u017f\u017fer', '\u00b5Bank']
DYN_TAGS = ['{field.memo}', '{source}', '{extract("REF:(\\\\d+)")}', '{extract("REF:(\\\\d{1,3})")}', '{extract("#(\\\\d{2})")}', '{label}', '{split("-", 0)}', '{field.code}', '{txn.location}',
            '{lowercase(field.memo)}', '{field.nope}', '{ }', '{trim(field.memo)}', '{substring(description, 0, 4)}',
            '{extract(field.code, "#(\\\\d+)")}', '{extract("Foods #(\\\\d+)")}', '{extract(field.code, "REF:\\\\d+ #(\\\\d+)")}',
            # expressions whose letter case matters (\\S is not \\s, "B" is not "b" for split)
            '{extract(field.code, "REF:(\\\\S+)")}', '{extract("\\\\D+ (\\\\d+)")}', '{split(field.code, "B", 0)}', '{extract(field.memo, "PROJ:(\\\\S+)")}',
            '{split(description, "S", 1)}',
            # parentheses / commas inside a string literal of the expression are text, not tag-list syntax
            '{split(description, "(", 0)}', '{"big,spender" if amount > 100 else "small)"}', '{split(field.code, ")", 0)}',
            # a tag that looks its value up in a supplemental source (only meaningful where the check supplies rows / orders)
            '{next((r.item for r in orders if r.qty > 0), "none")}', '{next((r.item for r in rows if r.amt == amount), "no-row")}',
            # numbers as tag values (1 is a number like any other: January, the 1st, a 1.00 payment)
            '{month}', '{day}', '{year}', '{round(amount)}', '{len(description)}',
            # custom columns named like date parts
            '{field.year}', '{field.day}']
TRANSFORMS = [
    ('field.description', 'regex_replace(field.description, "^SQ \\\\*", "")'),
    ('field.description', 'strip_prefix(field.description, "UBER ")'),
    ('field.description', 'uppercase(field.description)'),
    ('field.description', 'trim(regex_replace(field.description, "\\\\s+", " "))'),
    ('field.description', 'regex_replace(field.description, "#\\\\d+", "")'),
    ('field.memo', 'trim(field.memo)'),
    ('field.code', 'split(field.code, "-", 0)'),
    ('field.newf', 'lowercase(field.memo)'),
    ('field.description', 'strip_suffix(field.description, field.code)'),
    ('field.memo', 'field.memo + "!"'),
]


class RuleGen:
    def __init__(self, rnd, allow_rows=True):
        self.r = rnd
        self.g = lang.Gen(rnd, allow_rows=allow_rows)
        self.allow_rows = allow_rows
        self.k = 0

    def cond(self, depth=None):
        d = self.r.choice([1, 1, 2, 2, 3]) if depth is None else depth
        for _ in range(20):
            e = self.g.B(d)
            try:
                ast.parse(e, mode='eval')
                if '\n' not in e:
                    return e
            except SyntaxError:
                pass
        return 'true'

    def var_defs(self):
        r = self.r
        out = []
        def clean(kind, depth):
            for _ in range(30):
                e = getattr(self.g, kind)(depth)
                if not re.search(r'\b(big|is_big|label)\b', e, re.I):
                    return e
            return {'N': '500', 'B': 'amount > 100', 'S': '"Amex"'}[kind]
        out.append(('big', r.choice(['500', '100', '0.5', clean('N', 1)])))
        # (names are case-insensitive also where a variable is DEFINED: `AMOUNT > 100`, call-free, depends on the row like `amount > 100` does)
        out.append(('is_big', r.choice(['amount > 100', 'false', clean('B', 1), 'AMOUNT > 100', 'Month >= 6', 'Date >= "2025-02-01"', 'Amount < 0 or Day > 15'])))
        out.append(('label', r.choice(['"Amex"', '"net"', clean('S', 1)])))
        if r.random() < .1:
            out.pop(r.randrange(3))
        if r.random() < .2:
            # a user variable spelled like a built-in name takes precedence over it in every rule of the file
            out.append(r.choice([('amount', 'abs(amount)'), ('month', 'month % 6'), ('source', '"Chase"'), ('day', 'weekday'),
                                 ('year', 'year - 1'), ('description', 'lowercase(description)')]))
        r.shuffle(out)
        if r.random() < .3:
            out = [(n.upper() if r.random() < .3 else n, e) for n, e in out]
        return out

    def tags(self):
        r = self.r
        n = r.choice([0, 0, 1, 1, 2, 3])
        out = []
        for _ in range(n):
            out.append(r.choice(DYN_TAGS) if r.random() < .4 else r.choice(STATIC_TAGS))
        return out

    def rule(self, tag_only=None):
        r = self.r
        self.k += 1
        if tag_only is None:
            tag_only = r.random() < .3
        cat, sub = ('', '') if tag_only else r.choice(CATS)
        if not tag_only and r.random() < .3:
            sub = ''
        rule = Rule(name='R%d %s' % (self.k, r.choice(['Netflix', 'Uber Eats', "Joe's", 'Big-Box', 'x', 'x', '5% Back', 'Save 10%s', '100%', 'Costco [Gas]', 'Shop (EU) #2'])), match=self.cond(),
                    category=cat, subcategory=sub)
        if r.random() < .3:
            rule.merchant = r.choice(['Netflix', 'Uber', 'Merchant %d' % self.k, 'Café'])
        rule.tags = self.tags()
        if tag_only and not [t for t in rule.tags if t.strip()]:
            rule.tags = [r.choice(STATIC_TAGS[:6])]
        if r.random() < .15:
            rule.priority = r.choice([0, 10, 50, 51, 90, 100])
        if self.allow_rows and r.random() < .25:
            src = r.choice(['rows', 'orders'])
            rule.lets = [('m', '[r for r in %s if %s]' % (src, self.g.Brow(1)))]
            if r.random() < .5:
                rule.lets.append(('k', 'len(m)'))
                rule.match = '(%s) and k %s %d' % (rule.match, r.choice(['>', '>=', '==']), r.randint(0, 2))
            else:
                rule.match = '(%s) %s len(m) > %d' % (rule.match, r.choice(['and', 'or']), r.randint(0, 1))
            if r.random() < .6:
                rule.fields = [('items', '[r.item for r in m]'), ('n', 'len(m)')][:r.randint(1, 2)]
                if r.random() < .3:
                    rule.tags.append('{m[0].item}')
        elif r.random() < .15:
            rule.lets = [('w', self.g.S(1))]
            rule.match = '(%s) or w == %s' % (rule.match, self.g.q(self.g.lit()))
            rule.fields = [('who', 'w')]
        elif r.random() < .1:
            rule.fields = [('memo2', 'field.memo'), ('amt2', 'amount * 2')][:r.randint(1, 2)]
        if not rule.lets and r.random() < .08:
            # a let: binding spelled like a built-in name shadows it within the rule
            rule.lets = [r.choice([('amount', 'abs(amount) * 2'), ('day', 'weekday'), ('Month', '13 - month'), ('source', 'uppercase(source)')])]
        return rule

    def rule_file(self, nrules=None, transforms=None):
        r = self.r
        n = r.randint(0, 12) if nrules is None else nrules
        rf = RuleFile(variables=self.var_defs())
        if transforms is None:
            transforms = r.random() < .35
        if transforms:
            rf.transforms = r.sample(TRANSFORMS, r.randint(1, 3))
        rf.rules = [self.rule() for _ in range(n)]
        return rf

    def false_rule(self):
        """A rule whose condition is false for every transaction of the pool (many syntactic shapes)."""
        r = self.r
        self.k += 1
        cond = r.choice(['contains("ZZZQQQ")', 'amount > 1e15', 'false', 'regex("^\\\\d{40}$")', 'year == 1850',
                         'contains("ZZZ") and amount > 0', 'startswith("QQQ") or normalized("Q-Q-Q-Q")', 'not true',
                         'source == "no such source"', 'date < "1900-01-01"', 'len(description) > 9999', 'anyof("QQQZ", "ZQZQ")'])
        cat, sub = r.choice(CATS)
        rule = Rule(name='F%d' % self.k, match=cond, category=cat if r.random() < .7 else '', subcategory=sub if r.random() < .5 else '')
        rule.tags = [r.choice(STATIC_TAGS + DYN_TAGS[:4])] if (not rule.category or r.random() < .5) else []
        if not rule.category:
            rule.subcategory = ''
        if r.random() < .3:
            rule.priority = r.choice([99, 100, 1000])
        if r.random() < .2:
            rule.merchant = 'Should Not Appear'
        if r.random() < .2:
            rule.fields = [('leak', '"x"')]
        return rule


# ======================================================================================== legacy CSV rule files
@dataclass
class CsvRule:
    pattern: str            # regex (no modifiers)
    mods: list              # [('amount', op, v...) | ('date', '=', iso) | ('date', ':', a, b) | ('month', n)]
    merchant: str
    category: str
    subcategory: str
    tags: list

    def pattern_text(self):
        s = self.pattern
        for m in self.mods:
            if m[0] == 'amount':
                s += '[amount:%s-%s]' % (m[2], m[3]) if m[1] == ':' else '[amount%s%s]' % (m[1], m[2])
            elif m[0] == 'date':
                s += '[date:%s..%s]' % (m[2], m[3]) if m[1] == ':' else '[date=%s]' % m[2]
            elif m[0] == 'month':
                s += '[month=%d]' % m[1]
        return s

    def to_json(self):
        return {'pattern': self.pattern, 'mods': [list(m) for m in self.mods], 'merchant': self.merchant,
                'category': self.category, 'subcategory': self.subcategory, 'tags': list(self.tags)}

    @staticmethod
    def from_json(d):
        return CsvRule(d['pattern'], [tuple(m) for m in d['mods']], d['merchant'], d['category'], d['subcategory'], list(d['tags']))


def render_csv(rules, rnd=None, short_all=False):
    buf = io.StringIO()
    w = csv.writer(buf, lineterminator='\n')
    w.writerow(['Pattern', 'Merchant', 'Category', 'Subcategory', 'Tags'])
    out = [buf.getvalue()]
    for r in rules:
        buf = io.StringIO()
        cells = [r.pattern_text(), r.merchant, r.category, r.subcategory, '|'.join(r.tags)]
        if short_all or (rnd is not None and rnd.random() < .15):
            # a hand-edited file: the empty cells at the END of a line are simply not there (fewer cells than the header has columns)
            while len(cells) > 2 and cells[-1] == '':
                cells.pop()
        csv.writer(buf, lineterminator='\n').writerow(cells)
        out.append(buf.getvalue())
        if rnd is not None and rnd.random() < .15:
            out.append(rnd.choice(['# a comment line\n', '\n', '   \n', '# X,Y,Z,W\n']))
    return ''.join(out)


def csv_mods_hold(mods, amount, d):
    for m in mods:
        if m[0] == 'amount':
            if amount is None:
                return False
            op = m[1]
            if op == ':':
                ok = float(m[2]) <= amount <= float(m[3])
            else:
                v = float(m[2])
                ok = {'>': amount > v, '>=': amount >= v, '<': amount < v, '<=': amount <= v, '=': abs(amount - v) < 0.01}[op]
            if not ok:
                return False
        elif m[0] == 'date':
            if d is None:
                return False
            if m[1] == ':':
                if not (date.fromisoformat(m[2]) <= d <= date.fromisoformat(m[3])):
                    return False
            elif d != date.fromisoformat(m[2]):
                return False
        elif m[0] == 'month':
            if d is None or d.month != m[1]:
                return False
    return True


def ref_match_csv(rules, txn):
    """Legacy semantics: case-insensitive regex search of the description AND all modifiers; first categorizing row wins."""
    matching = []
    for i, r in enumerate(rules):
        try:
            if not re.search(r.pattern, txn.get('description', ''), re.I):
                continue
        except re.error:
            continue
        if csv_mods_hold(r.mods, txn.get('amount'), txn.get('date')):
            matching.append(i)
    tags = []
    for i in matching:
        for t in rules[i].tags:
            t = t.strip().lower()
            if t and t not in tags:
                tags.append(t)
    cats = [i for i in matching if rules[i].category]
    triple = None
    if cats:
        r = rules[cats[0]]
        triple = (r.merchant, r.category, r.subcategory)
    return {'matching': matching, 'tags': set(tags), 'triple': triple, 'winner': cats[0] if cats else None}


CSV_PATTERNS = ['NETFLIX', 'UBER\\s*EATS', 'UBER', 'STAR.?BUCKS', 'AMZN|AMAZON', 'COSTCO', 'WHOLE FOODS', '^NET', 'FOODS$',
                'MKTP', '\\d+', 'SQ \\*', "O'REILLY", 'CAF.', 'EATS(?! 42)', 'uber', 'Netflix\\.com', '[A-Z]+-[A-Z]+', 'GAS \\d{3}',
                '(AMZN|COSTCO)', 'NETFLIX and chill', 'A or B', '(?i)costco', 'field\\.x', 'amount>5', 'contains\\(']


def gen_csv_rules(rnd, n=None):
    out = []
    n = rnd.randint(1, 10) if n is None else n
    for i in range(n):
        mods = []
        for _ in range(rnd.choice([0, 0, 0, 1, 1, 2])):
            k = rnd.randint(0, 3)
            if k == 0:
                op = rnd.choice(['>', '>=', '<', '<=', '=', ':'])
                v = rnd.choice(['100', '12', '99.99', '0.5', '500', '50'])
                mods.append(('amount', ':', '10', '100') if op == ':' else ('amount', op, v))
            elif k == 1:
                mods.append(('date', '=', rnd.choice(lang.ISO)))
            elif k == 2:
                mods.append(('date', ':', '2024-12-31', rnd.choice(['2025-01-31', '2025-02-28'])))
            else:
                mods.append(('month', rnd.choice([1, 2, 6, 12])))
        cat, sub = rnd.choice(CATS)
        if rnd.random() < .2:
            cat, sub = '', ''
        tags = [rnd.choice(['recurring', 'Business', 'income', 'needs review', 'Q1', 'Spa\u00df', '\u0394\u03b9\u03b1\u03ba\u03bf\u03c0\u03ad\u03c2', 'Stra\u00dfe'])      # (tags are lower-cased, not case-folded - on every path)
                for _ in range(rnd.choice([0, 0, 1, 2]))]
        if not cat and not tags:
            tags = ['flag']
        # (a Pattern cell that consists of modifiers only - `[amount>500]`, `[month=12]` - is a rule about every description)
        out.append(CsvRule('' if (mods and rnd.random() < .08) else rnd.choice(CSV_PATTERNS), mods, ('M%d %s' % (i, rnd.choice(['Netflix', 'Uber', 'Shop']))) if rnd.random() > .06 else '', cat, sub, tags))
    return out
